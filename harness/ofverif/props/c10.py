"""C10 — group aggregations and projections equal their per-group definitions.

One protocol line = one population + one operation:

    grp <roles> <count> <members> <op> <role> <args…>

(see grputil.py for the tokens).  The implementation adapter builds real entities
(`entities.build_entity`), a real `Simulation` with a `Population` and a `GroupPopulation` whose
`members_entity_id` / `members_role` are set as `SimulationBuilder.join_with_persons` sets them,
and calls the public method.  The oracle recomputes every answer with a naive per-group
comprehension written straight from the property statement.
"""
from __future__ import annotations

import functools
import itertools
import random

from ..core import Case, Prop
from .. import grputil as G

INF = float("inf")
SIG_TRAILING = "trailing-empty-group"          # defect class F-C10
GROUP_OPS = ("sum", "any", "all", "min", "max", "nb", "nth", "first", "from", "pnth", "pfirst")
PERSON_OPS = ("hasrole", "rank", "partner")
DTYPES = ("float64", "float32", "int64", "int32")


# --------------------------------------------------------------------------------------
# parsing of a protocol line (shared by adapter and oracle)


def split_line(line: str):
    """`ents` = the group entities of the line (household, and `family` for chain2), each a view
    {roles, count, members}; for chain / chain2 `args` = [start, shortcuts, op, op args…]"""
    f = line.split()
    assert f[0] == "grp"
    c = {"roles": f[1], "count": int(f[2]), "members": G.parse_members(f[3]), "mtok": f[3],
         "op": f[4], "role": f[5], "args": f[6:], "contain": "c0", "second": None}
    c["ents"] = [{"roles": c["roles"], "count": c["count"], "members": c["members"]}]
    if c["op"] == "chain2":
        r2, n2, m2, ct = c["args"][:4]
        c["second"] = (r2, int(n2), m2)
        c["contain"] = ct
        c["ents"].append({"roles": r2, "count": int(n2), "members": G.parse_members(m2)})
        c["args"] = c["args"][4:]
    return c


@functools.lru_cache(maxsize=8)
def _population(roles, count, mtok, second, contain, roles_unset, positions, clone):
    r2, n2, m2 = second or (None, 0, None)
    pops = G.build_population(roles, count, G.parse_members(mtok), r2, n2, G.parse_members(m2) if m2 else None,
                              contain, roles_unset, list(positions) if positions is not None else None)
    if clone:
        sim = pops[0].clone()
        pops = (sim, sim.persons, *[sim.populations[p.entity.key] for p in pops[2:]])
    return pops


@functools.lru_cache(maxsize=1)
def _enum_class():
    from openfisca_core.indexed_enums import Enum
    return Enum("C10Enum", [(f"m{k}", f"m{k}") for k in range(8)])


_INPUTS: dict = {}      # (token, dtype) -> (the array handed to the code, a snapshot of it): one impl() call


def _np(tok: str, dtype):
    """the array of a value token; within one impl() call the SAME array object is handed out again for the same token (a
    second operation then works on the array the first one was given), and a snapshot is kept: no operation may change its
    argument arrays"""
    hit = _INPUTS.get((tok, dtype))
    if hit is None:
        import numpy
        a = _np_new(tok, dtype)
        hit = _INPUTS[(tok, dtype)] = (a, numpy.array(numpy.asarray(a), copy=True))
    return hit[0]


def _inputs_changed() -> bool:
    import numpy
    for a, snap in _INPUTS.values():
        b = numpy.asarray(a)
        if b.shape != snap.shape or b.dtype != snap.dtype:
            return True
        same = numpy.array_equal(b, snap, equal_nan=True) if b.dtype.kind == "f" else bool(numpy.all(b == snap))
        if not same:
            return True
    return False


_POISON = None          # (mask of the persons that do NOT hold the role of the call, value) for the current impl() call
POISONS = {"nan": float("nan"), "inf": float("inf"), "-inf": float("-inf"), "huge": 2.0 ** 80, "-huge": -(2.0 ** 80)}


def _np_new(tok: str, dtype):
    a = _np_plain(tok, dtype)
    if _POISON is not None and tok.startswith("i:") and getattr(a, "dtype", None) is not None and a.dtype.kind == "f" \
            and len(a) == len(_POISON[0]):
        # a role-restricted aggregate only looks at the holders of the role: the values of everybody else are replaced by
        # nan / inf / huge numbers; the line (and the model, and the oracle) keep the original values
        import numpy
        a = a.copy()
        a[numpy.array(_POISON[0], dtype=bool)] = _POISON[1]
    return a


def _np_plain(tok: str, dtype):
    kind, vals = G.parse_vals(tok)
    if dtype == "str" and kind == "i":
        import numpy
        return numpy.array([str(v) for v in vals], dtype="<U8")          # decimal texts: the default 0 is the text '0'
    if dtype == "date" and kind == "i":
        import numpy
        return numpy.array(vals, dtype=numpy.int64).astype("datetime64[D]")   # days since 1970-01-01
    if dtype == "enum" and kind == "i":
        import numpy
        from openfisca_core.indexed_enums import EnumArray
        return EnumArray(numpy.array(vals, dtype=numpy.int16), _enum_class())
    return G.np_vals(kind, vals, dtype)


def _role_obj(groups, rtok, pl):
    """the Role object of a role token: from the entity's tables or, for a role a person can hold,
    through `GroupPopulation.get_role(key)` (payload `get_role`)"""
    if rtok == "-":
        return None
    if rtok == "?":
        return "not-a-role"
    gp = groups[0 if rtok[0] in "tf" else 1]
    role = G.role_of(gp.entity, rtok)
    if pl.get("get_role") and not role.subroles:
        role = gp.get_role(role.key)
    return role


def _call(target, groups, op, role, args, dtype, pl):
    """call method `op` on `target` (a population or a projector)"""
    robj = _role_obj(groups, role, pl)
    P = groups[0].members

    def with_role(m, *a):
        if role == "-":
            return m(*a)
        return m(*a, robj) if pl.get("role_positional") else m(*a, role=robj)

    if op in ("sum", "any", "all", "min", "max"):
        return with_role(getattr(target, op), _np(args[0], dtype))
    if op == "nb":
        return with_role(target.nb_persons)
    if op in ("nth", "pnth"):
        if op == "pnth":
            args = args[1:]
        k, d, a = int(args[0]), int(args[1]), _np(args[2], dtype)
        if d == 0 and pl.get("omit_default"):
            return target.value_nth_person(k, a)
        return target.value_nth_person(k, a, default=d)
    if op in ("first", "pfirst"):
        return target.value_from_first_person(_np(args[-1], dtype))
    if op == "from":
        d, a = int(args[0]), _np(args[1], dtype)
        if d == 0 and pl.get("omit_default"):
            return target.value_from_person(a, robj)
        return target.value_from_person(a, robj, default=d)
    if op == "hasrole":
        return target.has_role(robj)
    if op == "rank":
        entity = P.household if pl.get("rank_entity") == "projector" else groups[0]
        cond = _np(args[1], None)
        if pl.get("cond_default") and cond.all():
            return target.get_rank(entity, _np(args[0], dtype))
        if pl.get("cond_scalar") and cond.all():
            return target.get_rank(entity, _np(args[0], dtype), condition=True)
        return target.get_rank(entity, _np(args[0], dtype), condition=cond)
    if op == "partner":
        return target.value_from_partner(_np(args[0], dtype), P.household, robj)
    if op == "project":
        return with_role(target.project, _np(args[0], dtype))
    raise ValueError("unknown op " + op)


def _as_ints(r, dtype):
    """str / date results back as integers (the texts are decimal, the dates days since the epoch)"""
    import numpy
    r = numpy.asarray(r)
    if dtype == "str" and r.dtype.kind == "U":
        return numpy.array([int(x) for x in r.tolist()], dtype=numpy.int64)
    if dtype == "date" and r.dtype.kind == "M":
        return r.astype("datetime64[D]").astype(numpy.int64)
    return r


class _Aliased(Exception):
    """a second identical call gave another answer after the first result was overwritten"""


def _twice(thunk, pl):
    """payload `twice`: call, overwrite the returned array in place, call again: the second answer must be the first one
    (a result must not be a view of the population's state or of a cached result)"""
    r = thunk()
    if not pl.get("twice"):
        return r
    import numpy
    keep = numpy.array(numpy.asarray(r), copy=True)
    try:
        if isinstance(r, numpy.ndarray) and r.size and r.flags.writeable:
            numpy.asarray(r)[...] = numpy.asarray(r)[::-1].copy() if r.dtype.kind in "UM" else (r.dtype.type(1) if r.dtype.kind == "b" else 77)
    except (TypeError, ValueError):
        pass
    r2 = thunk()
    a2 = numpy.asarray(r2)
    if a2.shape != keep.shape or not bool(numpy.all(a2 == keep)):
        raise _Aliased
    return r2


def _attr_name(groups, sc: str) -> str:
    if sc == "mb":
        return "members"
    if sc == "h":
        return "household"
    if sc == "k":
        return "family"
    if sc == "fp":
        return "first_person"
    if sc == "x":
        return "no_such_thing"
    return G.role_of(groups[0 if sc[0] in "tf" else 1].entity, sc).key


def impl(case: Case) -> str:
    global _POISON
    _INPUTS.clear()
    _POISON = None
    pl = case.payload or {}
    if pl.get("poison"):
        c = split_line(case.line)
        match = G.role_matches(c["roles"], c["role"].lower()) if c["role"] not in "-?" else None
        if match is not None:
            _POISON = ([r not in match for _, r in c["members"]], POISONS[pl["poison"]])
    out = _impl(case)
    _POISON = None
    if _inputs_changed():
        return "MUTATED " + out
    return out


def _impl(case: Case) -> str:
    c = split_line(case.line)
    op, role, args = c["op"], c["role"], c["args"]
    pl = case.payload or {}
    dtype = pl.get("dtype", "float64")
    positions = None
    if op in ("pnth", "pfirst"):
        positions = tuple(G.parse_vals(args[0])[1])
    sim, P, *groups = _population(c["roles"], c["count"], c["mtok"], c["second"], c["contain"],
                                  bool(pl.get("roles_unset")), positions, bool(pl.get("clone")))
    H = groups[0]
    try:
        if op == "positions":
            return G.fmt_array(H.members_position)
        if op == "omap":
            return G.fmt_array(H.ordered_members_map)
        if op in ("chain", "chain2"):
            start, scs, op2, rest = args[0], args[1], args[2], args[3:]
            target = {"p": P, "g": H, "G": groups[-1]}[start]
            for sc in scs.split("."):
                target = getattr(target, _attr_name(groups, sc))
            if op2 == "call":
                # a variable holding the values, read by calling the projector
                from openfisca_core.projectors import Projector
                ref = target.reference_entity if isinstance(target, Projector) else target      # (`members` is a population)
                name = {"person": "pv", "household": "gv", "family": "kv"}[ref.entity.key]
                sim.delete_arrays(name)
                sim.set_input(name, G.PERIOD, _np(rest[0], "float32"))
                return G.fmt_int_array(target(name, G.PERIOD))
            return G.fmt_int_array(_as_ints(_twice(lambda: _call(target, groups, op2, role, rest, dtype, pl), pl), dtype))
        target = P if op in PERSON_OPS else H
        r = _as_ints(_twice(lambda: _call(target, groups, op, role, args, dtype, pl), pl), dtype)
        return G.fmt_int_array(r) if op == "partner" else G.fmt_array(r)
    except _Aliased:
        return "ALIASED"
    except Exception:
        return "ERR"


# --------------------------------------------------------------------------------------
# oracle: the property statement, naively


class Silent(Exception):
    """the statement does not decide this input"""


def _members(c, g, match=None):
    return [i for i, (gi, ri) in enumerate(c["members"]) if gi == g and (match is None or ri in match)]


def _vals(tok, n):
    kind, v = G.parse_vals(tok)
    if len(v) != n:
        raise Silent
    return kind, v


def _ent(rtok: str) -> int:
    return 0 if rtok[0] in "tf" else 1


def _unique_member_map(c, rtok):
    """group -> the member holding the unique role (None if nobody); Silent when the role is not
    declared unique or is held twice in a group"""
    rtok = rtok.lower()
    if rtok in ("-", "?") or G.role_max(c["roles"], rtok) != 1:
        raise Silent
    match = G.role_matches(c["roles"], rtok)
    out = []
    for g in range(c["count"]):
        m = _members(c, g, match)
        if len(m) > 1:
            raise Silent
        out.append(m[0] if m else None)
    return out


def _valid_positions(c, pos):
    if len(pos) != len(c["members"]):
        return False
    for g in range(c["count"]):
        ms = _members(c, g)
        if sorted(pos[i] for i in ms) != list(range(len(ms))):
            return False
    return True


def naive(c, op, role, args):
    """expected list of the op applied per group / per person of the entity view `c`, as python
    numbers / bools"""
    n, count = len(c["members"]), c["count"]
    if role == "?":
        raise Silent
    role = role.lower()
    match = G.role_matches(c["roles"], role)
    groups = range(count)
    if op == "sum":
        _, a = _vals(args[0], n)
        return [sum(int(a[i]) for i in _members(c, g, match)) for g in groups]
    if op == "any":
        kind, a = _vals(args[0], n)
        if kind != "b" and any(v < 0 for v in a):
            raise Silent      # `any` is computed as sum > 0: stated for boolean (non-negative) arrays
        return [any(bool(a[i]) for i in _members(c, g, match)) for g in groups]
    if op == "all":
        _, a = _vals(args[0], n)
        return [all(bool(a[i]) for i in _members(c, g, match)) for g in groups]
    if op == "min":
        _, a = _vals(args[0], n)
        return [min([int(a[i]) for i in _members(c, g, match)], default=INF) for g in groups]
    if op == "max":
        _, a = _vals(args[0], n)
        return [max([int(a[i]) for i in _members(c, g, match)], default=-INF) for g in groups]
    if op == "nb":
        return [len(_members(c, g, match)) for g in groups]
    if op in ("nth", "first"):
        if op == "nth":
            k, d, vt = int(args[0]), int(args[1]), args[2]
        else:
            k, d, vt = 0, 0, args[0]
        kind, a = _vals(vt, n)
        d = bool(d) if kind == "b" else d
        return [a[_members(c, g)[k]] if len(_members(c, g)) > k else d for g in groups]
    if op in ("pnth", "pfirst"):
        # members_position assigned: the n-th member is the one whose assigned position is n
        _, pos = G.parse_vals(args[0])
        if not _valid_positions(c, pos):
            raise Silent
        if op == "pnth":
            k, d, vt = int(args[1]), int(args[2]), args[3]
        else:
            k, d, vt = 0, 0, args[1]
        kind, a = _vals(vt, n)
        d = bool(d) if kind == "b" else d
        out = []
        for g in groups:
            who = [i for i in _members(c, g) if pos[i] == k]
            out.append(a[who[0]] if who else d)
        return out
    if op == "from":
        kind, a = _vals(args[1], n)
        d = bool(int(args[0])) if kind == "b" else int(args[0])
        return [a[m] if m is not None else d for m in _unique_member_map(c, role)]
    if op == "hasrole":
        if match is None:
            raise Silent
        return [ri in match for _, ri in c["members"]]
    if op == "partner":
        # every holder of one of the two sub-roles gets the value of the holder of the other one
        if role[0] != "t":
            raise Silent
        top, _ = G.role_table(c["roles"])
        subs = top[int(role[1:])]["flat"]
        if len(subs) != 2 or G.parse_roles(c["roles"])[int(role[1:])][1] != 2:
            raise Silent
        _, a = _vals(args[0], n)
        holder = [_unique_member_map(c, f"f{s}") for s in subs]
        out = []
        for g, r in c["members"]:
            if r == subs[0]:
                m = holder[1][g]
            elif r == subs[1]:
                m = holder[0][g]
            else:
                out.append(0)
                continue
            out.append(int(a[m]) if m is not None else 0)
        return out
    if op == "project":
        kind, x = _vals(args[0], count)
        if match is None:
            return [x[g] for g, _ in c["members"]]
        return [int(x[g]) if r in match else 0 for g, r in c["members"]]
    if op == "rank":
        _, crit = _vals(args[0], n)
        _, cond = _vals(args[1], n)
        out = []
        for i, (gi, _) in enumerate(c["members"]):
            if not cond[i]:
                out.append(-1)
                continue
            peers = [j for j in _members(c, gi) if cond[j]]
            if any(crit[j] == crit[i] for j in peers if j != i):
                raise Silent          # ties: only permutation-consistency is stated
            out.append(sum(1 for j in peers if crit[j] < crit[i]))
        return out
    raise Silent


def _chain_steps(c, start, shortcuts):
    """the projectors an attribute chain resolves to (outermost first) and the level it ends on:
    "p" or the index of a group entity; Silent when the chain does not resolve"""
    nents = len(c["ents"])
    contain = {0: [1] if c["contain"] in ("c1", "c3") else [], 1: [0] if c["contain"] in ("c2", "c3") else []}
    cur = {"p": "p", "g": 0, "G": 1}[start]
    steps = []
    for sc in shortcuts.split("."):
        if sc == "mb":
            # `members` of a group population (also through a projector): the persons population itself, no projector
            if cur == "p":
                raise Silent
            steps, cur = [], "p"
        elif sc in ("h", "k"):
            e = 0 if sc == "h" else 1
            if e >= nents:
                raise Silent
            if cur == "p":
                steps.append(("to_person", e))
            elif e in contain[cur] and e != cur:
                # the key of a containing entity stands for first_person.<that entity>
                steps += [("first_person", cur), ("to_person", e)]
            else:
                raise Silent
            cur = e
        elif sc == "fp":
            if cur == "p":
                raise Silent
            steps.append(("first_person", cur))
            cur = "p"
        elif sc == "x":
            raise Silent
        else:
            if cur == "p" or _ent(sc) != cur or G.role_max(c["ents"][cur]["roles"], sc.lower()) != 1:
                raise Silent
            steps.append(("unique_role", cur, sc))
            cur = "p"
    return steps, cur


def _apply_step(c, step, v):
    """one projector, naively"""
    ev = c["ents"][step[1]]
    n, count = len(ev["members"]), ev["count"]
    if step[0] == "to_person":      # group -> every person gets the value of its group
        if len(v) != count:
            raise Silent
        return [v[g] for g, _ in ev["members"]]
    if len(v) != n:
        raise Silent
    if step[0] == "first_person":   # person -> group: value of the first member (0 when there is none)
        return [v[_members(ev, g)[0]] if _members(ev, g) else 0 for g in range(count)]
    return [v[m] if m is not None else 0 for m in _unique_member_map(ev, step[2])]


def _in_domain(c) -> bool:
    for ev in c["ents"]:
        n, count = len(ev["members"]), ev["count"]
        nflat = G.flat_count(ev["roles"])
        if not (n >= 1 and count >= 1 and all(0 <= g < count and 0 <= r < nflat for g, r in ev["members"])):
            return False
    return len({len(ev["members"]) for ev in c["ents"]}) == 1


def _txt(vals, as_int=False):
    out = []
    for v in vals:
        if isinstance(v, bool):
            out.append(("1" if v else "0") if as_int else ("T" if v else "F"))
        elif v == INF:
            out.append("inf")
        elif v == -INF:
            out.append("-inf")
        else:
            out.append(str(int(v)))
    return ",".join(out) if out else "[]"


def _trailing_empty(c) -> bool:
    return bool(c["members"]) and max(g for g, _ in c["members"]) + 1 < c["count"]


def _fail(c, op, out, want, what):
    short = out == "ERR" or (out != "[]" and len(out.split(",")) < len(want.split(",")))
    if _trailing_empty(c) and short:
        return (SIG_TRAILING, f"{op}: the last group(s) of the simulation have no member; expected {want} "
                              f"(one element per group), got {out}")
    return (f"{what}:{op}", f"{op} role={c['role']}: expected {want}, got {out}")


def _rank_consistent(c, out):
    """tied criteria: ranks of the persons satisfying the condition are a permutation of 0..k-1
    within each group, ordered like the criterion where it is strict, -1 outside"""
    n = len(c["members"])
    _, crit = _vals(c["args"][0], n)
    _, cond = _vals(c["args"][1], n)
    try:
        r = [int(x) for x in out.split(",")]
    except ValueError:
        return f"not a rank vector: {out}"
    if len(r) != n:
        return f"{len(r)} ranks for {n} persons"
    for g in range(c["count"]):
        ms = [i for i in _members(c, g) if cond[i]]
        if sorted(r[i] for i in ms) != list(range(len(ms))):
            return f"ranks in group {g} are {[r[i] for i in ms]}, not a permutation of 0..{len(ms) - 1}"
        for i in ms:
            for j in ms:
                if crit[i] < crit[j] and not r[i] < r[j]:
                    return f"persons {i},{j}: criteria {crit[i]} < {crit[j]} but ranks {r[i]}, {r[j]}"
    for i in range(n):
        if not cond[i] and r[i] != -1:
            return f"person {i} does not satisfy the condition but has rank {r[i]}"
    return None


def oracle(case: Case, out: str):
    c = split_line(case.line)
    op, role, args = c["op"], c["role"], c["args"]
    if out.startswith("MUTATED"):
        return ("argument-array-changed", f"{op} role={role}: the call overwrote (part of) an array it was given as argument; every "
                                          f"later use of that array by the caller sees other values (answer of the call itself: {out[8:]})")
    if not _in_domain(c) or op == "omap":
        return None
    n, count = len(c["members"]), c["count"]
    try:
        if op == "positions":
            want = _txt([sum(1 for j in range(i) if c["members"][j][0] == c["members"][i][0]) for i in range(n)])
        elif op == "project":
            if role == "?":
                return None
            want = _txt(naive(c, op, role, args), as_int=role != "-")
        elif op in ("chain", "chain2"):
            start, scs, op2, rest = args[0], args[1], args[2], args[3:]
            steps, cur = _chain_steps(c, start, scs)
            if op2 == "call":
                # the projector called with a variable: the variable's values seen through the chain
                size = n if cur == "p" else c["ents"][cur]["count"]
                _, v = _vals(rest[0], size)
            elif op2 in PERSON_OPS:
                if cur != "p":
                    raise Silent
                ev = c["ents"][0] if op2 != "hasrole" or role in "-?" else c["ents"][_ent(role)]
                v = naive(ev, op2, role, rest)
            else:
                if cur == "p" or (role not in "-?" and _ent(role) != cur):
                    raise Silent
                v = naive(c["ents"][cur], op2, role, rest)
            if op2 != "project":        # `project` is not projectable: returned as it is
                for st in reversed(steps):
                    v = _apply_step(c, st, v)
            want = _txt(v, as_int=True)
        elif op == "rank":
            try:
                want = _txt(naive(c, op, role, args))
            except Silent:
                _vals(args[0], n), _vals(args[1], n)
                if out == "ERR":
                    return _fail(c, op, out, "a rank vector", "error")
                msg = _rank_consistent(c, out)
                return (f"rank-consistency:{op}", msg) if msg else None
        else:
            want = _txt(naive(c, op, role, args), as_int=op == "partner")
    except Silent:
        return None
    if out != want:
        if op in GROUP_OPS and out != "ERR" and len(out.split(",")) != count:
            return _fail(c, op, out, want, "length")
        return _fail(c, op, out, want, "mismatch")
    return None


def nontrivial(case: Case, out: str) -> bool:
    c = split_line(case.line)
    return out != "ERR" and len(c["members"]) >= 2 and c["count"] >= 2


# --------------------------------------------------------------------------------------
# generators

ROLE_TABLES = [G.DEFAULT_ROLES, G.DEFAULT_ROLES, G.DEFAULT_ROLES, "1:0,-:0", "-:0", "-:3,1:0,-:0,2:0", "1:0,-:2"]


def _role_args(tok):
    top, flat = G.role_table(tok)
    return [f"t{k}" for k in range(len(top))] + [f"f{j}" for j in range(len(flat)) if len(top[flat[j]["top"]]["flat"]) > 1]


def _unique_roles(tok):
    return [r for r in _role_args(tok) if G.role_max(tok, r) == 1]


def random_population(rng: random.Random, small=False):
    """-> (roles token, count, members) — structured: layout, empty groups, role gaps"""
    tok = rng.choice(ROLE_TABLES)
    top, flat = G.role_table(tok)
    if small:
        n = rng.choice([1, 2, 2, 3, 3, 4, 5, 6])
        count = rng.choice([1, 2, 2, 3, 3, 4])
    else:
        n = rng.choice([1, 2, 3, 5, 8, 15, 16, 17, 18, 31, 32, 33, 39, 40, rng.randint(1, 40), rng.randint(1, 40), rng.randint(1, 12)])
        count = rng.choice([1, 2, 3, 4, 6, 11, 12, rng.randint(1, 12), rng.randint(1, 12)])
    # which groups have members
    shape = rng.choice(["all", "last-empty", "last-empty", "first-empty", "middle-empty", "random", "several-trailing", "one"])
    idx = list(range(count))
    if shape == "all" or count == 1:
        used = idx
    elif shape == "last-empty":
        used = idx[:-1]
    elif shape == "first-empty":
        used = idx[1:]
    elif shape == "middle-empty":
        used = [g for g in idx if g != count // 2] if count > 2 else idx[:1]
    elif shape == "several-trailing":
        used = idx[:max(1, count - rng.randint(1, count))]
    elif shape == "one":
        used = [rng.choice(idx)]
    else:
        used = rng.sample(idx, rng.randint(1, count))
    used = sorted(used)
    # assignment of persons to the used groups
    layout = rng.choice(["contiguous", "interleaved", "permuted", "random", "reverse"])
    if layout == "random":
        gids = [rng.choice(used) for _ in range(n)]
    else:
        # every used group gets someone when there are enough persons
        base = [used[i % len(used)] for i in range(n)]
        if rng.random() < 0.5:
            base = [used[min(len(used) - 1, int(rng.random() ** 2 * len(used)))] for _ in range(n)]
            for k, g in enumerate(used[:n]):
                base[k] = g
        if layout == "contiguous":
            gids = sorted(base)
        elif layout == "reverse":
            gids = sorted(base, reverse=True)
        elif layout == "interleaved":
            gids = [used[i % len(used)] for i in range(n)]
        else:
            gids = base[:]
            rng.shuffle(gids)
    # roles: unique roles at most once per group (mostly); some groups lack some roles
    nflat = len(flat)
    respect_max = rng.random() < 0.85
    absent = {g: set(rng.sample(range(nflat), rng.randint(0, max(0, nflat - 1)))) if rng.random() < 0.4 else set() for g in used}
    held: dict = {}
    members = []
    for g in gids:
        choices = [r for r in range(nflat) if r not in absent[g]] or list(range(nflat))
        r = rng.choice(choices)
        if respect_max and flat[r]["max"] is not None and held.get((g, r), 0) >= flat[r]["max"]:
            free = [q for q in range(nflat) if flat[q]["max"] is None]
            if free:
                r = rng.choice(free)
            else:
                # no unbounded role: keep uniqueness by reusing any role with room, else give up
                room = [q for q in range(nflat) if held.get((g, q), 0) < flat[q]["max"]]
                r = rng.choice(room) if room else r
        held[(g, r)] = held.get((g, r), 0) + 1
        members.append((g, r))
    return tok, count, members


def _ints(rng, n, lo=-40, hi=40):
    style = rng.random()
    if style < 0.15:
        return [rng.choice([-1, 0, 1]) for _ in range(n)]
    if style < 0.3:
        return [rng.randint(1, hi) for _ in range(n)]
    if style < 0.4 and lo < 0:
        return [rng.randint(lo, -1) for _ in range(n)]
    return [rng.randint(lo, hi) for _ in range(n)]


def _bools(rng, n):
    p = rng.choice([0.0, 0.2, 0.5, 0.8, 1.0, 0.5, 0.7])
    return [rng.random() < p for _ in range(n)]


def _case(tok, count, members, op, role, *args, claimed=True, tags=(), dtype="float64", pl=None):
    line = " ".join(["grp", tok, str(count), G.fmt_members(members), op, role, *map(str, args)])
    payload = {"dtype": dtype}
    if pl:
        payload.update(pl)
    return Case(line=line, payload=payload, claimed=claimed, tags=(op,) + tuple(tags))


def call_spellings(rng: random.Random, members):
    """how the adapter spells the call (the line, the model and the oracle do not depend on it; `twice`: the call is made
    twice, the first result being overwritten in place in between — the second answer must not change):
    role passed positionally / by keyword, Role looked up with get_role(key), default= omitted when
    it is 0, get_rank given the projector person.household instead of the population and no /
    scalar / array condition, the cloned simulation's populations, members_role left unset when
    everybody holds the first role"""
    base = {}
    if members and all(r == 0 for _, r in members) and rng.random() < 0.6:
        base["roles_unset"] = True
    if rng.random() < 0.1:
        base["clone"] = True

    def one():
        f = dict(base)
        for key in ("role_positional", "omit_default", "get_role"):
            if rng.random() < 0.35:
                f[key] = True
        if rng.random() < 0.4:
            f["rank_entity"] = "projector"
        if rng.random() < 0.2:
            f["twice"] = True
        r = rng.random()
        if r < 0.3:
            f["cond_default"] = True
        elif r < 0.5:
            f["cond_scalar"] = True
        return f
    return one


def random_positions(rng: random.Random, members):
    """assigned members_position: inside every group the positions 0..size-1 in a random order"""
    by_group: dict = {}
    for i, (g, _) in enumerate(members):
        by_group.setdefault(g, []).append(i)
    pos = [0] * len(members)
    for idx in by_group.values():
        perm = list(range(len(idx)))
        rng.shuffle(perm)
        for i, q in zip(idx, perm):
            pos[i] = q
    return pos


def second_entity(rng: random.Random, count, members):
    """a second group entity over the same persons: nested (every household inside one family) or
    arbitrary, with empty families; -> (roles2, count2, members2, contain flag)"""
    tok2 = rng.choice(ROLE_TABLES)
    top2, flat2 = G.role_table(tok2)
    count2 = rng.choice([1, 2, 2, 3, 4])
    used = rng.sample(range(count2), rng.randint(1, count2))
    if rng.random() < 0.6:
        fam_of = {g: rng.choice(used) for g in range(count)}
        fams = [fam_of[g] for g, _ in members]
    else:
        fams = [rng.choice(used) for _ in members]
    held: dict = {}
    members2 = []
    for f in fams:
        r = rng.randrange(len(flat2))
        if flat2[r]["max"] is not None and held.get((f, r), 0) >= flat2[r]["max"] and rng.random() < 0.85:
            free = [q for q in range(len(flat2)) if flat2[q]["max"] is None]
            r = rng.choice(free) if free else r
        held[(f, r)] = held.get((f, r), 0) + 1
        members2.append((f, r))
    return tok2, count2, members2, rng.choice(["c1", "c1", "c1", "c3", "c2", "c0"])


def _shape_tags(count, members):
    gs = {g for g, _ in members}
    tags = []
    if members and max(gs) + 1 < count:
        tags.append("trailing-empty")
    if members and min(gs) > 0:
        tags.append("leading-empty")
    if any(g not in gs for g in range(min(gs), max(gs))) if members else False:
        tags.append("middle-empty")
    gl = [g for g, _ in members]
    tags.append("contiguous" if gl == sorted(gl) else "non-contiguous")
    return tags


def cases_for(rng: random.Random, tok, count, members, full=False):
    """all operations on one population, with and without role"""
    n = len(members)
    I = lambda v: G.fmt_vals("i", v)
    B = lambda v: G.fmt_vals("b", v)
    st = tuple(_shape_tags(count, members))
    dt = lambda: rng.choice(DTYPES)
    spell = call_spellings(rng, members)
    def mk(op, role, *args, claimed=True, tags=()):
        pl = spell()
        return _case(tok, count, members, op, role, *args, claimed=claimed, dtype=dt(), pl=pl,
                     tags=st + (("role",) if role != "-" else ("no-role",)) + tuple(tags) + tuple(sorted(k for k in pl)))
    ra = _role_args(tok)
    roles = ["-"] + (ra if full else rng.sample(ra, min(len(ra), 2)))
    out = [mk("positions", "-")]
    a, b = _ints(rng, n), _bools(rng, n)
    for r in roles:
        if not full:
            a, b = _ints(rng, n), _bools(rng, n)
        out += [mk("sum", r, I(a)), mk("any", r, B(b)), mk("all", r, B(b)), mk("min", r, I(a)),
                mk("max", r, I(a)), mk("nb", r)]
    out.append(mk("sum", rng.choice(roles), B(b)))
    sizes = {}
    for g, _ in members:
        sizes[g] = sizes.get(g, 0) + 1
    biggest = max(sizes.values()) if sizes else 0
    ks = {0, 1, max(0, biggest - 1), biggest} if full else {rng.choice([0, 1, 2]), rng.choice([max(0, biggest - 1), biggest, rng.randint(0, biggest + 1)])}
    for k in sorted(ks):
        out.append(mk("nth", "-", k, rng.choice([0, -7, 99]), I(a)))
    out.append(mk("nth", "-", rng.choice([0, 1]), rng.choice([0, 1]), B(b)))
    out.append(mk("first", "-", I(a)))
    out.append(mk("first", "-", B(b)))
    uniq = _unique_roles(tok)
    for r in (uniq if full else rng.sample(uniq, min(len(uniq), 2))):
        out.append(mk("from", r, rng.choice([0, -3]), I(a)))
        out.append(mk("from", r, 0, B(b)))
    for r in ra:
        if r not in uniq and (full or rng.random() < 0.3):
            out.append(mk("from", r, 0, I(a)))          # role not unique: refused
    x = _ints(rng, count, 0, 90)
    xb = _bools(rng, count)
    out.append(mk("project", "-", I(x)))
    out.append(mk("project", "-", B(xb)))
    for r in (ra if full else rng.sample(ra, min(len(ra), 1))):
        out.append(mk("project", r, I(x)))
        out.append(mk("project", r, B(xb)))
        out.append(mk("hasrole", r))
    # enum arrays (EnumArray is re-wrapped by value_nth_person / value_from_person)
    ev = [rng.randint(0, 7) for _ in range(n)]
    out.append(_case(tok, count, members, "nth", "-", rng.choice([0, 1]), rng.randint(0, 7), I(ev), tags=st + ("enum-array",), dtype="enum"))
    out.append(_case(tok, count, members, "first", "-", I(ev), tags=st + ("enum-array",), dtype="enum"))
    for r in uniq[:1]:
        out.append(_case(tok, count, members, "from", r, rng.randint(0, 7), I(ev), tags=st + ("enum-array",), dtype="enum"))
    out.append(_case(tok, count, members, "project", rng.choice(["-"] + ra), I([rng.randint(0, 7) for _ in range(count)]),
                     tags=st + ("enum-array",), dtype="enum"))
    # ranks: distinct criteria (binding), ties (permutation-consistency only)
    crit = rng.sample(range(-60, 61), n)
    cond = _bools(rng, n)
    out.append(mk("rank", "-", I(crit), B([True] * n)))
    out.append(mk("rank", "-", I(crit), B(cond)))
    tied = [rng.randint(0, 3) for _ in range(n)]
    out.append(mk("rank", "-", I(tied), B(cond), claimed=False, tags=("ties",)))
    out.append(mk("omap", "-", claimed=False))
    # projector chains
    r0 = rng.choice(roles)
    out.append(mk("chain", r0, "p", "h", "sum", I(a)))
    out.append(mk("chain", r0, "p", "h", rng.choice(["min", "max"]), I(a)))
    out.append(mk("chain", r0, "p", "h", rng.choice(["any", "all"]), B(b)))
    out.append(mk("chain", r0, "p", "h", "nb"))
    out.append(mk("chain", "-", "p", "h", "first", I(a)))
    out.append(mk("chain", "-", "p", "h", "nth", 1, -7, I(a)))
    out.append(mk("chain", r0, "g", "fp.h", "sum", I(a)))
    out.append(mk("chain", "-", "g", "fp", "rank", I(crit), B(cond)))
    if ra:
        out.append(mk("chain", rng.choice(ra), "g", "fp", "hasrole"))
        out.append(mk("chain", rng.choice(ra), "p", "h.fp", "hasrole"))
    for r in (uniq if full else uniq[:1]):
        out.append(mk("chain", r0, "g", r + ".h", "sum", I(a)))
        out.append(mk("chain", "-", "p", "h." + r, "rank", I(crit), B(cond)))
        out.append(mk("chain", r, "p", "h", "from", 0, I(a)))
        if ra:
            out.append(mk("chain", rng.choice(ra), "g", r, "hasrole"))
        out.append(mk("chain", r0, "p", "h." + r + ".h", "sum", I(a)))
    out.append(mk("chain", r0, "p", "h.fp.h", "max", I(a)))
    # every aggregation on the other input dtypes: any / all on integers, min / max on booleans
    r1 = rng.choice(roles)
    nonneg = [rng.choice([0, 0, 1, 2, 5]) for _ in range(n)]
    zeros = [rng.choice([0, 1, -1, 3, -2]) for _ in range(n)]
    out += [mk("any", r1, I(nonneg), tags=("any-int",)), mk("any", r1, I(zeros), tags=("any-int-signed",)),
            mk("all", r1, I(zeros), tags=("all-int",)), mk("all", rng.choice(roles), I(nonneg), tags=("all-int",)),
            mk("min", r1, B(b), tags=("min-bool",)), mk("max", r1, B(b), tags=("max-bool",))]
    # partner: roles with exactly two sub-roles (others are refused)
    two = [f"t{k}" for k, (_, ns) in enumerate(G.parse_roles(tok)) if ns == 2]
    for r in two:
        out.append(mk("partner", r, I(a)))
        out.append(mk("partner", r, B(b)))
    others = [r for r in ra if r not in two]
    if others and (full or rng.random() < 0.3):
        out.append(mk("partner", rng.choice(others), I(a)))
    # members_position assigned (not the order of appearance)
    if n:
        pos = random_positions(rng, members)
        for k in sorted({0, max(0, biggest - 1), biggest} if full else {rng.choice([0, 1]), rng.choice([max(0, biggest - 1), biggest])}):
            out.append(mk("pnth", "-", I(pos), k, rng.choice([0, -7]), I(a)))
        out.append(mk("pnth", "-", I(pos), rng.choice([0, 1]), rng.choice([0, 1]), B(b)))
        out.append(mk("pfirst", "-", I(pos), I(a)))
    # attributes that are not projectable come back untransformed; projectors can be called
    out.append(mk("chain", rng.choice(roles), "p", "h", "project", I(x)))
    out.append(mk("chain", "-", "p", "h", "call", I(x)))
    out.append(mk("chain", "-", "g", "fp", "call", I(a)))
    out.append(mk("chain", "-", "p", "h.fp", "call", I(a)))
    out.append(mk("chain", "-", "g", "fp.h", "call", I(x)))
    for r in uniq[:1]:
        out.append(mk("chain", "-", "g", r, "call", I(a)))
        out.append(mk("chain", "-", "p", "h." + r + ".h", "call", I(x)))
    # role-restricted aggregates only look at the holders of the role: everybody else holds nan / inf / huge values
    for r in [x for x in roles if x != "-"][:2]:
        nn = [rng.randint(0, 9) for _ in range(n)]
        picks = [("sum", I(a)), ("min", I(a)), ("max", I(a)), ("any", I(nn)), ("all", I(nn)), ("sum", I(nn))]
        if r in uniq:
            picks.append(("from", rng.choice([0, -3]), I(a)))
        for pk in rng.sample(picks, 2):
            plx = spell()
            plx["poison"] = rng.choice(["nan", "nan", "inf", "-inf", "huge", "-huge"])
            out.append(_case(tok, count, members, pk[0], r, *pk[1:], dtype=rng.choice(["float64", "float64", "float32"]), pl=plx,
                             tags=st + ("role", "non-holders-" + plx["poison"])))
        if rng.random() < 0.3:
            plx = spell()
            plx["poison"] = rng.choice(["nan", "inf"])
            out.append(_case(tok, count, members, "chain", r, "p", "h", rng.choice(["sum", "max"]), I(a), dtype="float64", pl=plx,
                             tags=st + ("role", "non-holders-" + plx["poison"])))
    # a wide range of magnitudes ACROSS groups, a narrow one within each: one member of one group holds +-2**53 (or 2**40, 2**52 + 2**30),
    # its fellow members 0, everybody else small integers: every per-group sum is exact in float64, a running total over groups is not
    if n >= 2 and (full or rng.random() < 0.35):
        big_i = rng.randrange(n)
        gb = members[big_i][0]
        wide = [0 if members[i][0] == gb else rng.choice([1, -1, 3, 2, -3, 5, 7]) for i in range(n)]
        wide[big_i] = rng.choice([1, -1]) * rng.choice([2 ** 53, 2 ** 53, 2 ** 52 + 2 ** 30, 2 ** 40, 2 ** 50 + 2])
        for r in ["-"] + [x for x in roles if x != "-"][:1]:
            out.append(_case(tok, count, members, "sum", r, I(wide), dtype=rng.choice(["float64", "float64", "int64"]), pl=spell(),
                             tags=st + ("wide-range-across-groups",)))
        out.append(_case(tok, count, members, "chain", "-", "p", "h", "sum", I(wide), dtype="float64", pl=spell(),
                         tags=st + ("wide-range-across-groups",)))
    # `members`: the persons population held by a group population, also reached through projectors (which it drops)
    out.append(mk("chain", r0, "p", "h.mb.h", *rng.choice([("sum", I(a)), ("max", I(a)), ("nb",)]), tags=("members",)))
    out.append(mk("chain", rng.choice(ra) if ra else "-", "g", rng.choice(["mb", "fp.h.mb"]), "hasrole" if ra else "rank", *(() if ra else (I(crit), B(cond))),
                  tags=("members",)))
    if full or rng.random() < 0.4:
        out.append(mk("chain", "-", "g", "mb", "rank", I(crit), B(cond), tags=("members",)))
        out.append(mk("chain", "-", "g", "mb.h", "call", I(x), tags=("members",)))
        out.append(mk("chain", "-", "g", "mb", "call", I(a), tags=("members",)))
        out.append(mk("chain", "-", "p", rng.choice(["mb", "h.fp.mb", "mb.h"]), "sum", I(a), tags=("members", "malformed")))
    # str and date arrays: the operations that move values without computing on them
    for dtx in (("str", "date") if full else (rng.choice(["str", "date"]),)):
        sa = [rng.randint(-99, 999) for _ in range(n)]
        sx = [rng.randint(0, 999) for _ in range(count)]
        mkx = lambda op, role, *args: _case(tok, count, members, op, role, *args, tags=st + (dtx + "-array",), dtype=dtx, pl=spell())
        out.append(mkx("nth", "-", rng.choice([0, 1, biggest]), rng.choice([0, -7, 99]), I(sa)))
        out.append(mkx(*rng.choice([("first", "-", I(sa)), ("project", "-", I(sx)), ("chain", "-", "p", "h", "first", I(sa)),
                                    ("chain", "-", "g", "fp.h", "project", I(sx))])))
        for r in uniq[:1]:
            out.append(mkx("from", r, rng.choice([0, 5]), I(sa)))
        if n and dtx == "str" and ra:
            out.append(mkx("project", rng.choice(ra), I(sx)))
    # a second group entity, the `containing_entities` shortcut, chains of 3..5 projectors
    if n and (full or rng.random() < 0.5):
        out += chain2_cases(rng, tok, count, members, a, b, x, spell, st)
    return out


def chain2_cases(rng, tok, count, members, a, b, x, spell, st):
    n = len(members)
    I = lambda v: G.fmt_vals("i", v)
    B = lambda v: G.fmt_vals("b", v)
    tok2, count2, members2, ct = second_entity(rng, count, members)
    y = _ints(rng, count2, 0, 90)

    def mk2(role, start, scs, op2, *args, tags=()):
        return _case(tok, count, members, "chain2", role, tok2, count2, G.fmt_members(members2), ct, start, scs, op2,
                     *args, dtype=rng.choice(DTYPES), pl=spell(), tags=st + ("contain-" + ct,) + tuple(tags))
    ra2 = [r.upper() for r in _role_args(tok2)]
    uniq2 = [r.upper() for r in _unique_roles(tok2)]
    uniq = _unique_roles(tok)
    out = [mk2("-", "p", "k", "sum", I(a)), mk2(rng.choice(["-"] + ra2), "p", "k", rng.choice(["sum", "max", "nb"]), I(a)) if True else None]
    out[1] = mk2(rng.choice(["-"] + ra2), "p", "k", "sum", I(a))
    out += [
        mk2("-", "g", "k", "sum", I(a), tags=("containing",)),                     # household.family.sum
        mk2(rng.choice(["-"] + ra2), "g", "k", rng.choice(["min", "max"]), I(a), tags=("containing",)),
        mk2("-", "g", "k", "call", I(y), tags=("containing",)),                    # household.family("kv")
        mk2("-", "g", "k", "project", I(y), tags=("containing",)),                 # not projectable
        mk2("-", "p", "h.k", "sum", I(a), tags=("containing", "chain3")),
        mk2("-", "p", "h.k.fp.h", "nb", tags=("containing", "chain5")),
        mk2("-", "p", "k.fp.h.k", "sum", I(a), tags=("containing", "chain5")),
        mk2("-", "G", "fp.h.k", "max", I(a), tags=("containing", "chain4")),
        mk2("-", "G", "h", "sum", I(a), tags=("containing-converse",)),           # family.household
        mk2("-", "G", "h.k", "call", I(y), tags=("containing-converse",)),
        mk2("-", "p", "k.fp", "call", I(a), tags=("chain2",)),
        mk2("-", "G", "fp.h.fp.k", "call", I(y), tags=("chain4",)),
        mk2("-", "p", "h.fp.k.fp.h", "sum", I(a), tags=("chain5",)),
    ]
    if ra2:
        out.append(mk2(rng.choice(ra2), "G", "fp", "hasrole"))
        out.append(mk2(rng.choice(ra2), "g", "fp.k", "nb"))
    for r in uniq2[:1]:
        out.append(mk2("-", "G", r + ".k", "sum", I(a)))
        out.append(mk2("-", "g", "k." + r + ".h", "sum", I(a), tags=("containing",)))
        out.append(mk2(r, "p", "k", "from", 0, I(a)))
    for r in uniq[:1]:
        out.append(mk2("-", "G", "fp.h." + r + ".k", "sum", I(a), tags=("chain4",)))
    return out


# --------------------------------------------------------------------------------------
# ranks with large criteria: leaves the small lattice on purpose.  get_rank only COMPARES the
# criteria (numpy.where(condition, criteria, inf) -> float64, then argsort), and int32, int64
# with |v| <= 2**53 and integer-valued float64 convert to float64 exactly; float32 inputs are
# generated among the integers float32 represents.  So every comparison is exact, the model's
# Int criteria are the array's values, and the oracle (number of members of the group satisfying
# the condition with a strictly smaller criterion) is binding.

BIG_DTYPES = ("int32", "int64", "float64", "float32")
_BIG_BASES = {
    # adjacent integers above 2**24: dates coded YYYYMMDD, amounts in cents, powers of two, extremes
    "int32": [2 ** 24, 2 ** 24 + 1, 20160101, 19991230, 2_000_000_000, 2 ** 31 - 6, 2 ** 30, 33554432, 123456789],
    "int64": [2 ** 24, 20160101, 2_000_000_000, 2 ** 31 - 2, 2 ** 32, 2 ** 40 + 1, 10 ** 15, 2 ** 53 - 6, 2 ** 52],
    "float64": [2 ** 24, 20160101, 2_000_000_000, 2 ** 31, 2 ** 40, 10 ** 15 + 1, 2 ** 53 - 6, 2 ** 52 - 1],
}


def _f32_exact(v: int) -> bool:
    import struct
    try:
        return struct.unpack("f", struct.pack("f", float(v)))[0] == v
    except OverflowError:
        return False


def big_criteria(rng: random.Random, dtype: str, members, larger_first: bool):
    """distinct integer criteria, per group a cluster of neighbours above 2**24 (adjacent integers
    for int32/int64/float64; adjacent float32 values for float32), negative clusters, and a few small
    values mixed in; within each group the larger values are stored first when `larger_first`."""
    by_group: dict = {}
    for i, (g, _) in enumerate(members):
        by_group.setdefault(g, []).append(i)
    crit = [0] * len(members)
    for g, idx in by_group.items():
        k = len(idx)
        sign = -1 if rng.random() < 0.35 else 1
        if dtype == "float32":
            e = rng.choice([1, 1, 2, 3, 7, 16, 40])                    # spacing 2**e, |v| in [2**(23+e), 2**(24+e))
            m0 = rng.randint(2 ** 23, 2 ** 24 - 1 - k)
            vals = [sign * (m0 + j) * 2 ** e for j in range(k)]        # 1 ulp (float32) apart
        else:
            limit = 2 ** 31 - 1 if dtype == "int32" else 2 ** 53
            base = rng.choice(_BIG_BASES[dtype])
            step = rng.choice([1, 1, 1, 1, 2, 3])
            lo = base - rng.randint(0, k) * step
            if lo <= 2 ** 24 - 1:
                lo = base
            lo = min(lo, limit - (k - 1) * step)                       # the cluster may end on the dtype's maximum
            vals = [sign * (lo + j * step) for j in range(k)]          # adjacent integers
        # a mixture with small values (exact in every dtype), kept distinct
        small = set()
        for j in range(k):
            if rng.random() < 0.2:
                v = rng.randint(-50, 50)
                while v in small:
                    v += 1
                small.add(v)
                vals[j] = v
        assert len(set(vals)) == k
        if dtype == "float32":
            assert all(_f32_exact(v) for v in vals)
        elif dtype == "int32":
            assert all(-2 ** 31 <= v < 2 ** 31 for v in vals)
        else:
            assert all(abs(v) <= 2 ** 53 for v in vals)
        if larger_first:
            vals.sort(reverse=True)
        else:
            rng.shuffle(vals)
        for i, v in zip(idx, vals):
            crit[i] = v
    return crit


def small_group_population(rng: random.Random):
    """1..5 groups of 2..5 members (plus, sometimes, a group of one and empty groups), stored
    contiguously, interleaved or shuffled"""
    tok = rng.choice(ROLE_TABLES)
    nflat = G.flat_count(tok)
    ngroups = rng.choice([1, 2, 2, 3, 4, 5])
    empty = rng.choice([0, 0, 1, 2])
    count = ngroups + empty
    used = sorted(rng.sample(range(count), ngroups))
    gids = []
    for g in used:
        gids += [g] * rng.choice([2, 2, 3, 3, 4, 5, 1])
    layout = rng.choice(["contiguous", "interleaved", "shuffled"])
    if layout == "interleaved":
        pools = {g: gids.count(g) for g in used}
        gids = []
        while any(pools.values()):
            for g in used:
                if pools[g]:
                    gids.append(g)
                    pools[g] -= 1
    elif layout == "shuffled":
        rng.shuffle(gids)
    return tok, count, [(g, rng.randrange(nflat)) for g in gids]


def big_rank_cases(rng: random.Random, tok, count, members, dtypes=BIG_DTYPES):
    """get_rank with large criteria of every dtype, with and without condition"""
    n = len(members)
    out = []
    st = tuple(_shape_tags(count, members))
    for dtype in dtypes:
        larger_first = rng.random() < 0.5
        crit = big_criteria(rng, dtype, members, larger_first)
        tags = st + ("rank-large", "crit-" + dtype, "larger-first" if larger_first else "any-order")
        conds = [[True] * n, [rng.random() < 0.7 for _ in range(n)]]
        for cond in conds:
            out.append(_case(tok, count, members, "rank", "-", G.fmt_vals("i", crit), G.fmt_vals("b", cond),
                             tags=tags, dtype=dtype))
        if rng.random() < 0.25:
            out.append(_case(tok, count, members, "chain", "-", "g", "fp", "rank", G.fmt_vals("i", crit),
                             G.fmt_vals("b", conds[1]), tags=tags, dtype=dtype))
    return out


def malformed_for(rng: random.Random, tok, count, members):
    """invalid requests: wrong array sizes, non-Role role arguments, chains that do not resolve,
    group indices outside the simulation"""
    n = len(members)
    I = lambda v: G.fmt_vals("i", v)
    B = lambda v: G.fmt_vals("b", v)
    mk = lambda op, role, *args, **kw: _case(tok, count, members, op, role, *args, tags=("malformed",), **kw)
    a = _ints(rng, n + rng.choice([-1, 1, 2]))
    out = [mk(rng.choice(["sum", "min", "max"]), "-", I(a)), mk("first", "-", I(a)), mk("nth", "-", 0, 0, I(a)),
           mk("project", "-", I(_ints(rng, count + rng.choice([-1, 1])))),
           mk("sum", "?", I(_ints(rng, n))), mk("nb", "?"), mk("project", "?", I(_ints(rng, count))),
           mk("hasrole", "?"), mk("all", "?", B(_bools(rng, n))),
           mk("chain", "-", "p", "x", "sum", I(_ints(rng, n))), mk("chain", "-", "p", "fp", "sum", I(_ints(rng, n))),
           mk("chain", "-", "g", "h", "sum", I(_ints(rng, n))), mk("chain", "-", "g", "x", "rank", I(_ints(rng, n)), B(_bools(rng, n))),
           mk("rank", "-", I(_ints(rng, n)), B(_bools(rng, n + 1)))]
    ra = [r for r in _role_args(tok) if r not in _unique_roles(tok)]
    if ra:
        out.append(mk("chain", "-", "g", ra[0] + ".h", "sum", I(_ints(rng, n))))
    # assigned positions that are no per-group permutation, or too short; a variable given an array of
    # the wrong size; the key of an entity that is not declared as containing
    if members:
        out += [mk("pnth", "-", I([0] * n), 0, 0, I(_ints(rng, n))), mk("pfirst", "-", I([0] * max(0, n - 1)), I(_ints(rng, n))),
                mk("pnth", "-", I(list(range(n))), 1, -7, I(_ints(rng, n))),
                mk("chain", "-", "p", "h", "call", I(_ints(rng, count + 1))), mk("chain", "-", "g", "fp", "call", I(_ints(rng, n + 1)))]
        tok2, count2, members2, _ = second_entity(rng, count, members)
        for ct, start, scs in (("c0", "g", "k"), ("c2", "g", "k"), ("c1", "G", "h"), ("c1", "p", "k.h"), ("c3", "g", "k.x")):
            out.append(_case(tok, count, members, "chain2", "-", tok2, count2, G.fmt_members(members2), ct, start, scs, "sum",
                             I(_ints(rng, n)), tags=("malformed", "contain-" + ct)))
    # a member of a group the simulation does not have
    if members:
        bad = list(members)
        bad[rng.randrange(n)] = (count + rng.randint(0, 2), bad[0][1])
        v = _ints(rng, n)
        for op, args in (("sum", (I(v),)), ("nb", ()), ("min", (I(v),)), ("first", (I(v),)), ("project", (I(_ints(rng, count)),))):
            out.append(_case(tok, count, bad, op, "-", *args, tags=("malformed", "group-out-of-range")))
    # nobody at all
    out += [_case(tok, count, [], op, "-", *args, tags=("malformed", "no-person"))
            for op, args in (("sum", ("i:",)), ("nb", ()), ("min", ("i:",)), ("all", ("b:",)), ("first", ("i:",)),
                             ("positions", ()), ("project", (I(_ints(rng, count)),)), ("rank", ("i:", "b:")))]
    return out


def generate(rng: random.Random, tier: str):
    npop = 7000 if tier == "quick" else 54000
    out = []
    for k in range(npop):
        tok, count, members = random_population(rng, small=(k % 5 == 0))
        out += cases_for(rng, tok, count, members)
        if members:
            out += big_rank_cases(rng, tok, count, members, dtypes=(rng.choice(BIG_DTYPES[:3]),))
        if k % 4 == 0:
            out += big_rank_cases(rng, *small_group_population(rng))
        if k % 10 == 0:
            out += malformed_for(rng, tok, count, members)
    return out


def enumerate_thorough():
    """every membership map of 1..5 persons into 1..3 groups with 2 roles (one unique, one not)"""
    tok = "1:0,-:0"
    rng = random.Random(10)
    out = []
    for count in (1, 2, 3):
        slots = [(g, r) for g in range(count) for r in (0, 1)]
        for n in range(1, 6):
            for members in itertools.product(slots, repeat=n):
                out += enum_cases(rng, tok, count, list(members))
    return out


def enum_cases(rng, tok, count, members):
    n = len(members)
    I = lambda v: G.fmt_vals("i", v)
    B = lambda v: G.fmt_vals("b", v)
    mk = lambda op, role, *args: _case(tok, count, members, op, role, *args, tags=("enum",))
    a = [rng.randint(-9, 9) for _ in range(n)]
    b = [rng.random() < 0.5 for _ in range(n)]
    crit = rng.sample(range(-9, 10), n)
    cond = [rng.random() < 0.7 for _ in range(n)]
    out = [mk("positions", "-")]
    for r in ("-", "t0", "t1"):
        out += [mk("sum", r, I(a)), mk("any", r, B(b)), mk("all", r, B(b)), mk("min", r, I(a)), mk("max", r, I(a)), mk("nb", r)]
    out += [mk("nth", "-", 0, -7, I(a)), mk("nth", "-", 1, -7, I(a)), mk("nth", "-", 2, 0, I(a)), mk("first", "-", I(a)),
            mk("from", "t0", -3, I(a)), mk("project", "-", I(list(range(10, 10 * count + 1, 10)))),
            mk("project", "t1", I(list(range(10, 10 * count + 1, 10)))),
            mk("rank", "-", I(crit), B(cond)), mk("chain", "-", "p", "h", "sum", I(a)),
            mk("chain", "-", "g", "fp.h", "max", I(a)), mk("chain", "-", "p", "h.t0", "rank", I(crit), B(cond))]
    return out


def corpus():
    """F-C10: the last group of the simulation has no member (3 persons, groups h1 and h2, everybody in
    h1) — every group-level operation, then a few interleaved / permuted fixtures."""
    rng = random.Random(10)
    tok = G.DEFAULT_ROLES
    out = []
    fixtures = [
        (2, [(0, 0), (0, 2), (0, 2)]),                                   # F-C10 minimal
        (4, [(1, 0), (1, 2), (0, 3)]),                                   # two trailing empty groups
        (3, [(2, 2), (0, 0), (2, 3), (0, 1), (2, 2), (0, 2)]),           # interleaved, middle group empty
        (2, [(0, 0), (0, 1), (0, 2), (1, 0), (1, 2), (1, 2)]),           # the test-suite fixture shape
        (3, [(1, 2), (2, 2), (0, 2), (1, 3), (2, 0), (0, 0), (1, 1)]),   # permuted
    ]
    for count, members in fixtures:
        out += cases_for(rng, tok, count, members, full=True)
    out += malformed_for(rng, tok, 2, fixtures[0][1])
    # ranks must follow criteria that only differ beyond float32 precision (larger value stored first)
    pair = [(0, 0), (0, 2)]
    seven = [(0, 0), (1, 0), (0, 2), (1, 1), (1, 2), (0, 2), (1, 2)]
    for dtype, crits in (("int32", [[16777217, 16777216], [20160105, 20160104], [2000000001, 2000000000], [-16777216, -16777217]]),
                         ("int64", [[16777217, 16777216], [9007199254740991, 9007199254740990], [1099511627777, 1099511627776]]),
                         ("float64", [[16777217, 16777216], [-2000000000, -2000000001], [4503599627370497, 4503599627370496]]),
                         ("float32", [[16777218, 16777216], [-33554432, -33554436]])):
        for cr in crits:
            out.append(_case(tok, 2, pair, "rank", "-", G.fmt_vals("i", cr), "b:TT", tags=("rank-large", "crit-" + dtype), dtype=dtype))
    out.append(_case(tok, 2, seven, "rank", "-", "i:2000000001,16777217,2000000000,16777216,20160105,1999999999,20160104",
                     "b:TTTTTTT", tags=("rank-large", "crit-int32"), dtype="int32"))
    out.append(_case(tok, 2, seven, "rank", "-", "i:2000000001,16777217,2000000000,16777216,20160105,1999999999,20160104",
                     "b:FFTFTTT", tags=("rank-large", "crit-int32"), dtype="int32"))
    for k in range(6):
        out += big_rank_cases(rng, *small_group_population(rng))
    return out


def neighbours(case: Case):
    c = split_line(case.line)
    rng = random.Random(7)
    tok, count, members = c["roles"], c["count"], c["members"]
    out = []
    variants = [(count, members), (count + 1, members)]
    if len(members) > 1:
        variants += [(count, members[:-1]), (count, members[1:]), (count, members[::-1])]
    if count > 1:
        variants.append((count - 1, [(min(g, count - 2), r) for g, r in members]))
    for cnt, ms in variants:
        out += cases_for(rng, tok, cnt, ms)
        if ms:
            out += big_rank_cases(rng, tok, cnt, ms)
    return out


PROP = Prop(
    pid="C10",
    lean_targets=["OFCore.Props.C10"],
    driver="ofdrv_grp",
    generate=generate, impl=impl, oracle=oracle, nontrivial=nontrivial,
    corpus=corpus, enumerate_thorough=enumerate_thorough, neighbours=neighbours,
    extra_lean_files=["OFCore/Group.lean", "OFCore/Lemmas/Group.lean"],
    rule=("lines `grp <roles> <count> <members> <op> <role> <args>`: populations of 1..40 persons (sizes drawn from "
          "{1,2,3,5,8,15..18,31..33,39,40} and uniformly) in 1..12 groups, seven role tables (sub-roles, max=1, max=2, no "
          "max), groups without member first / middle / last / several trailing / random, storage order contiguous / "
          "reverse / interleaved / permuted / random, unique roles held at most once per group in 85% of the populations, "
          "roles absent from 40% of the groups; per population: positions, sum/any/all/min/max/nb_persons without role "
          "and with two role arguments, value_nth_person at 0/1/last/beyond, first person, value_from_person for unique "
          "and non-unique roles, project with and without role (integer and boolean arrays, dtypes float64/float32/"
          "int64/int32), has_role, get_rank with distinct criteria (binding) and tied criteria (permutation-consistency "
          "only), 15 projector chains; role-restricted sum / min / max / any / all / value_from_person on float arrays in which every person "
          "NOT holding the role carries nan, +inf, -inf or +-2**80 (the line, the model and the oracle keep the original values: the "
          "aggregate is of the holders only); sums (float64 / int64) with a wide range of magnitudes ACROSS groups and a narrow one within "
          "(one member holds +-2**53 / 2**40, its fellow members 0, everybody else small integers: each per-group sum is exact, a running "
          "total over the groups would not be); chains through `members` (group.members, person.group.members...: the persons population, "
          "projectors dropped); value_nth_person / first person / value_from_person / project on str arrays (decimal texts) and "
          "datetime64[D] arrays; any / all on integer arrays and min / max on boolean arrays; value_from_partner for "
          "every role with exactly two sub-roles (others refused); value_nth_person / value_from_first_person after "
          "members_position has been ASSIGNED to a random permutation inside each group; attributes that are not "
          "projectable (project) and CALLED projectors (a variable per entity, set_input + projector(name, period)) at the "
          "end of chains; on every 2nd population a SECOND group entity over the same persons (nested or arbitrary, own role "
          "table, containing_entities declared one way, the other, both or not) with 20 chains of 1..5 projectors through "
          "the containing-entity shortcut; the adapter spells each call at random (role positional / keyword, Role via "
          "get_role(key), default= omitted when 0, get_rank given person.household or the population with no / scalar / "
          "array condition, populations of the CLONED simulation in 10% of the populations, members_role left unset when "
          "everybody holds the first role); the RANK STREAM LEAVES THE SMALL LATTICE ON PURPOSE: on every population one get_rank "
          "line, and on every 4th a population of 1..5 groups of 2..5 members with get_rank for each criterion dtype the API "
          "accepts (int32, int64, float64, float32), with and without condition, whose criteria are per-group clusters of "
          "adjacent integers above 2**24 (dates coded YYYYMMDD, cents around 2e9, 2**24, 2**31-1, 2**40, 10**15, 2**53-6; "
          "adjacent float32 values m*2**e for float32), negative clusters and mixtures with small values, the larger value "
          "stored first in half of the cases; this is exact because get_rank only compares the criteria after "
          "numpy.where(condition, criteria, inf) converts them to float64, which is exact for int32, for int64/float64 "
          "integers up to 2**53 and for float32 values, so the model's Int criteria are the array's values and the oracle "
          "(rank = number of members of the group satisfying the condition with a strictly smaller criterion) is binding; "
          "every 10th population adds a malformed stream (wrong sizes, non-Role roles, "
          "unresolvable chains, group index outside the simulation, zero persons). Non-trivial: >= 2 persons, >= 2 "
          "groups and a value (not an error); distinct = distinct protocol lines."),
    assumptions=[
        "str arrays are decimal texts of width <= 8 and date arrays datetime64[D] given as days since the epoch: the operations that move values (value_nth_person, first person, value_from_person, project) are compared on them through the integers they denote",
        "numpy primitives (bincount, argsort, boolean-mask read/write, integer indexing, where, minimum/maximum/logical_and) are modelled as list functions in Group.lean and tied by this correspondence",
        "numpy.argsort is modelled as a stable sort; the results of the modelled operations do not depend on the order among equal keys (at most one selected person per group), and the tie order of get_rank is outside the claim domain",
        "values are exact integers / booleans (float32/float64/int32/int64 arrays of small integers); rounding, overflow and NaN propagation are not modelled",
        "claim domain: >= 1 person, group indices < count, array sizes matching; outside it the model still answers (errors included) and is compared",
        "`any` is computed as sum > 0: the oracle states it for boolean and non-negative integer arrays; on signed integer arrays whose values cancel the code answers False where some value is non-zero (compared with the model, reported as an observation, not stated by the oracle)",
    ],
    level_text=("T-full on the model: every aggregate / projection / position / rank / chain clause of the statement is a "
                "theorem for all population sizes and membership maps (27 theorems, incl. independence from numpy's unstable "
                "argsort order, assigned member positions, the partner projection, chains through several group entities, "
                "the containing-entity shortcut and `members`, the refusal branches, invariance of every aggregate under any "
                "reordering of the persons, role-restricted sums adding up to the total over roles that partition the members, "
                "aggregates of a projection giving the group's value back, `reduce` for any reducer with a right-neutral element, "
                "and independence of get_rank from the width of its position matrix); every argument array is snapshotted before the call "
                "and compared after it (no operation changes its arguments), 20% of the calls are made twice on the same array objects "
                "with the first result overwritten in between; the numpy primitives are modelled and tied by the correspondence; "
                "tie order of get_rank and the raw ordered_members_map are compared but not binding. F-C10 (bincount without "
                "minlength) is repaired in the modelled code and sits in the corpus."),
    exhaustive_note="thorough: all membership maps of 1..5 persons into 1..3 groups with 2 roles (10 756 populations x 36 operations)",
)
