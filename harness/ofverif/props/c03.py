"""C03 — summing or dividing over time uses the exact sub-periods; period mismatches fail.

Protocol (one self-contained request per line, a fresh simulation each time, the request made twice):

    add <kind> <cfg> <defUnit> <parg> <mode>      -> <int> | <p/q> | ok | ERR

    kind   i  int variable whose formula returns ord(period.start) mod 9973
           f  float variable whose 3-argument formula returns ord(period.start) mod 1009
           g  as i, defined on a group entity (requested through the group population)
           b  bool variable whose formula returns ord(period.start) mod 3 == 0: its ADD is the NUMBER of pieces in
              which it holds (an int, never a bool), its DIVIDE 1/n or 0
           c  int variable without formula, default value 7
           z  neutralised float variable (value 0)
           (the eternal variable of every kind is constant: 7 — a scalar returned by its formula —, or
           0 when neutralised)
    cfg    s  default configuration (values are stored)
           n  MemoryConfig(variables_to_drop=[variable]) : computed values are not stored
           t  simulation.trace = True
           p  primed: before the request, the variable is calculated for the definition-unit-long period that
              contains the requested period's first day (this_year / first_month / first_week / first_day /
              first_weekday of the request), so that an ADD finds its first piece — and a DIVIDE the period
              it divides — already cached
    parg   unit/Y,M,D/size      a Period object
           S:unit/Y,M,D/size    str(period): the entry point converts it with periods.period
           I:year/Y,1,1/1       the int Y
           none                 an argument that is not int / str / Period (1.5; None for `chk`)
    mode   plain | add | div    Simulation.calculate / calculate_add / calculate_divide
           out:- | out:A | out:D  Simulation.calculate_output on a variable declaring no calculate_output /
                                calculate_output_add / calculate_output_divide
           chk                  population.check_period_validity(variable, argument)
           pop:<opts>           population(variable, period, options), options in a list
           frm:<opts>           the same call made from inside another variable's formula
           popt: / frmt:        the same with the options in a tuple
    opts   - (options=None) | e (empty sequence) | tokens joined by `+`: A = ADD, D = DIVIDE, sA = "ADD",
           sD = "DIVIDE", X = "LAGRANGIAN", la = "add", ld = "divide"

The simulation has 1 to 3 persons (one group each), chosen from the line; every entry of the result
must be the same value. The values are small integers: every sum is exact in int32 / float32 (kind f:
at most 24 years of days x 1008 < 2**24). A DIVIDE result is one correctly rounded division of two
exactly represented integers; the model prints the exact quotient and the comparison reproduces the
rounding (`float32(a)/float32(n)` for a float variable, `a/n` in float64 for an int variable).

Observations not counted (the statement does not decide them; not generated):
* options given in a container that is not a `Sequence` (set, frozenset, iterator) are ignored by
  `CorePopulation.__call__` (the request is served as a plain one): the documented type is
  `None | Sequence[Option]`; lists, tuples (and str spellings of the members) are generated;
* `calculate / calculate_add / calculate_divide(name, None)` on a non-eternal variable raises
  `AttributeError`: an error, of whatever class;
* an eternal variable with a formula cannot be computed for the dateless ETERNITY period
  (`Variable.get_formula` formats the instant): compared, not binding.
"""
from __future__ import annotations

import datetime as dt
import os
import random
import re
import zlib
from fractions import Fraction

from ..core import Case, Prop
from ..perutil import O, _addm_t, align, end_ord, fmt_date

UNITS = ["weekday", "week", "day", "month", "year", "eternity"]
DATED = UNITS[:5]
FAMILY = {"year": 0, "month": 0, "day": 0, "week": 1, "weekday": 1}
RANK = {"day": 0, "month": 1, "year": 2, "weekday": 0, "week": 1}
# how long one unit lasts, in days (an independent table, not the code's unit weights)
DURATION = {"weekday": 1, "day": 1, "week": 7, "month": 28, "year": 365}
MOD = {"i": 9973, "f": 1009, "g": 9973}
KINDS = ("i", "f", "g", "c", "z", "b")
ETERNITY_TOK = "eternity/-1,-1,-1/-1"
IMPL_ERRORS = (ValueError, IndexError, TypeError, OverflowError)

_INT = re.compile(r"^-?[0-9]+$")

# --------------------------------------------------------------------------------------
# syntax (mirrors the driver's parser)


def _parse_period(tok):
    f = tok.split("/")
    if len(f) != 3 or f[0] not in UNITS or not _INT.match(f[2]):
        return None
    d = f[1].split(",")
    if len(d) != 3 or not all(_INT.match(x) for x in d):
        return None
    return f[0], (int(d[0]), int(d[1]), int(d[2])), int(f[2])


def _parse_opts(tok):
    """-> (True, None | list of tokens) or (False, None) when malformed"""
    if tok == "-":
        return True, None
    if tok == "e":
        return True, []
    toks = tok.split("+")
    if any(t == "" for t in toks):
        return False, None
    return True, toks


def parse_line(line):
    """-> dict or None when the driver would answer BAD"""
    f = line.split()
    if len(f) != 6 or f[0] != "add":
        return None
    _, kind, cfg, du, ps, mode = f
    if kind not in KINDS or cfg not in ("s", "n", "t", "p") or du not in UNITS:
        return None
    period, spelling = None, "P"
    if ps != "none":
        if ps[:2] in ("S:", "I:"):
            spelling, ps = ps[0], ps[2:]
        period = _parse_period(ps)
        if period is None:
            return None
        if spelling == "I" and not (period[0] == "year" and period[1][1:] == (1, 1) and period[2] == 1 and period[1][0] >= 0):
            return None
    m = mode.split(":")
    opts, co, tup = None, None, False
    if m in (["plain"], ["add"], ["div"]):
        if period is None:
            return None
        req = m[0]
    elif m == ["chk"]:
        req = "chk"
    elif len(m) == 2 and m[0] == "out":
        if period is None or m[1] not in ("-", "A", "D"):
            return None
        req, co = "out", m[1]
    elif len(m) == 2 and m[0] in ("pop", "frm", "popt", "frmt"):
        ok, opts = _parse_opts(m[1])
        if not ok:
            return None
        req, tup = m[0][:3], m[0].endswith("t")
    else:
        return None
    return dict(kind=kind, cfg=cfg, du=du, period=period, spelling=spelling, req=req, opts=opts, co=co, tup=tup)


def _opt_class(t):
    return "A" if t in ("A", "sA") else "D" if t in ("D", "sD") else "X"


def effective_mode(c):
    """what the request amounts to: plain | add | div | both | unknown | empty | noperiod"""
    if c["req"] in ("plain", "add", "div"):
        return c["req"]
    if c["req"] == "chk":
        return "chk"
    if c["req"] == "out":
        return {"-": "plain", "A": "add", "D": "div"}[c["co"]]
    if c["period"] is None:
        return "noperiod"
    if c["opts"] is None:
        return "plain"
    cl = {_opt_class(t) for t in c["opts"]}
    if not c["opts"]:
        return "empty"
    if "A" in cl and "D" in cl:
        return "both"
    if "A" in cl:
        return "add" if cl == {"A"} else "add+unknown"
    if "D" in cl:
        return "div" if cl == {"D"} else "div+unknown"
    return "unknown"


# --------------------------------------------------------------------------------------
# the real system (built once per worker process)

_SYS = {}
_CALL = [None]
_CAPTURE = [None]


def _system():
    if _SYS:
        return _SYS
    from openfisca_core import entities, periods, simulations, taxbenefitsystems, variables
    from openfisca_core.periods import DateUnit
    from openfisca_core.populations import ADD, DIVIDE

    person = entities.build_entity(key="person", plural="persons", label="", is_person=True)
    household = entities.build_entity(key="household", plural="households", label="",
                                      roles=[{"key": "member", "plural": "members"}])
    tbs = taxbenefitsystems.TaxBenefitSystem([person, household])

    def dated_formula(mod):
        def formula(population, period):
            return population.filled_array(period.start.date.toordinal() % mod)
        return formula

    def dated_formula3(mod):
        def formula(population, period, parameters):       # the 3-argument form
            return population.filled_array(period.start.date.toordinal() % mod)
        return formula

    def constant_formula(population, period):
        return 7                                           # a scalar: the engine fills the array

    def bool_formula(population, period):
        return population.filled_array(period.start.date.toordinal() % 3 == 0)

    def true_formula(population, period):
        return population.filled_array(True)

    outputs = {"": None, "_oa": simulations.calculate_output_add, "_od": simulations.calculate_output_divide}
    for u in UNITS:
        du = DateUnit(u)
        eternal = u == "eternity"
        attrs = {
            "i": dict(value_type=int, formula=constant_formula if eternal else dated_formula(MOD["i"])),
            "f": dict(value_type=float, formula=constant_formula if eternal else dated_formula3(MOD["f"])),
            "g": dict(value_type=int, formula=constant_formula if eternal else dated_formula(MOD["g"])),
            "c": dict(value_type=int, default_value=7),
            "b": dict(value_type=bool, formula=true_formula if eternal else bool_formula),
            "z": dict(value_type=float, formula=constant_formula if eternal else dated_formula(MOD["f"])),
        }
        for kind, a in attrs.items():
            for suffix, co in outputs.items():
                name = f"v_{kind}_{u}{suffix}"
                extra = {} if co is None else {"calculate_output": co}
                tbs.add_variable(type(name, (variables.Variable,), dict(
                    entity=household if kind == "g" else person, definition_period=du, **a, **extra)))
                if kind == "z":
                    tbs.neutralize_variable(name)

    def make_caller():
        def caller_formula(population, period):
            name, p, opts = _CALL[0]
            _CAPTURE[0] = population(name, p, options=opts)
            return population.filled_array(0.0)
        return caller_formula

    for key, ent in (("caller", person), ("caller_g", household)):
        tbs.add_variable(type(key, (variables.Variable,), dict(
            entity=ent, definition_period=DateUnit.ETERNITY, value_type=float, formula=make_caller())))
    _SYS.update(tbs=tbs, periods=periods, DateUnit=DateUnit,
                optmap={"A": ADD, "D": DIVIDE, "sA": "ADD", "sD": "DIVIDE", "X": "LAGRANGIAN",
                        "la": "add", "ld": "divide"})
    return _SYS


def _real_period(p):
    from openfisca_core.periods import DateUnit, Instant, Period
    u, s, n = p
    return Period((DateUnit(u), Instant(s), n))


def _fmt_frac(x: Fraction) -> str:
    return str(x.numerator) if x.denominator == 1 else f"{x.numerator}/{x.denominator}"


def _canon_value(r, count, bool_ok=False) -> str:
    import numpy
    if isinstance(r, numpy.ndarray):
        if r.shape != (count,):
            return f"NONVALUE:shape{r.shape}".replace(" ", "")
        if not (r == r[0]).all():
            return "NONVALUE:entries-differ"
        r = r[0]
    if isinstance(r, (bool, numpy.bool_)):
        # the value of a bool variable for one period is a bool; a sum or a quotient never is
        return str(int(r)) if bool_ok else "NONVALUE:bool"
    if not isinstance(r, (int, float, numpy.integer, numpy.floating)):
        return "NONVALUE:" + type(r).__name__      # e.g. None: a request must return a value or raise
    if isinstance(r, (int, numpy.integer)):
        return str(int(r))
    return _fmt_frac(Fraction(float(r)))


def _count(line: str) -> int:
    return 1 + zlib.crc32(line.encode()) % 3


def _argument(c):
    """the period argument as the caller writes it"""
    if c["period"] is None:
        return None if c["req"] == "chk" else 1.5        # neither is an int / str / Period
    p = _real_period(c["period"])
    if c["spelling"] == "S":
        return str(p)
    if c["spelling"] == "I":
        return c["period"][1][0]
    return p


def impl(case: Case) -> str:
    c = parse_line(case.line)
    if c is None:
        return "BAD"
    sysm = _system()
    from openfisca_core import experimental, simulations
    req = c["req"]
    name = f"v_{c['kind']}_{c['du']}" + ({"A": "_oa", "D": "_od"}.get(c["co"], "") if req == "out" else "")
    count = _count(case.line)
    sim = simulations.SimulationBuilder().build_default_simulation(sysm["tbs"], count)
    if c["cfg"] == "n":
        sim.memory_config = experimental.MemoryConfig(max_memory_occupation=1, variables_to_drop=[name])
    elif c["cfg"] == "t":
        sim.trace = True
    group = c["kind"] == "g"
    population = sim.household if group else sim.persons
    caller = "caller_g" if group else "caller"
    p = _argument(c)
    if c["cfg"] == "p" and c["period"] is not None and c["du"] != "eternity" and c["period"][0] != "eternity":
        # one piece computed (and cached) beforehand; a period the variable cannot be computed for is just skipped
        try:
            first = {"year": lambda q: q.this_year, "month": lambda q: q.first_month, "week": lambda q: q.first_week,
                     "day": lambda q: q.first_day, "weekday": lambda q: q.first_weekday}[c["du"]](_real_period(c["period"]))
            sim.calculate(name, first)
        except Exception:
            pass

    def once():
        if req == "plain":
            return sim.calculate(name, p)
        if req == "add":
            return sim.calculate_add(name, p)
        if req == "div":
            return sim.calculate_divide(name, p)
        if req == "out":
            return sim.calculate_output(name, p)
        if req == "chk":
            population.check_period_validity(name, p)
            return "ok"
        opts = None if c["opts"] is None else [sysm["optmap"].get(t, t) for t in c["opts"]]
        if opts is not None and c["tup"]:
            opts = tuple(opts)
        if req == "pop":
            return population(name, p, options=opts)
        _CALL[0] = (name, p, opts)
        _CAPTURE[0] = None
        sim.delete_arrays(caller)              # the caller is eternal: forget it so that its formula runs
        sim.calculate(caller, "2000-01")
        return _CAPTURE[0]

    bool_ok = c["kind"] == "b" and effective_mode(c) == "plain"

    def canon(r):
        return "ok" if req == "chk" and r == "ok" else _canon_value(r, count, bool_ok)

    try:
        first = canon(once())                  # canonicalised before the repeat: the array may be shared
    except IMPL_ERRORS:
        return "ERR"
    # the statement holds for every request, not only the first one on a simulation: the same
    # request repeated on the same simulation (values now cached) must give the same answer
    try:
        again = canon(once())
    except IMPL_ERRORS:
        again = "ERR"
    return first if again == first else f"{first}#REPEAT:{again}"


def _parse_frac(s):
    a = s.split("/")
    if len(a) == 1 and _INT.match(a[0]):
        return Fraction(int(a[0]))
    if len(a) == 2 and _INT.match(a[0]) and _INT.match(a[1]) and int(a[1]) > 0:
        return Fraction(int(a[0]), int(a[1]))
    return None


def _round_quotient(kind, q: Fraction) -> Fraction:
    """the value the code's single float division yields for the exact quotient q = a/n of two
    small integers (a correctly rounded division depends on the quotient only)"""
    import numpy
    if q.denominator == 1:
        return q
    if kind in ("f", "z"):
        return Fraction(float(numpy.float32(q.numerator) / numpy.float32(q.denominator)))
    return Fraction(q.numerator / q.denominator)


# Cross-family accepted cells (a day variable summed over a week, a week variable divided over a day, ...): the
# statement claims no value for them (the oracle stays silent), but the model transcribes what the code does there
# (get_subperiods / size_in_* of the C04 model), so the correspondence is binding for them as well.
# OFV_C03_LENIENT=1 restores the round-1 behaviour (accept/reject binding, values only recorded).
STRICT = not os.environ.get("OFV_C03_LENIENT")


def _cross_family(c) -> bool:
    return (c["period"] is not None and c["period"][0] != "eternity" and c["du"] != "eternity"
            and FAMILY[c["du"]] != FAMILY[c["period"][0]])


def canon_equal(case: Case, impl_out: str, model_out: str) -> bool:
    if impl_out == model_out:
        return True
    if impl_out in ("ERR", "BAD") or model_out in ("ERR", "BAD"):
        return False
    c = parse_line(case.line)
    a, b = _parse_frac(impl_out), _parse_frac(model_out)
    if c is None or a is None or b is None:
        return False
    if a == _round_quotient(c["kind"], b):
        return True
    # the value of a cross-family accepted cell is binding too (the model transcribes the code there), unless
    # OFV_C03_LENIENT is set
    return _cross_family(c) and not STRICT


# --------------------------------------------------------------------------------------
# the oracle: the property statement, computed with integer / datetime arithmetic only


def _valid(s):
    try:
        dt.date(*s)
        return True
    except ValueError:
        return False


def _val(kind, du, start):
    if kind == "z":
        return 0
    if kind == "b":
        return 1 if du == "eternity" else int(O(start) % 3 == 0)
    if kind == "c" or du == "eternity":
        return 7
    return O(start) % MOD[kind]


def _aligned(s, u):
    if u == "year":
        return s[1] == 1 and s[2] == 1
    if u == "month":
        return s[2] == 1
    if u == "week":
        return dt.date(*s).weekday() == 0
    return True


def _pieces(du, lo, hi):
    """starts (ordinals) of the consecutive du-long pieces covering the days lo..hi exactly, or
    None when they do not tile that interval"""
    out = []
    o = lo
    while o <= hi:
        out.append(o)
        d = dt.date.fromordinal(o)
        if du in ("day", "weekday"):
            o += 1
        elif du == "week":
            o += 7
        elif du == "month":
            o = O(_addm_t((d.year, d.month, d.day), 1))
        else:
            o = O(_addm_t((d.year, d.month, d.day), 12))
    return out if o == hi + 1 else None


def _enclosing(du, s):
    """(start, lo, hi) of the du-long calendar period containing the date s"""
    d = dt.date(*s)
    if du == "year":
        a = (s[0], 1, 1)
    elif du == "month":
        a = (s[0], s[1], 1)
    elif du == "week":
        m = d - dt.timedelta(days=d.weekday())
        a = (m.year, m.month, m.day)
    else:
        a = s
    return a, O(a), end_ord(du, a, 1)


def _in_range(s, hi):
    return 2 <= s[0] and hi <= O((9997, 12, 31))


def oracle(case: Case, out: str):
    c = parse_line(case.line)
    if c is None or out == "BAD":
        return None
    mode = effective_mode(c)
    du, kind = c["du"], c["kind"]
    if "#REPEAT:" in out:
        a, b = out.split("#REPEAT:")
        return ("repeat-differs", f"the same request on the same simulation returned {a}, then {b}")
    if out.startswith("NONVALUE:") and mode in ("plain", "add", "div", "both", "unknown"):
        return ("no-value-no-error", f"the request returned {out[9:]} instead of a value or an error")
    if mode == "both":
        return None if out == "ERR" else ("both-options-accepted", f"ADD and DIVIDE together returned {out}")
    if mode == "unknown":
        return None if out == "ERR" else ("unknown-option-accepted", f"an unknown option returned {out}")
    if mode not in ("plain", "add", "div") or c["period"] is None:
        return None
    u, s, n = c["period"]
    eternal_p = u == "eternity"
    if not eternal_p and not _valid(s):
        return None
    if c["spelling"] == "S" and not eternal_p:
        # the caller wrote str(period): only the printed forms of periods aligned to their own unit
        # denote the same days again, and twelve months print as one year (C05)
        if n < 1 or not _aligned(s, u) or (u == "year" and s[2] != 1) or not 1000 <= s[0] <= 9990:
            return None
        if u == "month" and n == 12:
            u, n = "year", 1
    # ---- the situations the statement lists: an error, not a value
    reject = None
    if mode == "plain":
        if du != "eternity" and u != du:
            reject = ("plain-wrong-unit-accepted", f"{du} variable computed for a {u} period")
        elif du != "eternity" and n > 1:
            reject = ("plain-size-accepted", f"{du} variable computed for {n} {u}s at once")
    elif mode == "add":
        if du == "eternity":
            reject = ("add-eternal-variable-accepted", "an eternal variable was summed over time")
        elif eternal_p:
            reject = ("add-eternity-period-accepted", f"{du} variable summed over the eternity period")
        elif DURATION[du] > DURATION[u]:
            reject = ("add-shorter-period-accepted", f"{du} variable summed over {u} periods, shorter than its definition period")
    else:
        if du == "eternity":
            reject = ("divide-eternal-variable-accepted", "an eternal variable was divided over time")
        elif eternal_p:
            reject = ("divide-eternity-period-accepted", f"{du} variable divided over the eternity period")
        elif n > 1:
            reject = ("divide-size-accepted", f"{du} variable divided over {n} {u}s at once")
        elif DURATION[du] < DURATION[u]:
            reject = ("divide-longer-period-accepted", f"{du} variable divided over a {u}, longer than its definition period")
    if reject is not None:
        if case.tags and "unstored" in case.tags and reject[0] == "plain-wrong-unit-accepted":
            reject = ("plain-wrong-unit-accepted-unstored", reject[1] + " when the value is not stored")
        return None if out == "ERR" else (reject[0], reject[1] + f": returned {out}")
    # ---- values: same family, start aligned, positive size, away from the ends of the calendar
    if eternal_p or n < 1:
        return None
    try:
        lo, hi = O(s), end_ord(u, s, n)
    except (ValueError, OverflowError):
        return None
    if not _in_range(s, hi):
        return None
    if mode == "plain":
        want = Fraction(_val(kind, du, s))
        if out == "ERR":
            return ("plain-rejected", f"{du} variable refused for one {u}")
        if _parse_frac(out) != want:
            return ("plain-value", f"returned {out}, the formula's value is {want}")
        return None
    if FAMILY[du] != FAMILY[u]:
        return None
    if mode == "add":
        if RANK[du] > RANK[u] or not _aligned(s, du):
            return None
        starts = _pieces(du, lo, hi)
        if starts is None:
            return None
        want = Fraction(sum(_val(kind, du, dt.date.fromordinal(o).timetuple()[:3]) for o in starts))
        if out == "ERR":
            return ("add-rejected", f"{du} variable could not be summed over {case.line.split()[4]}, which {len(starts)} {du}s tile exactly")
        if _parse_frac(out) != want:
            return ("add-value", f"returned {out}; the {len(starts)} {du}-long pieces sum to {want}")
        return None
    # divide
    if RANK[du] < RANK[u] or n != 1 or not _aligned(s, u):
        return None
    a, elo, ehi = _enclosing(du, s)
    if not (elo <= lo and hi <= ehi):
        return None
    pieces = _pieces(u, elo, ehi)
    if pieces is None:
        return None
    want = _round_quotient(kind, Fraction(_val(kind, du, a), len(pieces)))
    if out == "ERR":
        return ("divide-rejected", f"{du} variable could not be divided over one {u}")
    if _parse_frac(out) != want:
        return ("divide-value", f"returned {out}; value of the enclosing {du} ({_val(kind, du, a)}) / {len(pieces)} {u}s = {want}")
    return None


def nontrivial(case: Case, out: str) -> bool:
    c = parse_line(case.line)
    if c is None or c["period"] is None:
        return False
    mode = effective_mode(c)
    if mode in ("both", "unknown"):
        return True
    u, s, n = c["period"]
    # a decision of the unit matrix, or a sum / quotient over more than one piece
    return out == "ERR" or mode in ("add", "div") or c["du"] == "eternity"


# --------------------------------------------------------------------------------------
# generation

# 29 Feb, month ends, ISO week 53, 31 Dec / 1 Jan inside a week, rolling years, 1 Jan on a Monday,
# century years, the ends of the calendar
DATES_QUICK = [
    (2018, 1, 1), (2020, 2, 29), (2019, 1, 31), (2020, 12, 28), (2019, 12, 31), (2020, 1, 1),
    (2021, 1, 3), (2019, 3, 1), (2021, 12, 31), (2100, 2, 28), (2015, 12, 28), (2019, 7, 15),
    # ISO years: W01 beginning in December (Monday 2018-12-31, Monday 2019-12-30), Sunday of 2015-W53
    (2018, 12, 31), (2019, 12, 30), (2016, 1, 3),
]
DATES_MORE = [
    (2000, 2, 29), (2019, 2, 28), (2020, 11, 30), (2026, 1, 1), (2024, 12, 30), (2016, 1, 1),
    (2016, 2, 1), (2017, 1, 2), (2021, 1, 4), (2026, 12, 28), (2027, 1, 1), (1900, 3, 1),
    (2400, 2, 29), (1999, 12, 31), (2004, 2, 28), (2023, 4, 30), (2022, 5, 31), (2020, 3, 31),
    (2020, 6, 1), (2019, 10, 27), (2032, 12, 27), (2012, 2, 29), (1000, 1, 1), (4, 2, 29),
    (9000, 12, 31), (2, 1, 1), (9970, 1, 1), (2009, 12, 28),
]
MAIN_MODES = ["plain", "add", "div", "frm:-", "frm:A", "frm:D", "frm:A+D", "frm:X", "out:-", "out:A", "out:D"]
TEXT_MODES = ["plain", "add", "div", "pop:-", "frm:A", "pop:D", "out:A", "out:D"]
OPTION_FORMS = ["-", "A", "D", "A+D", "D+A", "X", "sA", "sD", "sA+sD", "A+sD", "la", "ld", "la+ld", "X+A",
                "A+X", "X+D", "D+X", "X+X", "A+A", "D+D", "e", "A+D+X", "X+A+D"]


def _tok(u, s, n):
    return ETERNITY_TOK if u == "eternity" else f"{u}/{fmt_date(s)}/{n}"


def _heavy(du, u, n):
    """approximate number of sub-period calculations of an ADD"""
    if du == "eternity" or u == "eternity":
        return 1
    days = {"year": 366, "month": 31, "week": 7, "day": 1, "weekday": 1}[u] * max(n, 0)
    return days // {"year": 365, "month": 28, "week": 7, "day": 1, "weekday": 1}[du] + 1


def _mk(kind, cfg, du, ptok, mode, claimed=True, tags=()):
    line = f"add {kind} {cfg} {du} {ptok} {mode}"
    c = parse_line(line)
    t = [f"def:{du}", "mode:" + (effective_mode(c) if c else "malformed")]
    if c and c["period"]:
        u, s, n = c["period"]
        t.append(f"req:{u}")
        t.append("arg:" + {"P": "Period", "S": "str", "I": "int"}[c["spelling"]])
        t.append("size:" + ("<=0" if n <= 0 else "1" if n == 1 else "2-3" if n <= 3 else "4-12" if n <= 12 else ">12"))
        if c["period"][0] != "eternity" and du != "eternity":
            fam = "same-family" if FAMILY[du] == FAMILY[u] else "cross-family"
            t.append(fam)
            # cross-family accepted values are answered but not binding (Appendix A); whether the
            # request is accepted stays binding: see canon_equal
        if u != "eternity":
            try:
                edge = s[0] < 2 or end_ord(u, s, max(n, 1)) > O((9990, 12, 31))
            except (ValueError, OverflowError):
                edge = True
            if edge:
                t.append("range-edge")
    return Case(line=line, claimed=claimed, tags=tuple(t) + tuple(tags))


def _period_starts(dates):
    """(unit, start) pairs: every date as it is (rolling periods) and aligned to the unit"""
    out = []
    for d in dates:
        for u in DATED:
            out.append((u, d))
            a = align(u, d)
            if a != d:
                out.append((u, a))
            if u == "year" and (d[1], d[2]) != (1, 1):
                out.append((u, (d[0], 1, 1)))
    seen, res = set(), []
    for x in out:
        if x not in seen:
            seen.add(x)
            res.append(x)
    return res


def _matrix(dates, sizes, kinds_for, modes_for):
    out = []
    starts = _period_starts(dates)
    for idx, (u, s) in enumerate(starts):
        for n in sizes:
            ptok = _tok(u, s, n)
            for du in UNITS:
                for kind in kinds_for(idx, n):
                    for mode in modes_for(du, u, n, kind):
                        out.append(_mk(kind, "t" if idx % 5 == 4 else "p" if idx % 5 == 2 else "s", du, ptok, mode))
    for du in UNITS:
        for kind in ("i", "f", "g", "b"):
            for mode in MAIN_MODES + ["pop:A", "pop:D", "pop:-"]:
                # an eternal variable with a formula cannot be computed for the dateless ETERNITY period
                # (Variable.get_formula formats the instant): recorded observation, not binding
                plainish = mode in ("plain", "frm:-", "pop:-", "out:-")
                out.append(_mk(kind, "s", du, ETERNITY_TOK, mode,
                               claimed=not (du == "eternity" and plainish), tags=("eternity-period",)))
    return out


def _own_aligned(u, s):
    return _aligned(s, u) and (u != "year" or s[2] == 1)


def _text_stream(dates, sizes, kinds):
    """the period written as text (str(period)) or as an int: every entry point converts it with
    periods.period; week and weekday texts go through the ISO calendar (W01 in December, W53)"""
    out = []
    starts = [(u, s) for (u, s) in _period_starts(dates) if _own_aligned(u, s) and 1000 <= s[0] <= 9990]
    for idx, (u, s) in enumerate(starts):
        for n in sizes:
            kind = kinds[(idx + n) % len(kinds)]
            for du in UNITS:
                for mode in TEXT_MODES:
                    out.append(_mk(kind, "s", du, "S:" + _tok(u, s, n), mode, tags=("text",)))
                if u == "year" and (s[1], s[2]) == (1, 1) and n == 1:
                    for mode in TEXT_MODES:
                        out.append(_mk(kind, "s", du, "I:" + _tok(u, s, n), mode, tags=("int",)))
    for du in UNITS:
        for mode in TEXT_MODES:
            plainish = mode in ("plain", "pop:-", "out:-")
            out.append(_mk("i", "s", du, "S:" + ETERNITY_TOK, mode,
                           claimed=not (du == "eternity" and plainish), tags=("text", "eternity-period")))
    # check_period_validity looks at the type of the argument only
    for du in ("month", "eternity"):
        for ptok in ("none", "month/2020,1,1/1", "S:month/2020,1,1/1", "I:year/2020,1,1/1", "S:week/2019,12,30/1",
                     ETERNITY_TOK, "year/2020,1,1/3"):
            for kind in ("i", "g"):
                out.append(_mk(kind, "s", du, ptok, "chk", tags=("chk",)))
    return out


def _side_streams(rng, dates, n_opts):
    out = []
    # constant / neutralised variables and the not-stored configuration (F-C03b lives here)
    for du in UNITS:
        for u in UNITS:
            for n in (1, 2):
                for s in dates[:3]:
                    if u == "eternity" and (n != 1 or s != dates[0]):
                        continue
                    ptok = _tok(u, align(u, s) if u != "eternity" else s, n)
                    for kind, cfg in (("c", "s"), ("z", "s"), ("i", "n"), ("f", "n"), ("z", "n"), ("c", "n")):
                        for mode in ("plain", "add", "div", "frm:-"):
                            eternal_plain = du == "eternity" and u == "eternity" and mode in ("plain", "frm:-") and kind in ("i", "f")
                            out.append(_mk(kind, cfg, du, ptok, mode, claimed=not eternal_plain,
                                           tags=("unstored",) if cfg == "n" or kind == "z" else ()))
    # every way of writing the options, on random cells
    starts = _period_starts(dates)
    for _ in range(n_opts):
        u, s = rng.choice(starts)
        n = rng.choice([1, 1, 2, 3])
        du = rng.choice(UNITS)
        form = rng.choice(OPTION_FORMS)
        via = rng.choice(["pop", "frm", "popt", "frmt"])
        spell = "S:" if (rng.random() < 0.25 and _own_aligned(u, s) and 1000 <= s[0] <= 9990) else ""
        out.append(_mk(rng.choice(["i", "f", "g", "b"]), rng.choice(["s", "s", "t", "p"]), du, spell + _tok(u, s, n),
                       f"{via}:{form}", tags=("options",)))
    # a period argument that is not a period; sizes 0 and negative (answered, not binding);
    # impossible dates (the period algebra raises)
    for du in UNITS:
        for form in ("-", "A", "D", "X"):
            for via in ("pop", "frm"):
                out.append(_mk("i", "s", du, "none", f"{via}:{form}", tags=("no-period",)))
        for u in DATED:
            for n in (0, -1):
                for mode in ("plain", "add", "div"):
                    out.append(_mk("i", "s", du, _tok(u, (2020, 3, 2), n), mode, claimed=False, tags=("size<=0",)))
            for s in ((2019, 2, 29), (2020, 13, 1), (2020, 4, 31)):
                for mode in ("plain", "add", "div"):
                    out.append(_mk("i", "s", du, _tok(u, s, 1), mode, claimed=False, tags=("impossible-date",)))
    # malformed lines
    for line in ["add", "add i s month", "add q s month month/2020,1,1/1 add", "add i x month month/2020,1,1/1 add",
                 "add i s fortnight month/2020,1,1/1 add", "add i s month month/2020,1/1 add",
                 "add i s month month/2020,1,1/1 sum", "add i s month month/2020,1,1/1 pop:A++D",
                 "add i s month none add", "add i s month month/2020,1,1/x div", "add i s month month/2020,1,1/1 pop",
                 "add i s month I:month/2020,1,1/1 add", "add i s month I:year/2020,2,1/1 add", "add i s month X:year/2020,1,1/1 add",
                 "add i s month year/2020,1,1/1 out:X", "add i s month none out:A", "add i s month year/2020,1,1/1 chk:A",
                 "add i s month S: add", "add g u month year/2020,1,1/1 add"]:
        out.append(Case(line=line, claimed=True, tags=("malformed",)))
    return out


def _thorough_kinds(idx, n):
    return ("i", "f", "g", "b") if n in (1, 3, 12) else ("i", "f", "g") if n in (2, 24) else ("i", "f")


def _thorough_modes(du, u, n, kind):
    # the formula-side duplicates of the long sums on a sub-lattice of sizes
    if n in (1, 2, 3, 12, 24):
        return MAIN_MODES
    if _heavy(du, u, n) < 1000:
        return MAIN_MODES[:8]
    return ["plain", "add", "div", "frm:-", "frm:D", "frm:A+D", "frm:X"]


def _unclaim_edges(cases):
    # dates near the ends of the calendar: pendulum raises when an intermediate date leaves years
    # 1..9999; compared with the model, accept side not binding
    for c in cases:
        if "range-edge" in c.tags:
            c.claimed = False
    return cases


def generate(rng: random.Random, tier: str):
    if tier == "quick":
        dates = list(DATES_QUICK)
        for _ in range(6):   # six further dates drawn per seed
            dates.append((rng.choice([1996, 2003, 2011, 2020, 2024, 2031, 2096, 2104]), rng.randint(1, 12), rng.randint(1, 28)))
        out = _matrix(dates, (1, 2, 3, 12), lambda idx, n: (("i", "f", "g", "b", "i", "f", "g")[(idx + n) % 7],),
                      lambda du, u, n, kind: MAIN_MODES)
        out += _text_stream(dates, (1, 2, 3, 12), ("i", "f", "g"))
        out += _side_streams(rng, dates, 600)
    else:
        # the fixed 40 dates are enumerated completely by enumerate_thorough(); here: dates drawn per seed
        dates = [(rng.randint(1950, 2150), rng.randint(1, 12), rng.randint(1, 28)) for _ in range(4)]
        dates.append((rng.choice([2020, 2024, 2000, 2400]), 2, 29))
        out = _matrix(dates, tuple(range(1, 25)), _thorough_kinds, _thorough_modes)
        out += _text_stream(DATES_QUICK + DATES_MORE + dates, (1, 2, 3, 4, 6, 11, 12, 13, 24), ("i", "f", "g"))
        out += _side_streams(rng, DATES_QUICK + dates, 6000)
    return _unclaim_edges(out)


def enumerate_thorough():
    """the finite table (6 definition units x 6 request units x modes) on the 40 fixed boundary
    dates (as they are and aligned to the unit), every size 1..24"""
    return _unclaim_edges(_matrix(DATES_QUICK + DATES_MORE, tuple(range(1, 25)), _thorough_kinds, _thorough_modes))


def corpus():
    out = [
        # F-C03a: ADD over the eternity period returned 0 for a yearly variable
        _mk("i", "s", "year", ETERNITY_TOK, "add", tags=("corpus",)),
        _mk("f", "s", "year", ETERNITY_TOK, "frm:A", tags=("corpus",)),
        _mk("c", "s", "year", ETERNITY_TOK, "pop:A", tags=("corpus",)),
        # F-C03b: day / weekday variable, wrong unit, value not stored or neutralised variable
        _mk("i", "n", "day", "month/2020,1,1/1", "plain", tags=("corpus", "unstored")),
        _mk("f", "n", "weekday", "year/2020,1,1/1", "plain", tags=("corpus", "unstored")),
        _mk("z", "s", "day", "month/2020,1,1/1", "plain", tags=("corpus", "unstored")),
        _mk("z", "s", "weekday", "week/2020,1,6/1", "frm:-", tags=("corpus", "unstored")),
        _mk("i", "n", "day", "weekday/2020,1,1/1", "plain", tags=("corpus", "unstored")),
        # the pairs the test-suite exercises, and leap / week-53 boundaries
        _mk("i", "s", "month", "year/2020,1,1/1", "add", tags=("corpus",)),
        _mk("f", "s", "year", "month/2020,2,1/1", "div", tags=("corpus",)),
        _mk("i", "s", "day", "year/2020,1,1/1", "add", tags=("corpus",)),
        _mk("f", "s", "year", "day/2020,2,29/1", "div", tags=("corpus",)),
        _mk("i", "s", "day", "month/2020,2,1/1", "add", tags=("corpus",)),
        _mk("i", "s", "month", "day/2019,2,28/1", "div", tags=("corpus",)),
        _mk("i", "s", "weekday", "week/2020,12,28/2", "add", tags=("corpus",)),
        _mk("f", "s", "week", "weekday/2021,1,3/1", "div", tags=("corpus",)),
        _mk("i", "s", "month", "year/2019,3,1/2", "add", tags=("corpus",)),
        # a bool variable: ADD counts the pieces in which it holds
        _mk("b", "s", "weekday", "week/2020,12,28/2", "add", tags=("corpus",)),
        _mk("b", "s", "month", "year/2020,1,1/1", "frm:A", tags=("corpus",)),
        _mk("b", "p", "day", "month/2020,2,1/1", "out:A", tags=("corpus",)),
        _mk("b", "s", "year", "month/2019,12,1/1", "div", tags=("corpus",)),
        _mk("b", "s", "month", "month/2019,12,1/1", "plain", tags=("corpus",)),
        # text / int arguments, ISO-year boundaries, calculate_output, group entity, trace
        _mk("i", "s", "month", "S:year/2020,1,1/1", "add", tags=("corpus", "text")),
        _mk("f", "s", "year", "I:year/2020,1,1/1", "div", tags=("corpus", "int")),
        _mk("i", "s", "weekday", "S:week/2019,12,30/2", "add", tags=("corpus", "text")),
        _mk("g", "t", "week", "S:weekday/2021,1,3/1", "div", tags=("corpus", "text")),
        _mk("i", "s", "week", "S:week/2020,12,28/1", "plain", tags=("corpus", "text")),
        _mk("i", "s", "year", "S:month/2020,1,1/12", "plain", tags=("corpus", "text")),
        _mk("i", "s", "month", "year/2020,1,1/1", "out:A", tags=("corpus",)),
        _mk("f", "s", "year", "month/2020,2,1/1", "out:D", tags=("corpus",)),
        _mk("i", "s", "month", "year/2020,1,1/1", "out:-", tags=("corpus",)),
        _mk("g", "s", "day", "month/2020,2,1/1", "frmt:A", tags=("corpus",)),
        # the eternal-variable guards (reached only with the eternity period for ADD)
        _mk("i", "s", "eternity", ETERNITY_TOK, "add", tags=("corpus", "eternity-period")),
        _mk("i", "s", "eternity", "month/2020,1,1/1", "div", tags=("corpus",)),
        _mk("i", "s", "month", "none", "chk", tags=("corpus", "chk")),
    ]
    return out


def neighbours(case: Case):
    c = parse_line(case.line)
    if c is None or c["period"] is None or c["period"][0] == "eternity":
        return []
    u, s, n = c["period"]
    out = []
    try:
        base = dt.date(*s)
    except ValueError:
        return out
    mode = case.line.split()[5]
    for dd in (-1, 0, 1):
        for nn in {max(1, n - 1), n, n + 1, 1}:
            for du in UNITS:
                try:
                    x = base + dt.timedelta(days=dd)
                except OverflowError:
                    continue
                out.append(_mk(c["kind"], c["cfg"], du, _tok(u, (x.year, x.month, x.day), nn), mode))
    return out


PROP = Prop(
    pid="C03",
    lean_targets=["OFCore.Props.C03"],
    driver="ofdrv_add",
    generate=generate, impl=impl, oracle=oracle, nontrivial=nontrivial, corpus=corpus,
    neighbours=neighbours, canon_equal=canon_equal, enumerate_thorough=enumerate_thorough,
    search_budget_factor=3,
    rule=("lines `add <kind> <cfg> <defUnit> <parg> <mode>`: the complete matrix 6 definition units x 6 request "
          "units (eternity included) x sizes {1,2,3,12} (thorough: every size 1..24) x start dates drawn from a boundary "
          "pool (29 Feb, month ends, ISO week 53, ISO week 01 beginning in December, 31 Dec / 1 Jan inside a week, rolling "
          "years, 1 Jan on a Monday, century years, years 2/4/1000/9000/9970; 15 fixed + 6 drawn dates quick, 43 fixed + 5 "
          "drawn thorough, each taken as it is and aligned to the unit) x {calculate, calculate_add, calculate_divide, "
          "calculate_output on variables declaring none / calculate_output_add / calculate_output_divide, and from inside a "
          "formula: no option, ADD, DIVIDE, both, unknown}; the period passed as a Period object, and — for every aligned start — "
          "as str(period) (week / weekday texts go through the ISO calendar) and as an int; int (mod 9973), float (mod 1009, "
          "3-argument formula), group-entity and bool (true on every third day: its ADD is a count, never a bool) variables, trace on one start in five, on another one in five the first piece of the "
          "request (this_year / first_month / first_week / first_day / first_weekday of the requested period) calculated beforehand so that the request finds it cached, 1-3 persons; plus constant / neutralised "
          "variables, the not-stored configuration, 23 spellings of the options in lists and tuples on random cells, "
          "check_period_validity, non-period arguments, sizes <= 0, impossible dates, malformed lines. A fresh simulation per "
          "line, every request made twice on it. Non-trivial = a decision of the accept/reject matrix or an accepted ADD / "
          "DIVIDE value; distinct = distinct protocol lines."),
    assumptions=[
        "the engine below the period checks is abstracted by a value function val(period); the generated variables implement "
        "it with a formula returning ord(period.start) mod M (formula selection, casting and caching are C01's subject)",
        "Period.get_subperiods, this_year, first_month, first_week, size_in_* are the C04 model (tied by C04's correspondence); "
        "pendulum / datetime arithmetic modelled in Calendar.lean",
        "a DIVIDE result is one correctly rounded IEEE division of two exactly represented integers, reproduced by the harness "
        "from the model's exact quotient (float32 for float variables, float64 for int variables); rounding itself is modelled, not verified",
        "claim domain of the ORACLE: accept/reject on the whole matrix, values for same-family pairs. The values of cross-family "
        "accepted cells (a day variable summed over a week, a week variable divided over a day ...) are not claimed by the statement, but the "
        "model transcribes what the code does there, so their correspondence is binding (theorem C03_add_days_any_unit says what they are "
        "for per-day variables); sizes <= 0, impossible dates, years < 2 or > 9990 and an eternal formula variable requested for the ETERNITY "
        "period are compared with the model but not binding",
        "errors are compared as one class (any exception of ValueError / IndexError / TypeError / OverflowError)",
        "periods.period(str | int) is the C05 model parsePeriod (tied by C05's correspondence); text arguments are generated "
        "for periods aligned to their own unit with years 1000..9990 (C05's claim domain)",
        "not generated (outside the statement): options in a non-Sequence container (set, frozenset, iterator: ignored by "
        "the code), period=None on the three Simulation methods (AttributeError)",
    ],
    exhaustive_note=("thorough: the finite table 6 definition units x 6 request units x 8 request modes is enumerated completely "
                     "for every size 1..24 on 44+ start dates (aligned and rolling)"),
)
