"""C06 — a parameter's value at a date is its latest entry; edits touch only their span.

Protocol lines (driver `ofdrv_par`, see lean/OFCore/OFCore/Drv/Par.lean):

    par p <entries> <updates> <queries>          a Parameter, its updates, the days read
    par t <updates> <queries> <tree tokens …>    a ParameterNode / ParameterScale / Parameter tree
    par h <entries> <ops> <queries>              a history over several Parameter objects: clone / update / read
    par ht <ops> <queries> <tree tokens …>       the same over several trees (clones of the one declared)

Dates travel as proleptic ordinals (`datetime.date.toordinal`); the adapter turns them into the ISO
strings / `Instant`s / period strings the real API takes. Values are canonical tokens: integers,
dyadic rationals `p/q`, `T`/`F`; `null` is a YAML null, `expected` a placeholder; a read of an
undefined date prints `none` (the code returns `None` both before the first entry and on a null).
"""
from __future__ import annotations

import calendar
import datetime as dt
import json
import os
import random
import re
import shutil
import tempfile
from fractions import Fraction

from ..core import Case, Prop

D = dt.date.fromordinal
VALID_FORMS = ("period", "range", "open")
BAD_FORMS = ("both", "pstop", "nostart")
KIND_OF_CLASS = {"SingleAmountTaxScale": "single_amount", "MarginalAmountTaxScale": "marginal_amount",
                 "LinearAverageRateTaxScale": "linear_average_rate", "MarginalRateTaxScale": "marginal_rate"}
FIELDS = ("threshold", "rate", "amount", "average_rate")


RAISED = object()     # a read that raised


class Malformed(Exception):
    """the protocol line itself is malformed (the driver answers BAD)"""


class InputMutated(Exception):
    """an operation changed an argument the caller owns"""


# --------------------------------------------------------------------------------------
# tokens <-> python values


def iso(o: int) -> str:
    return D(o).isoformat()


def tok_of(v) -> str:
    """canonical token of a value the implementation returned"""
    if v is None:
        return "none"
    if v is RAISED:
        return "ERR"
    if isinstance(v, bool):
        return "T" if v else "F"
    if isinstance(v, (list, tuple)):
        return "L" + "_".join(tok_of(x) for x in v)
    f = Fraction(float(v)) if isinstance(v, float) else Fraction(v)
    return str(f.numerator) if f.denominator == 1 else f"{f.numerator}/{f.denominator}"


def val_of(tok: str, rs: random.Random):
    """a python value whose canonical token is `tok` (int / float chosen by the style PRNG)"""
    if tok == "null":
        return None
    if tok.startswith("L"):
        return [val_of(t, rs) for t in tok[1:].split("_")] if len(tok) > 1 else []
    if tok == "T":
        return True
    if tok == "F":
        return False
    f = Fraction(tok)
    if f.denominator == 1 and rs.random() < 0.6:
        return int(f)
    return float(f)


def check_tok(tok: str) -> None:
    if tok in ("T", "F"):
        return
    if tok.startswith("L"):
        for t in (tok[1:].split("_") if len(tok) > 1 else []):
            if t.startswith("L"):
                raise Malformed(tok)
            check_tok(t)
        return
    try:
        f = Fraction(tok)
    except (ValueError, ZeroDivisionError):
        raise Malformed(tok)
    if tok != (str(f.numerator) if f.denominator == 1 else f"{f.numerator}/{f.denominator}"):
        raise Malformed(tok)


# --------------------------------------------------------------------------------------
# parsing protocol lines (harness side; strict in the same way as the driver)


def parse_entries(s: str):
    if s == "-":
        return []
    out = []
    for f in s.split(","):
        parts = f.split(":")
        if len(parts) != 2:
            raise Malformed(f)
        try:
            d = int(parts[0])
        except ValueError:
            raise Malformed(f)
        if parts[1] not in ("null", "expected"):
            check_tok(parts[1])
        out.append((d, parts[1]))
    return out


def parse_updates(s: str, with_child: bool):
    if s == "-":
        return []
    out = []
    for f in s.split(";"):
        parts = f.split(":")
        child = None
        if with_child:
            if not parts:
                raise Malformed(f)
            child, parts = parts[0], parts[1:]
        if len(parts) != 4:
            raise Malformed(f)
        form, a, b, v = parts
        try:
            a = int(a)
            b = None if b == "-" else int(b)
        except ValueError:
            raise Malformed(f)
        if v != "null":
            check_tok(v)
        ok = (form in ("period", "range", "both", "pstop") and b is not None) or (form == "open" and b is None) \
            or form == "nostart" or (form == "add" and b is None and with_child)
        if not ok:
            raise Malformed(f)
        out.append((child, form, a, b, v))
    return out


def parse_queries(s: str):
    out = []
    for f in s.split(","):
        try:
            if ".." in f:
                lo, hi = f.split("..")
                out += list(range(int(lo), int(hi) + 1))
            else:
                out.append(int(f))
        except ValueError:
            raise Malformed(f)
    return out


def parse_tree(toks: list, i: int = 0):
    """prefix notation -> nested tuples, index of the next unread token"""
    if i >= len(toks):
        raise Malformed("tree")
    t = toks[i]
    try:
        if t == "P":
            return ("P", parse_entries(toks[i + 1])), i + 2
        if t == "S":
            if toks[i + 1] not in ("0", "1"):
                raise Malformed("meta")
            meta, n = toks[i + 1] == "1", int(toks[i + 2])
            i += 3
            brs = []
            for _ in range(n):
                brs.append(tuple(parse_entries(toks[i + j]) for j in range(4)))
                i += 4
            return ("S", meta, brs), i
        if t == "N":
            n = int(toks[i + 1])
            i += 2
            kids = []
            for _ in range(n):
                name = toks[i]
                sub, i = parse_tree(toks, i + 1)
                kids.append((name, sub))
            return ("N", kids), i
    except (IndexError, ValueError):
        raise Malformed("tree")
    raise Malformed(t)


def parse_line(line: str):
    f = line.split()
    if len(f) >= 2 and f[0] == "par" and f[1] == "p" and len(f) == 5:
        return ("p", parse_entries(f[2]), parse_updates(f[3], False), parse_queries(f[4]))
    if len(f) >= 5 and f[0] == "par" and f[1] == "t":
        tree, j = parse_tree(f[4:], 0)
        if j != len(f) - 4:
            raise Malformed("trailing")
        ups = parse_updates(f[2], True)
        kids = dict(tree[1]) if tree[0] == "N" else None
        for (child, form, *_rest) in ups:
            if kids is None or (form != "add" and child in kids and kids[child][0] != "P"):
                raise Malformed("child")        # (a child that does not exist is for the code to refuse: ERR)
        return ("t", tree, ups, parse_queries(f[3]))
    if len(f) >= 5 and f[0] == "par" and f[1] == "d":
        ents, j = parse_dir(f[4:], 0)
        if j != len(f) - 4:
            raise Malformed("trailing")
        return ("d", f[2], parse_queries(f[3]), ents)
    if len(f) >= 6 and f[0] == "par" and f[1] == "y":
        data, j = parse_y(f[5:], 0)
        if j != len(f) - 5:
            raise Malformed("trailing")
        return ("y", f[2], parse_updates(f[3], False), parse_queries(f[4]), data)
    if len(f) == 5 and f[0] == "par" and f[1] == "h":
        return ("h", parse_entries(f[2]), parse_ops(f[3], None), parse_queries(f[4]))
    if len(f) >= 5 and f[0] == "par" and f[1] == "ht":
        tree, j = parse_tree(f[4:], 0)
        if j != len(f) - 4:
            raise Malformed("trailing")
        return ("ht", tree, parse_ops(f[2], tree), parse_queries(f[3]))
    raise Malformed(line[:40])


def check_addr(tree, addr: str, form: str = "") -> None:
    """the child an `ht` update addresses must be a dated parameter of the tree (a group: or a child that does
    not exist, added or not in that object: the code then refuses); `add` is for groups only"""
    if form == "add":
        ok = tree[0] == "N"
    elif tree[0] == "P":
        ok = addr == "-"
    elif tree[0] == "N":
        kids = dict(tree[1])
        ok = addr not in kids or kids[addr][0] == "P"
    else:
        parts = addr.split(".")
        ok = len(parts) == 2 and parts[0].isdigit() and int(parts[0]) < len(tree[2]) and parts[1] in FIELDS
    if not ok:
        raise Malformed("child " + addr)


def parse_ops(s: str, tree):
    """[('c', src) | ('r', obj) | ('u', obj, (child, form, a, b, v))]; object indices must exist"""
    out, n = [], 1
    for f in s.split(";"):
        if not f:
            raise Malformed("op")
        k, rest = f[0], f[1:]
        try:
            if k in "cr":
                if not rest.isdigit() or int(rest) >= n:
                    raise Malformed(f)
                out.append((k, int(rest)))
                n += k == "c"
            elif k == "u":
                i, _, u = rest.partition(":")
                if not i.isdigit() or int(i) >= n:
                    raise Malformed(f)
                (upd,) = parse_updates(u, tree is not None)
                if tree is not None:
                    check_addr(tree, upd[0], upd[1])
                    if tree[0] == "S" and upd[4] in ("T", "F"):      # scale values are numbers
                        raise Malformed(f)
                out.append(("u", int(i), upd))
            else:
                raise Malformed(f)
        except ValueError:
            raise Malformed(f)
    return out


# --------------------------------------------------------------------------------------
# the implementation adapter


def data_of_entries(entries, rs: random.Random, numeric_only=False) -> dict:
    """the `{date: …}` mapping, in the declared order, each entry in a randomly chosen spelling"""
    d = {}
    for o, tok in entries:
        if tok == "expected":
            d[iso(o)] = rs.choice(["expected", {"expected": True}, {"expected": 3}])
        else:
            v = val_of(tok, rs)
            sp = rs.randrange(3)
            d[iso(o)] = v if sp == 0 else {"value": v} if sp == 1 else {"value": v, "metadata": {"reference": "r"}}
    return d


def param_data(entries, rs: random.Random) -> dict:
    d = data_of_entries(entries, rs)
    if d and rs.random() < 0.4:
        return {"description": "c06", "values": {k: (v if isinstance(v, (dict, str)) else {"value": v}) for k, v in d.items()}}
    return d


def tree_data(tree, rs: random.Random):
    if tree[0] == "P":
        return param_data(tree[1], rs)
    if tree[0] == "S":
        brs = []
        for fields in tree[2]:
            b = {}
            for name, entries in zip(FIELDS, fields):
                if entries or rs.random() < 0.15:
                    b[name] = data_of_entries(entries, rs)
            brs.append(b)
        d = {"brackets": brs}
        if tree[1]:
            d["metadata"] = {"type": "single_amount"}
        elif rs.random() < 0.2:
            d["metadata"] = {"type": "marginal_rate"}
        return d
    return {name: tree_data(sub, rs) for name, sub in tree[1]}


# --------------------------------------------------------------------------------------
# `par y`: objects built from YAML-like data (the model receives the DATA, not the declared tree)


class YKey:
    """a mapping key on a `par y` line: kind 'd' / 'm' / 'y' (a text matching INSTANT_PATTERN: full date, YYYY-MM,
    YYYY; `ord` = ordinal of its first day), 'k' (any other text), 'i' (an integer)"""
    __slots__ = ("kind", "ord", "text")

    def __init__(self, kind, ord_, text):
        self.kind, self.ord, self.text = kind, ord_, text

    def py(self):
        return int(self.text) if self.kind == "i" else self.text

    def ident(self):
        return (self.kind in "dmy", self.kind if self.kind in "dmy" else "", self.ord, self.kind == "i", self.text if self.kind not in "dmy" else "")


def parse_ykey(tok: str) -> YKey:
    if tok.startswith("k:"):
        t = tok[2:]
        if not t or (len(t) >= 4 and t[:4].isdigit() and t[:4].isascii()):
            raise Malformed(tok)
        return YKey("k", None, t)
    if tok.startswith("i:"):
        if not re.fullmatch(r"-?[0-9]+", tok[2:]):
            raise Malformed(tok)
        return YKey("i", None, str(int(tok[2:])))
    parts = tok.split("~")
    if len(parts) != 2 or not parts[1] or not parts[0] or parts[0][0] not in "dmy" or not re.fullmatch(r"-?[0-9]+", parts[0][1:]):
        raise Malformed(tok)
    return YKey(parts[0][0], int(parts[0][1:]), parts[1])


def parse_y(toks: list, i: int):
    """tokens -> (data, next index); data = None | bool | ('num', tok) | ('str', text) | list | [(YKey, data)] wrapped
    as ('map', pairs). The same fragment as the driver: distinct keys, lists of mappings or of scalars, `metadata`
    neither a list nor the empty text."""
    if i >= len(toks):
        raise Malformed("data")
    t = toks[i]
    if t == "~":
        return None, i + 1
    if t in ("b:T", "b:F"):
        return t == "b:T", i + 1
    if t.startswith("v:"):
        check_tok(t[2:])
        if t[2:] in ("T", "F") or t[2:].startswith("L"):
            raise Malformed(t)
        return ("num", t[2:]), i + 1
    if t.startswith("s:"):
        return ("str", t[2:]), i + 1
    if t[:1] in ("L", "M") and t[1:].isdigit() and t[1:].isascii():
        n = int(t[1:])
        i += 1
        if t[0] == "L":
            xs = []
            for _ in range(n):
                x, i = parse_y(toks, i)
                xs.append(x)
            is_map = lambda x: isinstance(x, tuple) and x[0] == "map"
            is_scalar = lambda x: x is None or isinstance(x, bool) or (isinstance(x, tuple) and x[0] == "num")
            if not (all(is_map(x) for x in xs) or all(is_scalar(x) for x in xs)):
                raise Malformed("list")
            return xs, i
        pairs = []
        for _ in range(n):
            if i >= len(toks):
                raise Malformed("key")
            k = parse_ykey(toks[i])
            v, i = parse_y(toks, i + 1)
            pairs.append((k, v))
        ids = [k.text for k, _ in pairs]           # as texts: the YAML loader refuses `2:` beside `"2":`, a dict does not
        if len(set(ids)) != len(ids):
            raise Malformed("duplicate key")
        for k, v in pairs:
            if k.kind == "k" and k.text == "metadata":
                if isinstance(v, list) or v == ("str", ""):
                    raise Malformed("metadata")
                break
        return ("map", pairs), i
    raise Malformed(t)


def y_py(data, rs: random.Random):
    """the python object `yaml.load` would hand over"""
    if data is None or isinstance(data, bool):
        return data
    if isinstance(data, list):
        return [y_py(x, rs) for x in data]
    if data[0] == "num":
        return val_of(data[1], rs)
    if data[0] == "str":
        return data[1]
    return {k.py(): y_py(v, rs) for k, v in data[1]}


def y_scalar_yaml(v) -> str:
    if v is None:
        return "null"
    if isinstance(v, bool):
        return "true" if v else "false"
    if isinstance(v, float):
        return repr(v)
    if isinstance(v, int):
        return str(v)
    return json.dumps(v)


def y_key_yaml(k, rs: random.Random) -> str:
    if isinstance(k, int):
        return str(k)                                   # an integer key stays an integer
    if DATE_KEY.match(k) and rs.random() < 0.6:
        return k                                        # unquoted: a YAML timestamp, handed back as text by the loader
    if PLAIN_KEY.match(k) and rs.random() < 0.7:
        return k
    return json.dumps(k)                                # quoted: text whatever it looks like (`"2015"`, `"2015-03"`, `"17"`)


def y_flow(v, rs: random.Random) -> str:
    if isinstance(v, dict):
        return "{" + ", ".join(f"{y_key_yaml(k, rs)}: {y_flow(x, rs)}" for k, x in v.items()) + "}"
    if isinstance(v, list):
        return "[" + ", ".join(y_flow(x, rs) for x in v) + "]"
    return y_scalar_yaml(v)


def y_yaml(v, rs: random.Random, ind: int = 0) -> str:
    """a YAML document for a python object: block mappings (flow style now and then, and for lists)"""
    if not isinstance(v, dict) or not v or rs.random() < 0.15:
        return " " * ind + y_flow(v, rs) + "\n"
    out = []
    for k, x in v.items():
        key = y_key_yaml(k, rs)
        if isinstance(x, dict) and x and rs.random() < 0.85:
            out.append(" " * ind + key + ":\n" + y_yaml(x, rs, ind + 2))
        else:
            out.append(" " * ind + key + ": " + y_flow(x, rs) + "\n")
    return "".join(out)


RESERVED = ("description", "metadata", "unit", "reference", "documentation")


def y_is_node(data) -> bool:
    """does `_parse_child` make a ParameterNode of this mapping (glue for the directory route only)"""
    if not (isinstance(data, tuple) and data[0] == "map"):
        return False
    keys = [k for k, _ in data[1]]
    if any(k.kind == "k" and k.text in ("values", "brackets") for k in keys):
        return False
    return any(k.kind == "k" or (k.kind == "i" and not 1000 <= int(k.text) <= 9999) for k in keys)


def y_dir_ok(data) -> bool:
    names = [k.text for k, _ in data[1] if not (k.kind == "k" and k.text in RESERVED)]
    return len(set(names)) == len(names) and all(re.fullmatch(r"[A-Za-z0-9_+'-][A-Za-z0-9_.+'-]*", n) and n != "index" for n in names)


def y_write_dir(data, path: str, rs: random.Random, order: dict) -> None:
    """the directory `ParameterNode(name, directory_path=…)` reads for a node mapping: reserved keys in index.yaml,
    one file (or sub-directory) per child; `order[path]` = the listing `os.listdir` is pinned to"""
    index, listing = {}, []
    for k, v in data[1]:
        if k.kind == "k" and k.text in RESERVED:
            index[k.text] = y_py(v, rs)
        elif not (isinstance(v, tuple) and v[0] == "map") and rs.random() < 0.5:
            index[k.py()] = y_py(v, rs)                 # not a reserved key: index.yaml is refused
        elif y_is_node(v) and y_dir_ok(v) and rs.random() < 0.5:
            sub = os.path.join(path, k.text)
            os.mkdir(sub)
            y_write_dir(v, sub, rs, order)
            listing.append(k.text)
        else:
            fn = k.text + rs.choice([".yaml", ".yml"])
            with open(os.path.join(path, fn), "w") as f:
                f.write(y_yaml(y_py(v, rs), rs))
            listing.append(fn)
    if index or rs.random() < 0.2:
        fn = "index" + rs.choice([".yaml", ".yml"])
        with open(os.path.join(path, fn), "w") as f:
            f.write(y_yaml(index, rs) if index else rs.choice(["", "{}\n"]))
        listing.insert(rs.randint(0, len(listing)), fn)
    if rs.random() < 0.3:
        with open(os.path.join(path, "notes.txt"), "w") as f:
            f.write("2020-01-01: 1\n")
        listing.insert(rs.randint(0, len(listing)), "notes.txt")
    order[os.path.abspath(path)] = listing


def y_build(root: str, data, rs: random.Random):
    """the real object, through `_parse_child` on the python mapping, `load_parameter_file` on a written YAML file,
    or (node mappings) `ParameterNode(name, directory_path=…)` on a written directory"""
    from openfisca_core.parameters import ParameterNode, helpers
    r = rs.random()
    if r < 0.5:
        import copy
        given = y_py(data, rs)
        kept = copy.deepcopy(given)
        obj = helpers._parse_child(root, given, rs.choice([None, "x.yaml"]))
        if given != kept:
            raise InputMutated("the constructors changed the mapping they were given")
        return obj
    tmp = tempfile.mkdtemp(prefix="c06y-")
    try:
        if r < 0.75 and y_is_node(data) and y_dir_ok(data):
            order: dict = {}
            y_write_dir(data, tmp, rs, order)
            real = os.listdir

            def listdir(path="."):
                return list(order.get(os.path.abspath(path), None) or real(path)) if os.path.abspath(path) in order else real(path)
            os.listdir = listdir
            try:
                return ParameterNode(root, directory_path=tmp) if rs.random() < 0.5 else helpers.load_parameter_file(tmp, root)
            finally:
                os.listdir = real
        path = os.path.join(tmp, "x" + rs.choice([".yaml", ".yml"]))
        with open(path, "w") as f:
            f.write(y_yaml(y_py(data, rs), rs))
        return helpers.load_parameter_file(path, root)
    finally:
        shutil.rmtree(tmp, ignore_errors=True)


def y_unsupported(obj) -> bool:
    """a bracket field that is not a dated parameter with numeric values (outside the model)"""
    from openfisca_core.parameters import Parameter, ParameterNode, ParameterScale
    if isinstance(obj, ParameterScale):
        for br in obj.brackets:
            for c in br.children.values():
                if not isinstance(c, Parameter):
                    return True
                if any(v.value is not None and (isinstance(v.value, bool) or not isinstance(v.value, (int, float))) for v in c.values_list):
                    return True
        return False
    if isinstance(obj, ParameterNode):
        return any(y_unsupported(c) for c in obj.children.values())
    return False


def fine_of(instant_str: str) -> str:
    if len(instant_str) == 4:
        return f"{dt.date(int(instant_str), 1, 1).toordinal()}y"
    if len(instant_str) == 7:
        return f"{dt.date(int(instant_str[:4]), int(instant_str[5:]), 1).toordinal()}m"
    return str(dt.date.fromisoformat(instant_str).toordinal())


def stage_pf(p, qs, rs) -> str:
    ents = ",".join(f"{fine_of(v.instant_str)}={'null' if v.value is None else tok_of(v.value)}" for v in p.values_list)
    return ents + "@" + ",".join(tok_of(read_at(p, q, rs)) for q in qs)


def show_y(obj, x) -> str:
    """a snapshot of `obj` (the value `x = obj(date)`): a node lists after its members the children of `obj` it
    does not expose, each with the name the error carries"""
    from openfisca_core.errors import ParameterNotFoundError
    from openfisca_core.parameters import ParameterNodeAtInstant
    if x is RAISED:
        return "ERR"
    if isinstance(x, ParameterNodeAtInstant):
        members = list(x)
        mem = [f"{k}={show_y(obj.children[k], x[k])}" for k in members]
        absent = []
        for k in obj.children:
            if k not in members:
                try:
                    getattr(x, k)
                    absent.append(f"{k}>?")
                except ParameterNotFoundError as e:         # (`e.name` is overwritten by the interpreter: read the message)
                    m = NOT_FOUND.match(str(e))
                    absent.append(f"{k}>{m.group(1) if m else '?' + str(e)}")
                except Exception as e:
                    absent.append(f"{k}>!{type(e).__name__}")
        return "{" + ",".join(mem) + "}" + ("!(" + ",".join(absent) + ")" if absent else "")
    return show_snap(x)


def impl_y(parsed, rs: random.Random) -> str:
    from openfisca_core.parameters import Parameter
    _, root, ups, qs, data = parsed
    name = "" if root == "-" else root
    try:
        obj = y_build(name, data, rs)
    except InputMutated:
        return "INPUT-MUTATED"
    except Exception:
        return "ERR"
    if y_unsupported(obj):
        return "UNSUP"
    if isinstance(obj, Parameter):
        stages = ["P", stage_pf(obj, qs, rs)]
        for (_c, form, a, b, v) in ups:
            ok = call_update(obj, form, a, b, v, rs)
            stages.append(stage_pf(obj, qs, rs) if ok else "ERR")
        return "|".join(stages)
    if ups:
        return "BAD"
    snaps = ";".join(show_y(obj, read_at(obj, q, rs)) for q in qs)
    probe = alias_probe(obj, qs, rs)
    return "T|" + snaps + "|D:" + ",".join(str(d.name) for d in obj.get_descendants()) + ("|" + probe if probe else "")


ABSENT_GROUP = re.compile(r"!\([^()]*\)")
NOT_FOUND = re.compile(r"^The parameter '(.*)' was not found in the \d{4}-\d{2}-\d{2} tax and benefit system\.$")


def ticks(tree):
    """the declared tree of a `par y` case with its entries in ticks (3 per day: `YYYY` < `YYYY-MM` < full spelling
    of the same first day), so that the naive reference functions above apply unchanged"""
    rank = {"d": 0, "m": -1, "y": -2}
    ent = lambda es: [(3 * o + rank[sp], tok) for o, tok, sp in es]
    if tree[0] == "P":
        return ("P", ent(tree[1]))
    if tree[0] == "S":
        return ("S", tree[1], [tuple(ent(f) for f in br) for br in tree[2]])
    return ("N", [(k, ticks(sub)) for k, sub in tree[1]])


def oracle_y(case: Case, parsed, out: str):
    """`payload["tree"]` is the declared tree the data was written from"""
    tree = (case.payload or {}).get("tree")
    if tree is None:
        return None
    _, root, ups, qs, _data = parsed
    if out in ("ERR", "BAD", "UNSUP"):
        return ("construct", f"building the object from well-formed data answered {out}")
    t = ticks(tree)
    parts = out.split("|")
    if t[0] == "P":
        if parts[0] != "P" or len(parts) != len(ups) + 2:
            return ("shape", "a parameter was declared; got " + out[:60])
        stages = parts[1:]
        reads0 = stages[0].split("@")[1].split(",")
        for q, r in zip(qs, reads0):
            w = latest(t[1], 3 * q)
            if r != w:
                sig = "undefined-before-first" if not any(o <= 3 * q and tk != "expected" for o, tk in t[1]) else "get-latest"
                return (sig, f"fresh parameter reads {r} at {iso(q)}; its latest entry on or before that date gives {w}")
        prev = reads0
        for i, (_c, form, a, b, v) in enumerate(ups, 1):
            if stages[i] == "ERR":
                return ("update-raised", f"update #{i} ({form} {iso(a)}..{iso(b) if b is not None else 'open'}) raised")
            cur = stages[i].split("@")[1].split(",")
            vt = "none" if v == "null" else v
            for q, r, pr in zip(qs, cur, prev):
                inside = a <= q and (b is None or q <= b)
                if inside and r != vt:
                    return ("update-inside", f"after update #{i} ({form} {iso(a)}..{iso(b) if b is not None else 'open'} := {v}) "
                                             f"the value at {iso(q)} (inside the range) is {r}")
                if not inside and r != pr:
                    return ("update-outside", f"after update #{i} ({form} {iso(a)}..{iso(b) if b is not None else 'open'} := {v}) "
                                              f"the value at {iso(q)} (outside the range) changed from {pr} to {r}")
            prev = cur
        return None
    if parts[-1].startswith("ALIAS"):
        return ("result-aliased", "a read shows what the caller did to the object an EARLIER read had returned: " + parts[-1][:400])
    if parts[0] != "T" or len(parts) != 3:
        return ("shape", "a group or scale was declared; got " + out[:60])
    snaps = parts[1].split(";")
    if len(snaps) != len(qs):
        return ("shape", "wrong number of snapshots")
    for q, sn in zip(qs, snaps):
        want = expect_snap(t, {}, 3 * q)
        got = parse_snap(ABSENT_GROUP.sub("", sn))
        r = diff_snap(want, got)
        if r:
            return (r[0], f"{iso(q)}: {r[1]}")
    return None


# ---- construction routes (implementation-side glue: the model receives the declared tree) -------------------

DATE_KEY = re.compile(r"^\d{4}-\d{2}-\d{2}$")
PLAIN_KEY = re.compile(r"^[A-Za-z_][A-Za-z0-9_]*$")


def yaml_scalar(v) -> str:
    if v is None:
        return "null"
    if isinstance(v, bool):
        return "true" if v else "false"
    if isinstance(v, list):
        return "[" + ", ".join(yaml_scalar(x) for x in v) + "]"
    if isinstance(v, float):
        return repr(v)
    return str(v)                    # int, or the bare word `expected`


def yaml_key(k, rs: random.Random) -> str:
    if isinstance(k, int):
        return str(k)
    if DATE_KEY.match(k):            # unquoted: a YAML timestamp, handed back as text by the loader's constructor
        return k if rs.random() < 0.7 else f"'{k}'"
    if k.isdigit():
        return k if rs.random() < 0.5 else f'"{k}"'      # unquoted: loaded as an int, turned into text by the node
    return k if PLAIN_KEY.match(k) else json.dumps(k)


def yaml_block(d: dict, rs: random.Random, ind: int = 0) -> str:
    """a YAML document for the same mapping the `data=` route receives"""
    if not d:
        return " " * ind + "{}\n"
    pad, out = " " * ind, []
    for k, v in d.items():
        key = yaml_key(k, rs)
        if isinstance(v, dict):
            out.append(f"{pad}{key}:\n" + yaml_block(v, rs, ind + 2) if v else f"{pad}{key}: {{}}\n")
        elif isinstance(v, list) and any(isinstance(x, dict) for x in v):
            out.append(f"{pad}{key}:\n" + "".join(f"{pad}- {json.dumps(x)}\n" for x in v))
        elif isinstance(v, list) and not v and k == "brackets":
            out.append(f"{pad}{key}: []\n")
        else:
            out.append(f"{pad}{key}: {yaml_scalar(v)}\n")
    return "".join(out)


NODE_NOISE = [("description", "a group"), ("documentation", "c06"), ("metadata", {"unit": "currency"}), ("unit", "/1"),
              ("reference", "https://example.org")]


def node_data(tree, rs: random.Random) -> dict:
    """the mapping of a node for the `data=` / YAML routes: reserved keys interleaved (they are not members),
    all-digit names as int keys now and then"""
    d = {}
    noise = [kv for kv in NODE_NOISE if rs.random() < 0.15]
    for name, sub in tree[1]:
        if noise and rs.random() < 0.5:
            k, v = noise.pop()
            d[k] = v
        key = int(name) if name.isdigit() and str(int(name)) == name and rs.random() < 0.5 else name
        d[key] = node_data(sub, rs) if sub[0] == "N" else tree_data(sub, rs)
    d.update(noise)
    return d


def write_dir(tree, path: str, rs: random.Random) -> None:
    """a directory of YAML files for a node: one file (or sub-directory) per child, `index.yaml` for the
    node's own description, files of other types (ignored by the loader)"""
    if rs.random() < 0.5:
        with open(os.path.join(path, "index" + rs.choice([".yaml", ".yml"])), "w") as f:
            f.write(rs.choice(["description: a group\nmetadata:\n  unit: currency\n", "documentation: c06\n", "{}\n",
                               "reference: https://example.org\nunit: /1\n"]))
    if rs.random() < 0.4:
        with open(os.path.join(path, rs.choice(["README.txt", "notes.md", "zz.json", "yaml"])), "w") as f:
            f.write("2020-01-01: 1\n")
    for name, sub in tree[1]:
        if sub[0] == "N" and rs.random() < 0.6:
            os.mkdir(os.path.join(path, name))
            write_dir(sub, os.path.join(path, name), rs)
        else:
            data = node_data(sub, rs) if sub[0] == "N" else tree_data(sub, rs)
            with open(os.path.join(path, name + rs.choice([".yaml", ".yml"])), "w") as f:
                f.write(yaml_block(data, rs))


def from_yaml_file(data: dict, name: str, rs: random.Random):
    from openfisca_core.parameters import helpers
    tmp = tempfile.mkdtemp(prefix="c06-")
    try:
        path = os.path.join(tmp, "x" + rs.choice([".yaml", ".yml"]))
        with open(path, "w") as f:
            f.write(yaml_block(data, rs))
        return helpers.load_parameter_file(path, name)
    finally:
        shutil.rmtree(tmp, ignore_errors=True)


def build_param(entries, name: str, rs: random.Random):
    from openfisca_core.parameters import Parameter, ValuesHistory
    data = param_data(entries, rs)
    r = rs.random()
    if r < 0.12:
        return from_yaml_file(data, name, rs)
    return (ValuesHistory if r < 0.2 else Parameter)(name, data)


def build_obj(tree, name: str, rs: random.Random, st: dict, allow_merge: bool = True):
    """the real object for a declared tree, each node through a randomly chosen construction route.
    st["unordered"] is set when a directory was read (children then come in os.listdir order)."""
    from openfisca_core.parameters import Parameter, ParameterNode, ParameterScale
    if tree[0] == "P":
        return build_param(tree[1], name, rs)
    if tree[0] == "S":
        data = tree_data(tree, rs)
        return from_yaml_file(data, name, rs) if rs.random() < 0.15 else ParameterScale(name, data, None)
    names = [k for k, _ in tree[1]]
    route = rs.choices(["data", "dir", "add", "merge"], [5, 2, 2, 2 if allow_merge and len(names) > 1 else 0])[0]
    if len(set(names)) < len(names):
        route = "add"                                   # only add_child can be offered the same name twice
    if route == "data":
        return ParameterNode(name, data=node_data(tree, rs))
    if route == "dir":
        tmp = tempfile.mkdtemp(prefix="c06-")
        try:
            write_dir(tree, tmp, rs)
            st["unordered"] = True
            return ParameterNode(name, directory_path=tmp)
        finally:
            shutil.rmtree(tmp, ignore_errors=True)
    sub_name = lambda k: f"{name}.{k}" if name else k
    if route == "add":
        node = ParameterNode(name, data={kv[0]: kv[1] for kv in NODE_NOISE if rs.random() < 0.1})
        for k, sub in tree[1]:
            node.add_child(k, build_obj(sub, sub_name(k), rs, st))
        if names and rs.random() < 0.5:                 # a second child of an existing name is refused ...
            try:
                node.add_child(rs.choice(names), Parameter("intruder", {"0001-01-01": 424242}))
            except ValueError:
                pass
        if rs.random() < 0.3:                           # ... and so is something that is not a parameter
            try:
                node.add_child("zz_not_a_parameter", rs.choice([5, {"2020-01-01": 1}, None]))
            except TypeError:
                pass
        return node
    j = rs.randint(0, len(tree[1]))                      # merge: the first j children, then the others
    a = build_obj(("N", tree[1][:j]), name, rs, st, False) if j else ParameterNode(name, data={})
    b = (build_obj(("N", tree[1][j:]), rs.choice([name, "other"]), rs, st, False) if j < len(tree[1])
         else ParameterNode("other", data={}))
    a.merge(b)
    return a


def period_arg(a: int, b: int, rs: random.Random):
    """a `period=` argument denoting exactly the days a..b (a <= b), in a randomly chosen spelling"""
    from openfisca_core import periods
    da, db = D(a), D(b)
    n = b - a + 1
    forms = [f"day:{da.isoformat()}:{n}", f"weekday:{da.isoformat()}:{n}"]
    if n == 1:
        forms.append(da.isoformat())
    if da.weekday() == 0 and n % 7 == 0:
        forms.append(f"week:{da.isoformat()}:{n // 7}")
    if da.day == 1 and db.day == calendar.monthrange(db.year, db.month)[1]:
        k = (db.year - da.year) * 12 + db.month - da.month + 1
        forms += [f"month:{da.year:04d}-{da.month:02d}:{k}"] * 2
        if k == 1:
            forms += [f"{da.year:04d}-{da.month:02d}"] * 2
        if da.month == 1 and k % 12 == 0:
            forms += [f"year:{da.year:04d}:{k // 12}"] * 2
    s = rs.choice(forms)
    return periods.period(s) if rs.random() < 0.4 else s


def update_kwargs(form: str, a: int, b, vtok: str, rs: random.Random) -> dict:
    """the keyword arguments of `Parameter.update` for the requested call form"""
    from openfisca_core import periods
    v = val_of(vtok, rs)
    inst = lambda o: periods.instant(iso(o))
    start = lambda o: rs.choice([inst(o), inst(o), iso(o), D(o)])
    if form == "period":
        if a > b:   # no period denotes a reversed range: use the start/stop form (unclaimed anyway)
            return dict(start=inst(a), stop=inst(b), value=v)
        return dict(period=period_arg(a, b, rs), value=v)
    if form == "range":
        return dict(start=start(a), stop=inst(b), value=v)
    if form == "open":
        return dict(start=start(a), value=v)
    if form == "both":
        return dict(period=period_arg(min(a, b), max(a, b), rs), start=inst(a), value=v)
    if form == "pstop":
        return dict(period=period_arg(min(a, b), max(a, b), rs), stop=inst(b), value=v)
    if form == "nostart":
        return dict(stop=None if b is None else inst(b), value=v)
    raise Malformed(form)


def call_add(node, child: str, a: int, vtok: str, rs: random.Random) -> bool:
    """node.add_child(child, <a new Parameter holding one entry>); False when the implementation raised"""
    from openfisca_core.parameters import Parameter
    try:
        v = val_of(vtok, rs)
        node.add_child(child, Parameter(f"{node.name}.{child}" if node.name else child, {iso(a): v if rs.random() < 0.5 else {"value": v}}))
    except Exception:
        return False
    return True


def call_update(p, form: str, a: int, b, vtok: str, rs: random.Random) -> bool:
    """issue the update through the public API; False when the implementation raised"""
    kw = update_kwargs(form, a, b, vtok, rs)
    try:
        p.update(**kw)
    except Exception:
        return False
    return True


# Every spelling of a date that `periods.instant` accepts (checked against the pinned tree: ISO string,
# Instant, date, datetime, (y, m, d) tuple / list, any Period -> its start, ISO week date `YYYY-Www-D`, and when
# the date allows it `YYYY-Www` (Mondays), `YYYY-MM` / (y, m) / month Period (first of month), `YYYY` / int /
# (y,) / year Period (1 January)). Which date a spelling denotes is computed here with datetime only.
SPELL_WEIGHTS = {"iso": 5, "instant": 3, "date": 3, "weekdate": 5, "week": 6, "datetime": 1, "tuple": 1, "list": 1,
                 "period-day": 2, "period-str": 1, "period-weekday": 1, "period-unaligned": 1, "period-week": 2,
                 "month-str": 6, "month-tuple": 2, "period-month": 3, "year-str": 6, "year-int": 6, "year-tuple": 2,
                 "period-year": 3}
_SPELL_CACHE: dict = {}


def valid_spellings(o: int):
    r = _SPELL_CACHE.get(o)
    if r is None:
        d = D(o)
        names = ["iso", "instant", "date", "weekdate", "datetime", "tuple", "list", "period-day", "period-str",
                 "period-weekday", "period-unaligned"]
        if d.isoweekday() == 1:
            names += ["week", "period-week"]
        if d.day == 1:
            names += ["month-str", "month-tuple", "period-month"]
            if d.month == 1:
                names += ["year-str", "year-int", "year-tuple", "period-year"]
        r = _SPELL_CACHE[o] = (names, [SPELL_WEIGHTS[n] for n in names])
    return r


def spell(o: int, name: str, rs: random.Random):
    from openfisca_core import periods
    from openfisca_core.periods import DateUnit, Instant, Period
    d = D(o)
    y, m, dd = d.year, d.month, d.day
    inst = lambda: Instant((y, m, dd))
    n = rs.choice([1, 1, 2, 3])
    if name == "iso":
        return d.isoformat()
    if name == "instant":
        return inst()
    if name == "date":
        return d
    if name == "datetime":
        return dt.datetime(y, m, dd, rs.randrange(24), rs.randrange(60))
    if name == "tuple":
        return (y, m, dd)
    if name == "list":
        return [y, m, dd]
    if name in ("weekdate", "week"):
        iy, iw, iwd = d.isocalendar()
        return f"{iy:04d}-W{iw:02d}-{iwd}" if name == "weekdate" else f"{iy:04d}-W{iw:02d}"
    if name == "period-day":
        return Period((DateUnit.DAY, inst(), n))
    if name == "period-str":
        return periods.period(f"day:{d.isoformat()}:{n}")
    if name == "period-weekday":
        return Period((DateUnit.WEEKDAY, inst(), n))
    if name == "period-unaligned":
        return Period((rs.choice([DateUnit.MONTH, DateUnit.YEAR, DateUnit.WEEK]), inst(), n))
    if name == "period-week":
        return Period((DateUnit.WEEK, inst(), n))
    if name == "month-str":
        return f"{y:04d}-{m:02d}"
    if name == "month-tuple":
        return rs.choice([(y, m), [y, m]])
    if name == "period-month":
        return rs.choice([Period((DateUnit.MONTH, inst(), n)), periods.period(f"{y:04d}-{m:02d}")])
    if name == "year-str":
        return f"{y:04d}"
    if name == "year-int":
        return y
    if name == "year-tuple":
        return rs.choice([(y,), [y]])
    if name == "period-year":
        return rs.choice([Period((DateUnit.YEAR, inst(), n)), periods.period(y)])
    raise ValueError(name)


def read_at(obj, o: int, rs: random.Random):
    names, weights = valid_spellings(o)
    forced = getattr(rs, "force_spelling", None)
    name = forced if forced in names else rs.choices(names, weights)[0]
    q = spell(o, name, rs)
    call = rs.random() < 0.5
    try:
        return obj(q) if call else obj.get_at_instant(q)
    except Exception:
        return RAISED


ACCESS_FORMS = ("iter", "in", "attr", "item")


def members_of(x, declared: list, rs: random.Random, unordered: bool):
    """[(name, value)] of a node-at-instant, found through one of its access forms: iteration (+ item or
    attribute), `name in node`, attribute access (absent = ParameterNotFoundError), item access (absent =
    KeyError). For the last three every declared child name is tried, defined at that date or not."""
    from openfisca_core.errors import ParameterNotFoundError
    listed = list(x)
    form = rs.choice(ACCESS_FORMS)
    out = []
    if form == "iter":
        names = sorted(listed, key=lambda k: declared.index(k) if k in declared else len(declared)) if unordered else listed
        return [(k, x[k] if rs.random() < 0.5 else getattr(x, k)) for k in names]
    for k in dict.fromkeys(declared):
        if form == "in":
            if k in x:
                out.append((k, getattr(x, k) if rs.random() < 0.5 else x[k]))
        elif form == "attr":
            try:
                out.append((k, getattr(x, k)))
            except ParameterNotFoundError:
                pass
        else:
            try:
                out.append((k, x[k]))
            except KeyError:
                pass
    out += [(k, x[k]) for k in listed if k not in declared]       # a member nobody declared would show here
    return out


def show_snap(x, tree=None, rs=None, unordered=False) -> str:
    from openfisca_core.parameters import ParameterNodeAtInstant
    if x is None:
        return "none"
    if x is RAISED:
        return "ERR"
    if isinstance(x, ParameterNodeAtInstant):
        if tree is None or tree[0] != "N":
            return "{" + ",".join(f"{k}={show_snap(x[k])}" for k in list(x)) + "}"
        subs = {}
        for k, sub in tree[1]:
            subs.setdefault(k, sub)
        try:
            mem = members_of(x, [k for k, _ in tree[1]], rs, unordered)
        except Exception:
            return "ERR"
        return "{" + ",".join(f"{k}={show_snap(v, subs.get(k), rs, unordered)}" for k, v in mem) + "}"
    cls = type(x).__name__
    if cls in KIND_OF_CLASS:
        vals = x.amounts if hasattr(x, "amounts") else x.rates
        return KIND_OF_CLASS[cls] + "[" + ",".join(f"{tok_of(t)}:{tok_of(r)}" for t, r in zip(x.thresholds, vals)) + "]"
    return tok_of(x)


def _spoil(x) -> None:
    """mutate, through its public attributes, what a read returned (a tax scale's lists, a group's members)"""
    from openfisca_core.parameters import ParameterNodeAtInstant
    if isinstance(x, ParameterNodeAtInstant):
        for k in list(x):
            _spoil(x[k])
        x.add_child("zz_spoiled", 424242)
    elif type(x).__name__ in KIND_OF_CLASS:
        x.thresholds.append(987654321)
        (x.amounts if hasattr(x, "amounts") else x.rates).append(0.5)
        if x.thresholds:
            x.thresholds[0] = -1


def alias_probe(obj, qs, rs: random.Random) -> str:
    """Read, spoil what came back, read again: a later read must not show what a caller did to an earlier result
    (each evaluation at a date builds its own objects). '' when it does not."""
    if not qs or rs.random() < 0.6:
        return ""
    q = rs.choice(qs)
    try:
        first = obj(iso(q))
        before = show_snap(first)
        _spoil(first)
        after = show_snap(obj(iso(q)))
    except Exception as e:
        return f"ALIAS-PROBE-RAISED:{type(e).__name__}"
    return "" if before == after else f"ALIASED@{q}:{before}->{after}"


def stage_p(p, qs, rs) -> str:
    ents = ",".join(f"{dt.date.fromisoformat(v.instant_str).toordinal()}={'null' if v.value is None else tok_of(v.value)}"
                    for v in p.values_list)
    return ents + "@" + ",".join(tok_of(read_at(p, q, rs)) for q in qs)


def impl(case: Case) -> str:
    from openfisca_core.parameters import Parameter, ParameterNode, ParameterScale
    try:
        parsed = parse_line(case.line)
    except Malformed:
        return "BAD"
    rs = random.Random((case.payload or {}).get("style", 0))
    rs.force_spelling = (case.payload or {}).get("spell")
    if parsed[0] in ("h", "ht"):
        return impl_history(parsed, rs)
    if parsed[0] == "y":
        return impl_y(parsed, rs)
    if parsed[0] == "d":
        return impl_d(parsed, rs)
    if parsed[0] == "p":
        _, entries, ups, qs = parsed
        try:
            p = build_param(entries, "p", rs)
        except Exception:
            return "ERR"
        stages = [stage_p(p, qs, rs)]
        for (_c, form, a, b, v) in ups:
            ok = call_update(p, form, a, b, v, rs)
            stages.append(stage_p(p, qs, rs) if ok else "ERR")
        return "|".join(stages)
    _, tree, ups, qs = parsed
    st: dict = {}
    try:
        obj = build_obj(tree, "n", rs, st)
    except Exception:
        return "ERR"
    cur = {"tree": tree}
    stage = lambda: ";".join(show_snap(read_at(obj, q, rs), cur["tree"], rs, st.get("unordered", False)) for q in qs)
    stages = [stage()]
    for (child, form, a, b, v) in ups:
        if form == "add":
            if call_add(obj, child, a, v, rs):
                cur["tree"] = ("N", list(cur["tree"][1]) + [(child, ("P", [(a, v)]))])    # (the names `members_of` asks for)
                stages.append(stage())
            else:
                stages.append("ERR")
            continue
        try:                 # a declared child that cannot be reached counts as an update that raised
            target = obj.children[child] if rs.random() < 0.5 else getattr(obj, child)
        except (KeyError, AttributeError):
            stages.append("ERR")
            continue
        ok = call_update(target, form, a, b, v, rs)
        stages.append(stage() if ok else "ERR")
    probe = alias_probe(obj, qs, rs)
    if probe:
        stages.append(probe)
    return "|".join(stages)


def target_of(obj, tree, addr: str, rs: random.Random):
    """the real Parameter an `ht` update addresses"""
    if tree[0] == "P":
        return obj
    if tree[0] == "N":
        return obj.children[addr] if rs.random() < 0.5 else getattr(obj, addr)
    i, field = addr.split(".")
    br = obj.brackets[int(i)] if rs.random() < 0.5 else obj[int(i)]
    return br.children[field] if rs.random() < 0.5 else getattr(br, field)


def impl_history(parsed, rs: random.Random) -> str:
    from openfisca_core.parameters import Parameter
    kind, first, ops, qs = parsed
    st: dict = {}
    try:
        objs = [build_param(first, "p", rs) if kind == "h" else build_obj(first, "n", rs, st)]
    except Exception:
        return "ERR"
    unordered = st.get("unordered", False)
    out = []
    added: dict = {}           # per object: the children added to it (the names `members_of` asks for, beside the declared ones)
    for op in ops:
        if op[0] == "c":
            objs.append(objs[op[1]].clone())
            added[id(objs[-1])] = list(added.get(id(objs[op[1]]), []))
            # a fresh clone of a Parameter compares equal to its source (`Parameter.__eq__`: name and values list)
            out.append("c" if kind != "h" or (objs[-1] == objs[op[1]] and objs[-1] is not objs[op[1]]) else "c-differs")
        elif op[0] == "r":
            o = objs[op[1]]
            shape = first if not added.get(id(o)) else ("N", list(first[1]) + added[id(o)])
            out.append(stage_p(o, qs, rs) if kind == "h"
                       else ";".join(show_snap(read_at(o, q, rs), shape, rs, unordered) for q in qs))
        else:
            _, i, (child, form, a, b, v) = op
            if form == "add":
                ok = call_add(objs[i], child, a, v, rs)
                if ok:
                    added.setdefault(id(objs[i]), []).append((child, ("P", [(a, v)])))
                out.append("u" if ok else "ERR")
                continue
            try:
                target = objs[i] if kind == "h" else target_of(objs[i], first, child, rs)
            except (KeyError, AttributeError, IndexError):
                out.append("ERR")
                continue
            out.append("u" if call_update(target, form, a, b, v, rs) else "ERR")
    return "|".join(out)


# --------------------------------------------------------------------------------------
# the oracle: the property statement, computed naively from the declared data


def latest(entries, q: int) -> str:
    """value token of the declared (non-placeholder) entry with the greatest date <= q"""
    best = None
    for o, tok in entries:
        if tok != "expected" and o <= q and (best is None or o > best[0]):
            best = (o, tok)
    return "none" if best is None or best[1] == "null" else best[1]


def overlay(entries, ups, q: int) -> str:
    """value after a sequence of (a, b|None, vtok) updates: the last one covering q wins"""
    v = latest(entries, q)
    for a, b, vt in ups:
        if a <= q and (b is None or q <= b):
            v = "none" if vt == "null" else vt
    return v


def _rat(tok: str) -> Fraction:
    return Fraction(tok)


def _show_rat(f: Fraction) -> str:
    return str(f.numerator) if f.denominator == 1 else f"{f.numerator}/{f.denominator}"


def expect_scale(meta: bool, brs, q: int, ups: dict | None = None):
    ups = ups or {}
    at = [[overlay(f, ups.get(f"{i}.{FIELDS[j]}", []), q) for j, f in enumerate(fields)]
          for i, fields in enumerate(brs)]                     # threshold, rate, amount, average_rate
    if meta:
        kind, col = "single_amount", 2
    elif any(b[2] != "none" for b in at):
        kind, col = "marginal_amount", 2
    elif any(b[3] != "none" for b in at):
        kind, col = "linear_average_rate", 3
    else:
        kind, col = "marginal_rate", 1
    rows: dict = {}
    for b in at:
        if b[0] != "none" and b[col] != "none":
            rows[_rat(b[0])] = rows.get(_rat(b[0]), Fraction(0)) + _rat(b[col])
    return ("scale", kind, [(_show_rat(t), _show_rat(rows[t])) for t in sorted(rows)])


def expect_snap(tree, ups: dict, q: int):
    """('val', tok) | ('scale', kind, rows) | ('node', [(name, snap)]) | None.
    `ups`: the updates this object received, per address ('-' = the parameter itself, a child name of the
    top node, 'i.field' of a top-level scale), each a list of (a, b|None, value token)"""
    if tree[0] == "P":
        v = overlay(tree[1], ups.get("-", []), q)
        return None if v == "none" else ("val", v)
    if tree[0] == "S":
        return expect_scale(tree[1], tree[2], q, ups)
    kids = []
    for name, sub in tree[1]:
        s = expect_snap(sub, {"-": ups.get(name, [])} if sub[0] == "P" else {}, q)
        if s is not None:                      # exactly the members defined at q
            kids.append((name, s))
    return ("node", kids)


def parse_snap(s: str):
    """inverse of show_snap"""
    def go(i):
        if s.startswith("none", i) and (i + 4 == len(s) or s[i + 4] in ",}"):
            return None, i + 4
        if s[i] == "{":
            kids = []
            i += 1
            while s[i] != "}":
                j = s.index("=", i)
                name = s[i:j]
                sub, i = go(j + 1)
                kids.append((name, sub))
                if s[i] == ",":
                    i += 1
            return ("node", kids), i + 1
        j = i
        while j < len(s) and s[j] not in ",}[":
            j += 1
        if j < len(s) and s[j] == "[":
            k = s.index("]", j)
            body = s[j + 1:k]
            rows = [tuple(r.split(":")) for r in body.split(",")] if body else []
            return ("scale", s[i:j], rows), k + 1
        return ("val", s[i:j]), j
    r, i = go(0)
    if i != len(s):
        raise ValueError("trailing " + s[i:])
    return r


def diff_snap(want, got, path="") -> tuple | None:
    if want == got:
        return None
    if want is None or got is None or want[0] != got[0]:
        return ("node-members", f"{path or 'top'}: expected {want}, got {got}")
    if want[0] == "node":
        wn, gn = [k for k, _ in want[1]], [k for k, _ in got[1]]
        if wn != gn:
            return ("node-members", f"{path or 'top'}: members {gn}, the children defined at that date are {wn}")
        for (k, w), (_, g) in zip(want[1], got[1]):
            r = diff_snap(w, g, path + "." + k)
            if r:
                return r
        return None
    if want[0] == "scale":
        return ("scale-brackets", f"{path or 'top'}: scale {got[1:]}, the brackets defined at that date give {want[1:]}")
    return ("node-values", f"{path or 'top'}: value {got[1]}, the child reads {want[1]}")


def _order(stage: str, when: str):
    """`values_list` keeps one entry per date, most recent first (otherwise "its most recent entry on or
    before a date" is not well defined)"""
    ents = stage.split("@")[0]
    dates = [int(e.split("=")[0]) for e in ents.split(",")] if ents else []
    for x, y in zip(dates, dates[1:]):
        if not y < x:
            return ("values-list-order", f"after {when} values_list is not strictly decreasing by date: "
                                         f"{iso(x)} is followed by {iso(y)}")
    return None


def oracle(case: Case, out: str):
    if not case.claimed:
        return None
    try:
        parsed = parse_line(case.line)
    except Malformed:
        return None
    if parsed[0] == "y":
        return oracle_y(case, parsed, out)
    if parsed[0] == "d":
        return oracle_y(case, ("y", parsed[1], [], parsed[2], None), out)
    if out == "ERR" or out == "BAD":
        return ("construct", "building the parameter from well-formed data raised")
    stages = out.split("|")
    if parsed[0] in ("h", "ht"):
        return oracle_history(parsed, stages)
    if parsed[0] == "p":
        _, entries, ups, qs = parsed
        if len(stages) != len(ups) + 1:
            return ("shape", "wrong number of stages")
        reads0 = stages[0].split("@")[1].split(",")
        for q, r in zip(qs, reads0):
            w = latest(entries, q)
            if r != w:
                sig = "undefined-before-first" if not any(o <= q and t != "expected" for o, t in entries) else "get-latest"
                return (sig, f"fresh parameter reads {r} at {iso(q)}; its latest entry on or before that date gives {w}")
        r = _order(stages[0], "construction")
        if r:
            return r
        prev = reads0
        for i, (_c, form, a, b, v) in enumerate(ups, 1):
            if stages[i] == "ERR":
                return ("update-raised", f"update #{i} ({form} {iso(a)}..{iso(b) if b is not None else 'open'}) raised")
            cur = stages[i].split("@")[1].split(",")
            r = _order(stages[i], f"update #{i} ({form} {iso(a)}..{iso(b) if b is not None else 'open'})")
            if r:
                return r
            vt = "none" if v == "null" else v
            for q, r, pr in zip(qs, cur, prev):
                inside = a <= q and (b is None or q <= b)
                if inside and r != vt:
                    return ("update-inside", f"after update #{i} ({form} {iso(a)}..{iso(b) if b is not None else 'open'} := {v}) "
                                             f"the value at {iso(q)} (inside the range) is {r}")
                if not inside and r != pr:
                    return ("update-outside", f"after update #{i} ({form} {iso(a)}..{iso(b) if b is not None else 'open'} := {v}) "
                                              f"the value at {iso(q)} (outside the range) changed from {pr} to {r}")
            prev = cur
        return None
    _, tree, ups, qs = parsed
    if stages and stages[-1].startswith("ALIAS"):
        return ("result-aliased", "a read shows what the caller did to the object an EARLIER read had returned (each evaluation "
                                  "at a date must build its own): " + stages[-1][:400])
    if len(stages) != len(ups) + 1:
        return ("shape", "wrong number of stages")
    applied: dict = {}
    for i, st in enumerate(stages):
        if i > 0:
            child, form, a, b, v = ups[i - 1]
            if st == "ERR":
                return ("update-raised", f"update #{i} of child {child} raised")
            if form == "add":
                tree = ("N", list(tree[1]) + [(child, ("P", [(a, v)]))])
            else:
                applied.setdefault(child, []).append((a, b, v))
        snaps = st.split(";")
        if len(snaps) != len(qs):
            return ("shape", "wrong number of snapshots")
        for q, s in zip(qs, snaps):
            want = expect_snap(tree, applied, q)
            r = diff_snap(want, parse_snap(s))
            if r:
                return (r[0], f"stage {i}, {iso(q)}: {r[1]}")
    return None


def oracle_history(parsed, items):
    """Each object reads what its OWN history says: its declared entries overlaid by the updates addressed
    to it (and, for a clone, those its source had received when it was cloned) — whatever was done to, or
    read from, the other objects in between."""
    kind, first, ops, qs = parsed
    if len(items) != len(ops):
        return ("shape", "wrong number of answers")
    own: list = [{}]                       # per object: address -> [(a, b, value token)]
    for k, (op, it) in enumerate(zip(ops, items), 1):
        if op[0] == "c":
            own.append({a: list(u) for a, u in own[op[1]].items()})
        elif op[0] == "u":
            _, i, (child, form, a, b, v) = op
            if it == "ERR":
                return ("update-raised", f"op #{k}: update of object {i} ({form} {iso(a)}..{iso(b) if b is not None else 'open'}) raised")
            if form == "add":
                own[i].setdefault("+", []).append((child, ("P", [(a, v)])))
            else:
                own[i].setdefault(child if kind == "ht" else "-", []).append((a, b, v))
        else:
            i = op[1]
            pre = "clone:" if len(own) > 1 else ""
            what = f"op #{k}: object {i}" + (" (a clone)" if i > 0 else " (the original)") + f" of {len(own)}"
            if kind == "h":
                r = _order(it, what)
                if r:
                    return r
                reads = it.split("@")[1].split(",")
                if len(reads) != len(qs):
                    return ("shape", "wrong number of reads")
                mine = own[i].get("-", [])
                for q, r in zip(qs, reads):
                    w = overlay(first, mine, q)
                    if r != w:
                        cov = [u for u in mine if u[0] <= q and (u[1] is None or q <= u[1])]
                        sig = "update-inside" if cov else "update-outside" if mine else "get-latest"
                        return (pre + sig, f"{what} reads {r} at {iso(q)}; its own entries and the {len(mine)} update(s) "
                                           f"addressed to it give {w}")
            else:
                snaps = it.split(";")
                if len(snaps) != len(qs):
                    return ("shape", "wrong number of snapshots")
                mine = first if not own[i].get("+") else ("N", list(first[1]) + own[i]["+"])
                for q, s in zip(qs, snaps):
                    r = diff_snap(expect_snap(mine, own[i], q), parse_snap(s))
                    if r:
                        return (pre + r[0], f"{what}, {iso(q)}: {r[1]}")
    return None


def nontrivial(case: Case, out: str) -> bool:
    stages = out.split("|")
    if case.line.startswith("par y") or case.line.startswith("par d"):
        if stages[0] == "P":
            reads = [s.split("@")[1] for s in stages[1:] if "@" in s]
            return any(len(set(r.split(","))) > 1 for r in reads)
        return stages[0] == "T" and len(stages) > 1 and len(set(stages[1].split(";"))) > 1
    if case.line.startswith("par h"):
        reads = {s for s in stages if s not in ("c", "u", "ERR", "BAD")}
        return len(reads) > 1
    if case.line.startswith("par p"):
        reads = [s.split("@")[1] for s in stages if "@" in s]
        if len(reads) >= 2:
            return any(x != y for x, y in zip(reads, reads[1:]))
        return len(reads) == 1 and len(set(reads[0].split(","))) > 1
    if stages and stages[0] not in ("ERR", "BAD"):
        return len(set(stages[0].split(";"))) > 1
    return False


# --------------------------------------------------------------------------------------
# generation

# windows start here; several straddle a New Year where the ISO year differs from the civil year (2020-W53 runs to
# 2021-01-03, 2015-W53 to 2016-01-03, 2018-12-31 and 2024-12-30 belong to W01 of the next ISO year, 2026-W53)
BASES = [dt.date(2019, 12, 10), dt.date(2020, 1, 25), dt.date(2021, 1, 20), dt.date(2023, 12, 31), dt.date(2024, 2, 1),
         dt.date(1999, 11, 30), dt.date(2100, 2, 1), dt.date(999, 12, 1), dt.date(2016, 5, 2), dt.date(2000, 2, 29),
         dt.date(2020, 12, 8), dt.date(2015, 12, 14), dt.date(2018, 12, 20), dt.date(2024, 12, 16), dt.date(2026, 12, 20)]
VALUE_POOL = ["0", "1", "2", "3", "5", "7", "10", "12", "100", "-4", "1/2", "3/4", "7/2", "-5/8", "25/2", "T", "F"]


def gen_value(rng: random.Random, null_p=0.2) -> str:
    if rng.random() < null_p:
        return "null"
    r = rng.random()
    if r < 0.06:                              # lists are values too (ALLOWED_PARAM_TYPES)
        return "L" + "_".join(rng.choice(VALUE_POOL) for _ in range(rng.randint(0, 3)))
    return rng.choice(VALUE_POOL) if r < 0.72 else str(rng.randint(-50, 400))


def gen_history(rng: random.Random, lo: int, hi: int, nmax=6, numeric=None):
    n = rng.choice([0, 1, 1, 2, 2, 3, 3, 4, 5, 6]) if nmax >= 6 else rng.randint(0, nmax)
    if rng.random() < 0.25 and n >= 2:      # a run of consecutive days
        s = rng.randint(lo, hi - n)
        days = list(range(s, s + n))
    else:
        days = rng.sample(range(lo, hi + 1), n)
    rng.shuffle(days)                        # declaration order is arbitrary
    out = []
    for d in days:
        r = rng.random()
        if r < 0.08:
            out.append((d, "expected"))
        elif numeric is not None:
            out.append((d, "null" if r < 0.22 else rng.choice(numeric)))
        else:
            out.append((d, gen_value(rng, 0.14)))
    return out


def month_ranges(lo: int, hi: int):
    out = []
    d = D(lo).replace(day=1)
    while d.toordinal() <= hi:
        last = d.replace(day=calendar.monthrange(d.year, d.month)[1])
        out.append((d.toordinal(), last.toordinal()))
        d = last + dt.timedelta(days=1)
    return out


def gen_range(rng: random.Random, dates: list, lo: int, hi: int):
    """(a, b, tag): boundaries equal / adjacent to existing entry dates, enclosing, enclosed, before the
    first, after the last, month-aligned, random"""
    ds = sorted(set(dates))
    kind = rng.choice(["pool", "pool", "pool", "enclosing", "enclosed", "before", "after", "month", "random", "single"])
    if not ds and kind in ("enclosing", "enclosed", "before", "after", "pool"):
        kind = "random"
    if kind == "pool":
        pool = [d + k for d in ds for k in (-1, 0, 1)] + [lo, hi]
        a, b = rng.choice(pool), rng.choice(pool) + rng.choice([0, -1, -1, 0, 1])
    elif kind == "enclosing":
        a, b = ds[0] - rng.randint(0, 3), ds[-1] + rng.randint(-1, 3)
    elif kind == "enclosed":
        i = rng.randrange(len(ds))
        l, h = ds[i], (ds[i + 1] if i + 1 < len(ds) else hi + 3)
        if h - l < 3:
            a, b = l, l
        else:
            a = rng.randint(l + 1, h - 2)
            b = rng.randint(a, h - 2)
    elif kind == "before":
        b = ds[0] - rng.choice([1, 1, 2, 3, 5])
        a = b - rng.randint(0, 6)
    elif kind == "after":
        a = ds[-1] + rng.choice([0, 1, 1, 2, 5])
        b = a + rng.randint(0, 6)
    elif kind == "month":
        ms = month_ranges(lo, hi)
        i = rng.randrange(len(ms))
        j = min(len(ms) - 1, i + rng.choice([0, 0, 0, 1]))
        a, b = ms[i][0], ms[j][1]
    elif kind == "single":
        a = b = rng.choice(ds + [lo, hi]) + rng.choice([-1, 0, 0, 1])
    else:
        a, b = rng.randint(lo - 3, hi + 3), rng.randint(lo - 3, hi + 3)
    if a > b and rng.random() < 0.9:
        a, b = b, a
    return a, b, kind


def classify(a: int, b, dates: list) -> str:
    ds = sorted(set(dates))
    if not ds:
        return "r:empty-history"
    if b is None:
        return "r:open-" + ("before" if a < ds[0] else "after" if a > ds[-1] else "on" if a in ds else "mid")
    if a > b:
        return "r:reversed"
    if b < ds[0]:
        return "r:before-first" + ("-adjacent" if b + 1 == ds[0] else "")
    if a > ds[-1]:
        return "r:after-last"
    if a <= ds[0] and b >= ds[-1]:
        return "r:enclosing"
    inside = [d for d in ds if a <= d <= b]
    t = "r:enclosed" if not inside and (b + 1) not in ds else "r:overlap"
    if a in ds:
        t += "+start-on-entry"
    if (b + 1) in ds:
        t += "+stop-adjacent"
    if b in ds:
        t += "+stop-on-entry"
    return t


def gen_updates(rng: random.Random, dates: list, lo: int, hi: int, n: int, child=None):
    ups, tags, claimed = [], [], True
    dates = list(dates)
    for _ in range(n):
        r = rng.random()
        a, b, _kind = gen_range(rng, dates, lo, hi)
        v = gen_value(rng, 0.2)
        if r < 0.03:
            form = rng.choice(BAD_FORMS)
            claimed = False
            if a > b:
                a, b = b, a
            if form == "nostart" and rng.random() < 0.5:
                b = None
        else:
            form = rng.choice(["period", "period", "range", "range", "open"])
            if form == "open":
                b = None
            elif a > b:
                claimed = False
                form = "range"
        tags.append(classify(a, b, dates) if form in VALID_FORMS else "r:refused-call")
        tags.append("f:" + form)
        ups.append((child, form, a, b, v))
        if form in VALID_FORMS:
            dates.append(a)
            if b is not None:
                dates.append(b + 1)
    return ups, tags, claimed


def fmt_entries(es) -> str:
    return ",".join(f"{d}:{t}" for d, t in es) if es else "-"


def fmt_updates(ups) -> str:
    if not ups:
        return "-"
    return ";".join((f"{c}:" if c is not None else "") + f"{f}:{a}:{'-' if b is None else b}:{v}" for c, f, a, b, v in ups)


def fmt_tree(tree) -> str:
    if tree[0] == "P":
        return "P " + fmt_entries(tree[1])
    if tree[0] == "S":
        return f"S {1 if tree[1] else 0} {len(tree[2])} " + " ".join(" ".join(fmt_entries(f) for f in br) for br in tree[2])
    return f"N {len(tree[1])} " + " ".join(f"{k} {fmt_tree(s)}" for k, s in tree[1])


def _payload(style: int, spell=None) -> dict:
    return {"style": style} if spell is None else {"style": style, "spell": spell}


def mk_param(entries, ups, qs: str, style: int, claimed=True, tags=(), spell=None) -> Case:
    return Case(line=f"par p {fmt_entries(entries)} {fmt_updates(ups)} {qs}", payload=_payload(style, spell),
                claimed=claimed, tags=("param",) + tuple(tags))


def mk_tree(tree, ups, qs: str, style: int, claimed=True, tags=(), spell=None) -> Case:
    return Case(line=f"par t {fmt_updates(ups)} {qs} {fmt_tree(tree)}".rstrip(), payload=_payload(style, spell),
                claimed=claimed, tags=tuple(tags))


def fmt_ops(ops) -> str:
    return ";".join(f"{op[0]}{op[1]}" if op[0] in "cr" else f"u{op[1]}:" + fmt_updates([op[2]]) for op in ops)


def mk_hist(entries, ops, qs: str, style: int, claimed=True, tags=(), spell=None) -> Case:
    return Case(line=f"par h {fmt_entries(entries)} {fmt_ops(ops)} {qs}", payload=_payload(style, spell),
                claimed=claimed, tags=("history",) + tuple(tags))


def mk_thist(tree, ops, qs: str, style: int, claimed=True, tags=(), spell=None) -> Case:
    return Case(line=f"par ht {fmt_ops(ops)} {qs} {fmt_tree(tree)}", payload=_payload(style, spell),
                claimed=claimed, tags=("tree-history",) + tuple(tags))


def gen_ops(rng: random.Random, lo: int, hi: int, addresses, declared=None):
    """A history over several objects. `addresses(rng)` -> (addr, dates, value pool | None) of a parameter
    that can be updated in any object (all objects are clones of one another, so they share the addresses).
    Reads are placed before updates, after them on the updated object and on the others in either order, and
    on every object at the end."""
    ops, tags, claimed = [], [], True
    dates: list = [{}]                       # per object: addr -> dates added by updates
    added: list = [set()]                    # per object: the children given to it by add_child (`declared`: a group's names)
    if rng.random() < 0.5:
        ops.append(("r", 0))
    for step in range(rng.randint(2, 6)):
        r = rng.random()
        if (step == 0 and r < 0.75) or (r < 0.2 and len(dates) < 4):
            src = rng.randrange(len(dates))
            ops.append(("c", src))
            dates.append({k: list(v) for k, v in dates[src].items()})
            added.append(set(added[src]))
            if rng.random() < 0.3:
                ops.append(("r", rng.randrange(len(dates))))
            continue
        i = rng.randrange(len(dates))
        if rng.random() < 0.45:                                   # something is read before the update
            ops.append(("r", rng.randrange(len(dates))))
        addr, base_dates, pool = addresses(rng)
        ups, t, c = gen_updates(rng, base_dates + dates[i].get(addr, []), lo, hi, 1, child=addr)
        child, form, a, b, v = ups[0]
        if pool is not None and v != "null":
            v = rng.choice(pool)
        if declared is not None and rng.random() < 0.22:
            # add_child on one object (a clone, or the original after it was cloned): the others must not see it
            name = rng.choice(["added", "added", "new_1", "k9", declared[0]])
            fresh = name not in declared and name not in added[i]
            child, form, a, b, t, c = name, "add", rng.randint(lo, hi), None, ["add-child" if fresh else "add-child-taken"], c and fresh
            if fresh:
                added[i].add(name)
        ops.append(("u", i, (child, form, a, b, v)))
        tags += t
        claimed = claimed and c
        if form in VALID_FORMS:
            dates[i].setdefault(addr, []).extend([a] if b is None else [a, b + 1])
        order = list(range(len(dates)))
        rng.shuffle(order)
        if rng.random() < 0.7 and len(order) > 1:                 # the updated object and another one, either order
            other = rng.choice([j for j in order if j != i])
            pair = [i, other]
            rng.shuffle(pair)
            order = pair
        for j in order[:rng.choice([1, 2, 2, 3])]:
            ops.append(("r", j))
    order = list(range(len(dates)))
    rng.shuffle(order)
    ops += [("r", j) for j in order]
    tags.append(f"objects={len(dates)}")
    return ops, tags, claimed


def gen_hist_case(rng: random.Random) -> Case:
    lo = rng.choice(BASES).toordinal()
    hi = lo + 39
    entries = gen_history(rng, lo, hi)
    ds = [d for d, t in entries if t != "expected"]
    ops, tags, claimed = gen_ops(rng, lo, hi, lambda r: (None, ds, None))
    return mk_hist(entries, ops, f"{lo - 2}..{hi + 2}", rng.getrandbits(30), claimed, tags)


def gen_thist_case(rng: random.Random) -> Case:
    lo = rng.choice(BASES).toordinal()
    hi = lo + 29
    r = rng.random()
    if r < 0.6:
        while True:
            tree = gen_deep(rng, lo, hi) if rng.random() < 0.2 else gen_node(rng, lo, hi)
            params = [(k, s) for k, s in tree[1] if s[0] == "P"]
            if params:
                break

        def addresses(r2):
            k, sub = r2.choice(params)
            return k, [d for d, t in sub[1] if t != "expected"], None
        kind = "node"
    elif r < 0.85:
        while True:
            tree, _fl = gen_scale(rng, lo, hi)
            fields = [(f"{i}.{FIELDS[j]}", f, (THRESHOLDS, RATES, AMOUNTS, RATES)[j])
                      for i, br in enumerate(tree[2]) for j, f in enumerate(br) if f]
            if fields:
                break

        def addresses(r2):
            addr, f, pool = r2.choice(fields)
            return addr, [d for d, t in f if t != "expected"], pool
        kind = "scale"
    else:
        tree = ("P", gen_history(rng, lo, hi, 4))
        ds = [d for d, t in tree[1] if t != "expected"]
        addresses = lambda r2: ("-", ds, None)
        kind = "param"
    ops, tags, claimed = gen_ops(rng, lo, hi, addresses, [k for k, _ in tree[1]] if kind == "node" else None)
    return mk_thist(tree, ops, f"{lo - 2}..{hi + 2}", rng.getrandbits(30), claimed, tags + ["top:" + kind])


def gen_param_case(rng: random.Random) -> Case:
    lo = rng.choice(BASES).toordinal()
    hi = lo + 59
    entries = gen_history(rng, lo, hi)
    nup = rng.choice([0, 1, 1, 2, 2, 3, 4])
    ups, tags, claimed = gen_updates(rng, [d for d, t in entries if t != "expected"], lo, hi, nup)
    qs = f"{lo - 2}..{hi + 2}"
    if rng.random() < 0.3:
        qs += f",{lo - 400},{hi + 400},{lo - 31},{hi + 31}"
    tags += [f"entries={len(entries)}", f"updates={nup}"]
    return mk_param(entries, ups, qs, rng.getrandbits(30), claimed, tags)


THRESHOLDS = ["0", "5", "10", "15/2", "20", "100"]
RATES = ["0", "1/16", "1/8", "1/4", "1/2", "3/4", "1", "-1/4", "5/16"]
AMOUNTS = ["0", "1", "5", "12", "7/2", "100"]


def gen_scale(rng: random.Random, lo: int, hi: int, nb=None):
    nb = nb or rng.choice([1, 1, 2, 3, 4])
    flavour = rng.choice(["rate", "rate", "rate", "amount", "amount", "avg", "mixed"])
    brs = []
    for _ in range(nb):
        thr = gen_history(rng, lo, hi, 3, THRESHOLDS)
        shape = rng.random()
        if shape < 0.5 and thr:              # most thresholds start early so that rows exist
            thr[0] = (lo + rng.randint(-1, 3), rng.choice(THRESHOLDS))
            thr = list({d: (d, t) for d, t in thr}.values())
        elif shape < 0.7:                    # the threshold starts later than the value: no row until then
            thr = [(rng.randint(lo + 5, hi - 3), rng.choice(THRESHOLDS))]
        use = {"rate": (1, 0, 0), "amount": (0, 1, 0), "avg": (0, 0, 1),
               "mixed": (rng.random() < 0.6, rng.random() < 0.4, rng.random() < 0.3)}[flavour]
        rate = gen_history(rng, lo, hi, 3, RATES) if use[0] else []
        amount = gen_history(rng, lo, hi, 3, AMOUNTS) if use[1] else []
        avg = gen_history(rng, lo, hi, 2, RATES) if use[2] else []
        if 0.5 <= shape < 0.7:               # ... the value being in force from before the window
            early = lambda pool: [(lo - rng.randint(1, 3), rng.choice(pool))]
            rate, amount, avg = (early(RATES) if use[0] else []), (early(AMOUNTS) if use[1] else []), (early(RATES) if use[2] else [])
        brs.append((thr, rate, amount, avg))
    return ("S", rng.random() < 0.15, brs), flavour


# child names: plain, all-digit (int keys / numeric file names), needing quotes or escaping in YAML, a Python keyword.
# Not generated: names that collide with the node classes' own attributes (`children`, `add_child`, `_children`).
NAMES = ["a", "b", "c", "d", "e", "f1", "g_2", "2", "0", "17", "a-b", "x.y", "class", "UP", "k'q", "n+1"]


def gen_deep(rng: random.Random, lo: int, hi: int):
    """groups nested 3-4 deep whose innermost members start late, are null or never start: the inner groups
    are members of their parents at every date, with no member of their own before that"""
    def late():
        r = rng.random()
        if r < 0.2:
            return ("P", [])
        d0 = rng.randint(lo + 3, hi - 2)
        es = [(d0, gen_value(rng, 0.0))]
        if r < 0.5:
            es.append((rng.randint(d0 + 1, hi), "null"))
        return ("P", es)
    names = rng.sample(NAMES, 8)
    inner = ("N", [(names[0], late())] + ([(names[1], late())] if rng.random() < 0.4 else []))
    for lvl in range(rng.choice([2, 2, 3])):
        sib = [(names[2 + lvl], ("P", gen_history(rng, lo, hi, 3)))] if rng.random() < 0.5 else []
        kids = [(names[5 + lvl], inner)] + sib
        rng.shuffle(kids)
        inner = ("N", kids)
    return inner


def gen_node(rng: random.Random, lo: int, hi: int, depth=0):
    names = list(NAMES)
    rng.shuffle(names)
    n = rng.randint(1, 5 if depth == 0 else 3)
    kids = []
    for name in names[:n]:
        r = rng.random()
        if r < 0.18 and depth < 3:
            kids.append((name, gen_node(rng, lo, hi, depth + 1)))
        elif r < 0.24:
            kids.append((name, gen_scale(rng, lo, hi, rng.randint(1, 2))[0]))
        else:
            kids.append((name, ("P", gen_history(rng, lo, hi, 4))))
    return ("N", kids)


def gen_node_case(rng: random.Random) -> Case:
    lo = rng.choice(BASES).toordinal()
    hi = lo + 29
    deep = rng.random() < 0.2
    tree = gen_deep(rng, lo, hi) if deep else gen_node(rng, lo, hi)
    params = [(k, s) for k, s in tree[1] if s[0] == "P"]
    ups, tags, claimed = [], ["deep"] if deep else [], True
    if rng.random() < 0.02:                    # the same name twice: refused on every route (not binding)
        tree = ("N", tree[1] + [(tree[1][0][0], ("P", gen_history(rng, lo, hi, 2)))])
        return mk_tree(tree, [], f"{lo - 2}..{hi + 2}", rng.getrandbits(30), False, ["node", "duplicate-name"])
    if params:
        for _ in range(rng.choice([0, 0, 1, 1, 2])):
            k, s = rng.choice(params)
            u, t, c = gen_updates(rng, [d for d, tk in s[1] if tk != "expected"], lo, hi, 1, child=k)
            ups += u
            tags += t
            claimed = claimed and c
    if rng.random() < 0.12:                    # a child added to the live group, then (sometimes) updated
        name = rng.choice(["added", "new_1", tree[1][0][0]])
        fresh = name not in [k for k, _ in tree[1]]
        a0 = rng.randint(lo, hi)
        ups.insert(rng.randint(0, len(ups)), (name, "add", a0, None, gen_value(rng, 0.1)))
        claimed = claimed and fresh
        tags.append("add-child" if fresh else "add-child-taken")
        if fresh and rng.random() < 0.5:
            u, t, c = gen_updates(rng, [a0], lo, hi, 1, child=name)
            ups += u
            tags += t
            claimed = claimed and c
    return mk_tree(tree, ups, f"{lo - 2}..{hi + 2}", rng.getrandbits(30), claimed,
                   ["node", f"children={len(tree[1])}"] + tags)


def gen_scale_case(rng: random.Random) -> Case:
    lo = rng.choice(BASES).toordinal()
    hi = lo + 29
    tree, flavour = gen_scale(rng, lo, hi)
    return mk_tree(tree, [], f"{lo - 2}..{hi + 2}", rng.getrandbits(30), True,
                   ["scale", f"brackets={len(tree[2])}", "scale:" + flavour])


# ---- `par y`: generation --------------------------------------------------------------------------------------


def fmt_y(data) -> str:
    if data is None:
        return "~"
    if isinstance(data, bool):
        return "b:T" if data else "b:F"
    if isinstance(data, list):
        return " ".join([f"L{len(data)}"] + [fmt_y(x) for x in data])
    if data[0] == "num":
        return "v:" + data[1]
    if data[0] == "str":
        return "s:" + data[1]
    out = [f"M{len(data[1])}"]
    for k, v in data[1]:
        out.append(f"{k.kind}{k.ord}~{k.text}" if k.kind in "dmy" else f"{k.kind}:{k.text}")
        out.append(fmt_y(v))
    return " ".join(out)


def kname(text: str) -> YKey:
    return YKey("k", None, text)


def date_key(o: int, sp: str) -> YKey:
    t = iso(o)
    return YKey(sp, o, t if sp == "d" else t[:7] if sp == "m" else t[:4])


def gen_y_history(rng: random.Random, lo: int, hi: int, nmax=6, numeric=None):
    """a dated history whose keys are spelled in full, `YYYY-MM` (first of a month) or `YYYY` (1 January)"""
    out, seen = [], set()
    for (d, tok) in gen_history(rng, lo, hi, nmax, numeric):
        if rng.random() < 0.4:
            d = D(d).replace(day=1).toordinal()
            if rng.random() < 0.4:
                d = D(d).replace(month=1).toordinal()
        day = D(d)
        sp = "d"
        if day.day == 1 and rng.random() < 0.7:
            sp = "y" if day.month == 1 and rng.random() < 0.6 else "m"
        if (d, sp) not in seen:
            seen.add((d, sp))
            out.append((d, tok, sp))
    return out


def enc_value(tok: str):
    if tok == "null":
        return None
    if tok in ("T", "F"):
        return tok == "T"
    if tok.startswith("L"):
        return [enc_value(t) for t in tok[1:].split("_")] if len(tok) > 1 else []
    return ("num", tok)


def enc_item(rng: random.Random, tok: str):
    if tok == "expected":
        return rng.choice([("str", "expected"), ("map", [(kname("expected"), True)]),
                           ("map", [(kname("expected"), ("num", "3")), (kname("value"), ("num", "5"))])])
    v = enc_value(tok)
    r = rng.randrange(6)
    if r < 2:
        return v
    pairs = [(kname("value"), v)]
    if r == 3:
        pairs.append((kname("metadata"), ("map", [(kname("reference"), ("str", "r"))])))
    elif r == 4:
        pairs.insert(0, (kname("unit"), ("str", "currency")))
    elif r == 5:
        pairs.append((kname("reference"), ("str", "https://example.org")))
    return ("map", pairs)


Y_NOISE = [("description", ("str", "c06")), ("documentation", ("str", "doc")), ("metadata", ("map", [(kname("unit"), ("str", "currency"))])),
           ("unit", ("str", "/1")), ("reference", ("str", "ref")), ("metadata", ("map", []))]


def enc_param(rng: random.Random, entries):
    pairs = [(date_key(o, sp), enc_item(rng, tok)) for (o, tok, sp) in entries]
    if pairs and rng.random() < 0.4:
        outer = [(kname("values"), ("map", pairs))]
        used = set()
        for k, v in rng.sample(Y_NOISE, rng.randint(0, 3)):
            if k not in used:
                used.add(k)
                outer.insert(rng.randint(0, len(outer)), (kname(k), v))
        return ("map", outer)
    return ("map", pairs)


def enc_scale(rng: random.Random, tree):
    brs = []
    for fields in tree[2]:
        b = []
        for name, entries in zip(FIELDS, fields):
            if entries or rng.random() < 0.15:
                b.append((kname(name), enc_param(rng, entries)))
        rng.shuffle(b)
        brs.append(("map", b))
    outer = [(kname("brackets"), brs)]
    if tree[1]:
        outer.append((kname("metadata"), ("map", [(kname("type"), ("str", "single_amount"))])))
    elif rng.random() < 0.3:
        outer.append((kname("metadata"), ("map", rng.choice([[(kname("type"), ("str", "marginal_rate"))], [(kname("unit"), ("str", "/1"))], []]))))
    if rng.random() < 0.3:
        outer.insert(0, (kname("description"), ("str", "a_scale")))
    if rng.random() < 0.15:
        outer.append((kname(rng.choice(["unit", "reference", "documentation"])), ("str", "x")))
    return ("map", outer)


def enc_tree(rng: random.Random, tree):
    if tree[0] == "P":
        return enc_param(rng, tree[1])
    if tree[0] == "S":
        return enc_scale(rng, tree)
    pairs = []
    for name, sub in tree[1]:
        key = YKey("i", None, name) if name.isdigit() and str(int(name)) == name and rng.random() < 0.5 else kname(name)
        pairs.append((key, enc_tree(rng, sub)))
    used = set()
    noise = rng.sample(Y_NOISE, rng.randint(0, 2)) if rng.random() < 0.4 else []
    if not pairs and not noise:
        noise = [Y_NOISE[0]]                   # an empty mapping would be an (empty) parameter
    for k, v in noise:
        if k not in used:
            used.add(k)
            pairs.insert(rng.randint(0, len(pairs)), (kname(k), v))
    return ("map", pairs)


def spell_tree(rng: random.Random, tree, lo: int, hi: int):
    """re-draw the histories of a declared tree with spelled keys"""
    if tree[0] == "P":
        return ("P", gen_y_history(rng, lo, hi, 4))
    if tree[0] == "S":
        pools = (THRESHOLDS, RATES, AMOUNTS, RATES)
        return ("S", tree[1], [tuple(gen_y_history(rng, lo, hi, 3, pools[j]) if f else [] for j, f in enumerate(br)) for br in tree[2]])
    return ("N", [(k, spell_tree(rng, sub, lo, hi)) for k, sub in tree[1]])


def all_maps(data, acc):
    if isinstance(data, list):
        for x in data:
            all_maps(x, acc)
    elif isinstance(data, tuple) and data[0] == "map":
        acc.append(data)
        for _k, v in data[1]:
            all_maps(v, acc)
    return acc


def mutate_y(rng: random.Random, data):
    """one edit of well-formed data that the constructors should refuse (or silently read differently):
    returns (data, tag)"""
    import copy
    data = copy.deepcopy(data)
    maps = all_maps(data, [])
    op = rng.choice(["unknown-key", "unknown-key", "str-value", "drop-value", "expected-false", "name-for-date", "int-for-date",
                     "brackets-not-list", "bracket-key", "values-empty", "metadata-scalar", "top-scalar", "twice", "field-node",
                     "dict-value", "bracket-not-map", "values-falsy", "values-falsy", "reserved-child", "index-key"])
    junk = rng.choice([("num", "5"), ("str", "abc"), None, ("map", [(date_key(735599, "d"), ("num", "1"))]), [("num", "1")]])
    if op == "top-scalar" or not maps:
        return rng.choice([("num", "5"), None, ("str", "values"), ("str", "abc"), [("num", "1")], True, []]), "top-scalar"
    m = rng.choice(maps)
    pairs = m[1]
    if op == "values-falsy":
        # `values:` present but false (empty mapping, null, 0, …) beside reserved keys only: the simplified reading
        # then takes the key `values` for an instant
        pairs[:] = [(kname("values"), rng.choice([("map", []), None, ("num", "0"), [], False, ("str", "")]))]
        for k, v in rng.sample(Y_NOISE[:3], rng.randint(0, 2)):
            pairs.insert(rng.randint(0, len(pairs)), (kname(k), v))
        return data, "mut:values-falsy"
    if op == "reserved-child":
        # a reserved key holding what would be a fine child: never a member
        pairs[:] = [kv for kv in pairs if kv[0].text not in ("description", "documentation")]
        pairs.insert(rng.randint(0, len(pairs)), (kname(rng.choice(["description", "documentation", "unit", "reference"])),
                                                  ("map", [(date_key(735599, "d"), ("num", "1"))])))
        return data, "mut:reserved-child"
    if op == "index-key":
        # top level: a key that is not reserved with a scalar value (in a directory it may land in index.yaml)
        data[1].insert(rng.randint(0, len(data[1])), (kname(rng.choice(["foo", "Description", "units"])), rng.choice([("num", "5"), ("str", "abc"), None, True])))
        return data, "mut:index-key"
    dated = [i for i, (k, _v) in enumerate(pairs) if k.kind in "dmy"]
    items = [i for i in dated if isinstance(pairs[i][1], tuple) and pairs[i][1][0] == "map"]
    if op == "unknown-key":
        pairs.insert(rng.randint(0, len(pairs)), (kname(rng.choice(["foo", "Value", "vaIues", "expected", "type"])), junk))
    elif op == "str-value" and dated:
        pairs[rng.choice(dated)] = (pairs[dated[0]][0], ("str", rng.choice(["abc", "Expected", "", "1"])))
    elif op == "dict-value" and items:
        i = rng.choice(items)
        pairs[i] = (pairs[i][0], ("map", [(kname("value"), rng.choice([("map", []), ("str", "x"), ("map", [(kname("value"), ("num", "1"))])]))]))
    elif op == "drop-value" and items:
        i = rng.choice(items)
        pairs[i] = (pairs[i][0], ("map", [kv for kv in pairs[i][1][1] if kv[0].text != "value"]))
    elif op == "expected-false" and items:
        i = rng.choice(items)
        pairs[i][1][1].append((kname("expected"), rng.choice([False, ("num", "0"), None, ("str", "")])))
    elif op == "name-for-date" and dated:
        i = rng.choice(dated)
        pairs[i] = (kname(rng.choice(["jan", "x2015", "20-15"])), pairs[i][1])
    elif op == "int-for-date" and dated:
        i = rng.choice(dated)
        pairs[i] = (YKey("i", None, rng.choice(["2015", "1999", "7", "12345"])), pairs[i][1])
    elif op == "values-empty":
        pairs.insert(rng.randint(0, len(pairs)), (kname("values"), rng.choice([("map", []), None, ("num", "0"), [], ("num", "3"), ("str", "v"), False])))
    elif op == "metadata-scalar":
        pairs[:] = [kv for kv in pairs if kv[0].text != "metadata"]
        pairs.append((kname("metadata"), rng.choice([None, ("num", "5"), ("str", "m"), True])))
    elif op == "twice":
        pairs.append((kname("2"), ("map", [])))
        pairs.append((YKey("i", None, "2"), ("map", [])))
    else:
        brk = [i for i, (k, _v) in enumerate(pairs) if k.kind == "k" and k.text == "brackets"]
        if not brk:
            pairs.append((kname("brackets"), rng.choice([[], junk, [("map", [(kname("threshold"), ("map", []))])]])))
            return data, "brackets-added"
        i = brk[0]
        if op == "brackets-not-list":
            pairs[i] = (pairs[i][0], rng.choice([("map", []), None, ("num", "1"), ("str", "b")]))
        elif op == "bracket-not-map":
            pairs[i] = (pairs[i][0], [("num", "1"), None])
        elif isinstance(pairs[i][1], list) and pairs[i][1] and pairs[i][1][0][0] == "map":
            b = rng.choice(pairs[i][1])[1]
            if op == "bracket-key":
                b.append((kname(rng.choice(["description", "base", "metadata"])), ("map", [])))
            else:
                b[:] = [kv for kv in b if kv[0].text != "threshold"]
                b.append((kname("threshold"), rng.choice([("map", [(kname("sub"), ("map", []))]), ("map", [(date_key(735599, "d"), True)]),
                                                         ("map", [(kname("brackets"), [])])])))
    return data, "mut:" + op


def mk_y(root: str, ups, qs: str, data, style: int, tree=None, claimed=True, tags=()) -> Case:
    payload = {"style": style}
    if tree is not None:
        payload["tree"] = tree
    return Case(line=f"par y {root} {fmt_updates(ups)} {qs} {fmt_y(data)}", payload=payload, claimed=claimed and tree is not None,
                tags=("data",) + tuple(tags))


Y_BASES = [dt.date(2019, 12, 10), dt.date(2020, 1, 25), dt.date(2023, 12, 20), dt.date(1999, 12, 15), dt.date(2016, 2, 20),
           dt.date(2014, 12, 28), dt.date(999, 12, 1), dt.date(2100, 1, 20)]


def gen_y_case(rng: random.Random) -> Case:
    lo = rng.choice(Y_BASES).toordinal()
    hi = lo + 44
    qs = f"{lo - 33}..{hi + 2}"
    root = rng.choice(["n", "n", "taxes.x", "-"])
    r = rng.random()
    ups, tags, claimed = [], [], True
    if r < 0.45:
        entries = gen_y_history(rng, lo, hi)
        if rng.random() < 0.12 and entries:               # two spellings of one first day: which one is "the latest" is
            o = D(rng.choice(entries)[0]).replace(day=1)  # not for the property to say
            o = o.replace(month=1).toordinal() if rng.random() < 0.5 else o.toordinal()
            have = {(d, sp) for d, _t, sp in entries}
            for sp in rng.sample(["d", "m", "y"] if D(o).month == 1 else ["d", "m"], 2):
                if (o, sp) not in have:
                    entries.append((o, gen_value(rng, 0.1), sp))
            claimed = False
            tags.append("same-first-day")
        tree = ("P", entries)
        nup = rng.choice([0, 0, 1, 1, 2, 3])
        ups, t2, c2 = gen_updates(rng, [d for d, t, _sp in entries if t != "expected"], lo, hi, nup)
        claimed = claimed and c2
        tags += t2 + ["top:param", "spell:" + "".join(sorted({sp for _d, _t, sp in entries}))]
    elif r < 0.8:
        base = gen_deep(rng, lo, hi) if rng.random() < 0.15 else gen_node(rng, lo, hi)
        tree = spell_tree(rng, base, lo, hi)
        tags.append("top:node")
    else:
        tree = spell_tree(rng, gen_scale(rng, lo, hi)[0], lo, hi)
        tags.append("top:scale")
    data = enc_tree(rng, tree)
    if rng.random() < 0.25:
        data, tag = mutate_y(rng, data)
        return mk_y(root, ups if tree[0] == "P" else [], qs, data, rng.getrandbits(30), None, False, tags + [tag])
    return mk_y(root, ups, qs, data, rng.getrandbits(30), tree, claimed, tags)


# ---- `par d`: a ParameterNode built from a directory (the model receives the LISTING) ------------------------


def parse_dir(toks: list, i: int):
    """-> ([('F', file name, data) | ('S', directory name, entries)], next index)"""
    if i >= len(toks) or not (toks[i][:1] == "D" and toks[i][1:].isdigit() and toks[i][1:].isascii()):
        raise Malformed("dir")
    n, i = int(toks[i][1:]), i + 1
    out = []
    for _ in range(n):
        if i >= len(toks):
            raise Malformed("entry")
        e = toks[i]
        if e[:2] not in ("F:", "S:") or not e[2:] or e[2:].startswith(".") or "/" in e:
            raise Malformed(e)
        if e[:2] == "F:":
            data, i = parse_y(toks, i + 1)
            out.append(("F", e[2:], data))
        else:
            sub, i = parse_dir(toks, i + 1)
            out.append(("S", e[2:], sub))
    names = [x[1] for x in out]
    if len(set(names)) != len(names):
        raise Malformed("same name twice")
    return out, i


def write_listing(ents, path: str, rs: random.Random, order: dict) -> None:
    listing = []
    for kind, name, body in ents:
        if kind == "F":
            with open(os.path.join(path, name), "w") as f:
                f.write("" if body is None and rs.random() < 0.5 else y_yaml(y_py(body, rs), rs))
        else:
            os.mkdir(os.path.join(path, name))
            write_listing(body, os.path.join(path, name), rs, order)
        listing.append(name)
    order[os.path.abspath(path)] = listing


def impl_d(parsed, rs: random.Random) -> str:
    from openfisca_core.parameters import ParameterNode, helpers
    _, root, qs, ents = parsed
    name = "" if root == "-" else root
    tmp = tempfile.mkdtemp(prefix="c06d-")
    real = os.listdir
    try:
        order: dict = {}
        top = os.path.join(tmp, "parameters")
        os.mkdir(top)
        write_listing(ents, top, rs, order)
        os.listdir = lambda path=".": list(order[os.path.abspath(path)]) if os.path.abspath(path) in order else real(path)
        try:
            obj = ParameterNode(name, directory_path=top) if rs.random() < 0.6 else helpers.load_parameter_file(top, name)
        except Exception:
            return "ERR"
        finally:
            os.listdir = real
    finally:
        os.listdir = real
        shutil.rmtree(tmp, ignore_errors=True)
    if y_unsupported(obj):
        return "UNSUP"
    snaps = ";".join(show_y(obj, read_at(obj, q, rs)) for q in qs)
    probe = alias_probe(obj, qs, rs)
    return "T|" + snaps + "|D:" + ",".join(str(d.name) for d in obj.get_descendants()) + ("|" + probe if probe else "")


def fmt_dir(ents) -> str:
    out = [f"D{len(ents)}"]
    for kind, name, body in ents:
        out.append(f"{kind}:{name}")
        out.append(fmt_y(body) if kind == "F" else fmt_dir(body))
    return " ".join(out)


def dir_of_tree(rng: random.Random, tree):
    """a listing for a declared group: every child a YAML file, or (groups) a sub-directory; index files, files of
    other types and (never read) files whose stem is a child's name with another extension"""
    ents = []
    for name, sub in tree[1]:
        if sub[0] == "N" and rng.random() < 0.6:
            ents.append(("S", name, dir_of_tree(rng, sub)))
        else:
            ents.append(("F", name + rng.choice([".yaml", ".yml"]), enc_tree(rng, sub)))
    if rng.random() < 0.45:
        idx = [(kname(k), v) for k, v in rng.sample(Y_NOISE[:5], rng.randint(0, 3))]
        idx = list({k.text: (k, v) for k, v in idx}.values())
        body = rng.choice([None, ("map", [])]) if not idx and rng.random() < 0.5 else ("map", idx)
        ents.insert(rng.randint(0, len(ents)), ("F", "index" + rng.choice([".yaml", ".yml"]), body))
    if rng.random() < 0.35:
        junk = rng.choice([("num", "5"), ("map", [(date_key(735599, "d"), ("num", "1"))]), ("str", "abc")])
        taken = {e[1] for e in ents}
        nm = rng.choice(["README.md", "notes.txt", "yaml", "data.json", "index.txt", "a.yaml.bak"]
                        + [n + ".txt" for n, _s in tree[1][:2]])
        if nm not in taken:
            ents.insert(rng.randint(0, len(ents)), ("F", nm, junk))
    return ents


def all_listings(ents, acc):
    acc.append(ents)
    for kind, _n, body in ents:
        if kind == "S":
            all_listings(body, acc)
    return acc


def mutate_dir(rng: random.Random, ents):
    import copy
    ents = copy.deepcopy(ents)
    lst = rng.choice(all_listings(ents, []))
    files = [i for i, e in enumerate(lst) if e[0] == "F" and e[1].rsplit(".", 1)[-1] in ("yaml", "yml") and not e[1].startswith("index.")]
    op = rng.choice(["twin-ext", "twin-dir", "index-key", "index-scalar", "index-meta", "two-index", "file-scalar", "file-null", "bad-child", "reserved-stem",
                     "index-like"])
    names = {e[1] for e in lst}
    if op == "twin-ext" and files:
        k, nm, body = lst[rng.choice(files)]
        other = nm.rsplit(".", 1)[0] + (".yml" if nm.endswith(".yaml") else ".yaml")
        if other not in names:
            lst.insert(rng.randint(0, len(lst)), ("F", other, body))
    elif op == "twin-dir" and files:
        stem = lst[rng.choice(files)][1].rsplit(".", 1)[0]
        if stem not in names:
            lst.insert(rng.randint(0, len(lst)), ("S", stem, rng.choice([[], [("F", "x.yaml", ("map", []))]])))
    elif op in ("index-key", "index-scalar", "index-meta", "two-index"):
        body = {"index-key": ("map", [(kname(rng.choice(["values", "foo", "brackets"])), rng.choice([("num", "1"), ("map", [])]))]),
                "index-scalar": rng.choice([("num", "5"), ("str", "abc"), [("num", "1")], True, ("num", "0"), False, []]),
                "index-meta": ("map", [(kname("metadata"), rng.choice([None, ("num", "5"), ("str", "m")]))]),
                "two-index": ("map", [(kname("description"), ("str", "d"))])}[op]
        lst[:] = [e for e in lst if not (e[1].startswith("index.") and op != "two-index")]
        nm = "index.yml" if "index.yaml" in {e[1] for e in lst} else "index.yaml"
        if nm not in {e[1] for e in lst}:
            lst.insert(rng.randint(0, len(lst)), ("F", nm, body))
    elif op == "file-scalar":
        nm = rng.choice(["zz.yaml", "q.yml"])
        if nm not in names:
            lst.append(("F", nm, rng.choice([("num", "5"), ("str", "values"), [("num", "1")], True])))
    elif op == "file-null":
        nm = rng.choice(["zz.yaml", "q.yml"])
        if nm not in names:
            lst.append(("F", nm, None))
    elif op == "index-like":
        nm = rng.choice(["index2.yaml", "indexes.yml", "Index.yaml", "index.x.yaml", "my_index.yml"])
        if nm not in names:
            lst.insert(rng.randint(0, len(lst)), ("F", nm, ("map", [(date_key(735599, "d"), ("num", "1"))])))
    elif op == "reserved-stem":
        nm = rng.choice(["values.yaml", "brackets.yml", "unit_.yaml"])       # (a child named like an attribute of the node
                                                                             # class — metadata, description — is not generated)
        if nm not in names:
            lst.insert(rng.randint(0, len(lst)), ("F", nm, ("map", [(date_key(735599, "d"), ("num", "1"))])))
    elif files:
        i = rng.choice(files)
        lst[i] = ("F", lst[i][1], mutate_y(rng, lst[i][2])[0])
    return ents, "mut:" + op


def gen_d_case(rng: random.Random) -> Case:
    lo = rng.choice(Y_BASES).toordinal()
    hi = lo + 44
    qs = f"{lo - 33}..{hi + 2}"
    root = rng.choice(["n", "", "taxes.x", "-"]) or "n"
    while True:
        base = gen_deep(rng, lo, hi) if rng.random() < 0.2 else gen_node(rng, lo, hi)
        tree = spell_tree(rng, base, lo, hi)
        names = [k for k, _ in tree[1]]
        if "index" not in names:
            break
    ents = dir_of_tree(rng, tree)
    payload = {"style": rng.getrandbits(30), "tree": tree}
    tags = ["dir"]
    claimed = True
    if rng.random() < 0.3:
        ents, tag = mutate_dir(rng, ents)
        payload.pop("tree")
        claimed = False
        tags.append(tag)
    return Case(line=f"par d {root} {qs} {fmt_dir(ents)}", payload=payload, claimed=claimed, tags=tuple(tags))


MALFORMED = [
    "par", "par p", "par p - - ", "par p 5:1 - x..y", "par p 5:1,6 - 1..3", "par p a:1 - 1..3", "par p 5:1 period:1:2 1..3",
    "par p 5:1 period:1:-:3 1..3", "par p 5:1 open:1:2:3 1..3", "par p 5:1 shift:1:2:3 1..3", "par p 5:1 range:1:2: 1..3",
    "par t - 1..3", "par t - 1..3 N 2 a P 5:1", "par t - 1..3 Q 1", "par t - 1..3 S 2 1 5:0 5:1 - -", "par t x:open:1:-:2 1..3 N 1 a P 5:1",
    "par t - 1..3 P 5:1 extra", "par q 1 2 3", "par t a:open:1:-:2 1..3 N 1 a N 1 b P 5:1",
    "par y n - 1..3", "par y n - 1..3 M1 k:a", "par y n - 1..3 M2 k:a ~ k:a ~", "par y n - 1..3 M1 k:2015x ~", "par y n - 1..3 M1 q5~x ~",
    "par y n - 1..3 L2 v:1 M0", "par y n - 1..3 v:01", "par y n - 1..3 M1 k:metadata L0", "par y n - 1..3 ~ ~", "par y n open:1:-:2 1..3 M1 k:a M0",
    "par d n 1..3", "par d n 1..3 D1", "par d n 1..3 D1 F:.x ~", "par d n 1..3 D2 F:a.yaml ~ F:a.yaml ~", "par d n 1..3 D1 S:a", "par d n 1..3 D0 extra",
]


def generate(rng: random.Random, tier: str):
    n_param, n_node, n_scale, n_hist, n_thist = ((15000, 3000, 2500, 4500, 2500) if tier == "quick"
                                                 else (120000, 20000, 20000, 40000, 15000))
    out = [gen_param_case(rng) for _ in range(n_param)]
    out += [gen_node_case(rng) for _ in range(n_node)]
    out += [gen_scale_case(rng) for _ in range(n_scale)]
    out += [gen_hist_case(rng) for _ in range(n_hist)]
    out += [gen_thist_case(rng) for _ in range(n_thist)]
    out += [gen_y_case(rng) for _ in range(4000 if tier == "quick" else 40000)]
    out += [gen_d_case(rng) for _ in range(1500 if tier == "quick" else 12000)]
    out += [Case(line=l, payload={"style": 0}, claimed=False, tags=("malformed",)) for l in MALFORMED]
    return out


def enumerate_thorough():
    """every subset of entry dates of an 8-day window (two value patterns) x every closed range (a, b) and
    every open start over the window +-1 x {value, null}"""
    base = dt.date(2020, 2, 25).toordinal()          # 25 Feb .. 3 Mar 2020: crosses 29 Feb
    win = list(range(base, base + 8))
    pos = list(range(base - 1, base + 9))
    ranges = [(a, b) for a in pos for b in pos if a <= b] + [(a, None) for a in pos]
    qs = f"{base - 3}..{base + 11}"
    out = []
    k = 0
    for mask in range(256):
        days = [d for i, d in enumerate(win) if mask >> i & 1]
        for pattern in (0, 1):
            entries = [(d, "null" if pattern and i % 2 else str(i + 1)) for i, d in enumerate(days)]
            if pattern and len(days) < 2:
                continue
            decl = entries[::-1] if mask % 3 == 0 else entries[1::2] + entries[0::2]
            for (a, b) in ranges:
                for v in ("99", "null"):
                    k += 1
                    form = "open" if b is None else ("period", "range")[k % 2]
                    out.append(mk_param(decl, [(None, form, a, b, v)], qs, k, True, ("enum",)))
    # keys spelled YYYY / YYYY-MM / in full around 1 January and 1 February 2020: every subset of six keys x every
    # closed range and open start over eight boundary days x {value, null}
    O_ = lambda m, d: dt.date(2020, m, d).toordinal() if m else dt.date(2019, 12, 31).toordinal()
    keys = [(O_(1, 1), "y"), (O_(1, 1), "m"), (O_(1, 1), "d"), (O_(2, 1), "m"), (O_(2, 1), "d"), (O_(1, 15), "d")]
    pos = [O_(0, 0), O_(1, 1), O_(1, 2), O_(1, 14), O_(1, 15), O_(1, 31), O_(2, 1), O_(2, 2)]
    ranges = [(a, b) for a in pos for b in pos if a <= b] + [(a, None) for a in pos]
    qs = f"{O_(0, 0) - 1}..{O_(2, 2) + 1}"
    for mask in range(64):
        entries = [(o, str(i + 1), sp) for i, (o, sp) in enumerate(keys) if mask >> i & 1]
        firsts = [o for o, _t, _sp in entries]
        claimed = len(set(firsts)) == len(firsts)         # two spellings of one first day: compared, not claimed
        decl = entries[::-1] if mask % 2 else entries
        for (a, b) in ranges:
            for v in ("99", "null"):
                k += 1
                form = "open" if b is None else ("period", "range")[k % 2]
                out.append(mk_y("n", [(None, form, a, b, v)], qs, enc_param(random.Random(k), decl), k, ("P", decl), claimed, ("enum", "enum:spelled")))
    return out


def corpus():
    """no defect is recorded for C06; these are the hand-written boundary cases (repository tests + the
    examples beside the theorems)"""
    o = dt.date(2013, 1, 1).toordinal()
    y14, y15, y16 = (dt.date(y, 1, 1).toordinal() for y in (2014, 2015, 2016))
    qs = f"{o - 2}..{o + 3},{y14 - 2}..{y14 + 2},{y15 - 2}..{y15 + 2},{y16 - 2}..{y16 + 2}"
    out = [
        mk_param([(o, "0"), (y14, "null")], [(None, "range", o, y14 - 1, "1")], qs, 1, tags=("corpus",)),
        mk_param([(y14, "19/2"), (y15, "77/8"), (y16, "39/4")], [(None, "period", y15, y16 - 1, "1")], qs, 2, tags=("corpus",)),
        mk_param([(o, "0"), (y14, "null")], [(None, "open", o, None, "1")], qs, 3, tags=("corpus",)),
        mk_param([(o, "0"), (y14, "null")], [(None, "range", o, y14 - 1, "null"), (None, "period", y14, y15 - 1, "2")], qs, 4, tags=("corpus",)),
        mk_param([], [(None, "period", o + 3, o + 5, "1")], f"{o}..{o + 8}", 5, tags=("corpus",)),
        mk_param([(o + 10, "1"), (o + 5, "2"), (o, "3")], [(None, "range", o + 4, o + 7, "9")], f"{o - 2}..{o + 12}", 6, tags=("corpus",)),
        mk_param([(o + 10, "1"), (o + 5, "2")], [(None, "range", o + 6, o + 9, "null")], f"{o - 2}..{o + 12}", 7, tags=("corpus",)),
        mk_param([(o + 5, "expected"), (o + 3, "null"), (o, "T")], [], f"{o - 2}..{o + 8}", 8, tags=("corpus",)),
        mk_param([(o, "1")], [(None, "both", o, o + 1, "2"), (None, "nostart", o, None, "2"), (None, "open", o + 1, None, "3")],
                 f"{o - 1}..{o + 3}", 9, claimed=False, tags=("corpus",)),
    ]
    tree = ("N", [("a", ("P", [(o + 10, "5")])), ("b", ("P", [(o + 12, "null"), (o + 5, "1")])),
                  ("sub", ("N", [("c", ("P", [(o + 11, "3")]))])),
                  ("sc", ("S", False, [([(o, "10")], [(o, "1/2")], [], []), ([(o, "0"), (o + 5, "null")], [(o, "1/4")], [], []),
                                       ([(o + 3, "10")], [(o, "1/4")], [], [])]))])
    out.append(mk_tree(tree, [("a", "range", o + 11, o + 12, "null"), ("b", "open", o + 13, None, "4")], f"{o - 1}..{o + 15}", 10,
                       tags=("corpus", "node")))
    out.append(mk_tree(tree[1][3][1], [], f"{o - 1}..{o + 8}", 11, tags=("corpus", "scale")))
    # a parameter and its clone are independent objects (seeded change C06-3: a memo shared through clone())
    O_ = lambda y, m, d: dt.date(y, m, d).toordinal()
    hist = [(O_(2010, 1, 1), "1"), (O_(2015, 1, 1), "2"), (O_(2020, 1, 1), "3")]
    days = ",".join(str(O_(*t)) for t in [(2009, 12, 31), (2010, 1, 1), (2015, 12, 31), (2016, 1, 1), (2016, 6, 15),
                                           (2017, 12, 31), (2018, 1, 1), (2021, 1, 1)])
    u = (None, "range", O_(2016, 1, 1), O_(2017, 12, 31), "9")
    for k, order in enumerate([[("r", 0), ("r", 1)], [("r", 1), ("r", 0)]]):
        for spell in ("iso", "instant"):
            out.append(mk_hist(hist, [("c", 0), ("u", 1, u)] + order, days, 20 + k, tags=("corpus", "clone"), spell=spell))
    out.append(mk_hist(hist, [("r", 0), ("c", 0), ("r", 1), ("u", 0, (None, "period", O_(2016, 1, 1), O_(2016, 12, 31), "null")),
                              ("r", 1), ("r", 0), ("c", 0), ("u", 2, (None, "open", O_(2016, 6, 1), None, "5")), ("r", 0), ("r", 2), ("r", 1)],
                       days, 22, tags=("corpus", "clone"), spell="iso"))
    grp = ("N", [("rate", ("P", hist)), ("other", ("P", [(O_(2000, 1, 1), "5")]))])
    for order in ([("r", 0), ("r", 1)], [("r", 1), ("r", 0)]):
        out.append(mk_thist(grp, [("c", 0), ("u", 1, ("rate", "open", O_(2016, 1, 1), None, "null"))] + order, days, 23,
                            tags=("corpus", "clone"), spell="iso"))
    sc = ("S", False, [([(O_(2010, 1, 1), "0")], [(O_(2010, 1, 1), "1/4")], [], []),
                       ([(O_(2010, 1, 1), "10")], [(O_(2010, 1, 1), "1/2")], [], [])])
    out.append(mk_thist(sc, [("c", 0), ("u", 1, ("1.rate", "range", O_(2016, 1, 1), O_(2017, 12, 31), "3/4")), ("r", 0), ("r", 1),
                             ("u", 0, ("0.threshold", "open", O_(2016, 6, 1), None, "null")), ("r", 1), ("r", 0)], days, 24,
                        tags=("corpus", "clone"), spell="iso"))
    # every accepted spelling of a query date denotes the same date (seeded change C06-4: ISO week dates)
    wk = [(O_(2019, 1, 1), "1"), (O_(2020, 3, 1), "2"), (O_(2020, 9, 1), "null"), (O_(2021, 1, 1), "4")]
    wdays = [dt.date.fromisocalendar(*t).toordinal() for t in [(2018, 52, 7), (2019, 1, 1), (2019, 1, 2), (2020, 9, 7), (2020, 10, 1),
                                                               (2020, 40, 3), (2020, 53, 4), (2020, 53, 5), (2021, 20, 1)]]
    for spell in ("weekdate", "week", "month-str", "year-str", "year-int", "period-month", "period-year", "date", "tuple"):
        out.append(mk_param(wk, [(None, "period", O_(2020, 5, 1), O_(2020, 5, 31), "7")],
                            ",".join(map(str, wdays)) + f",{O_(2020, 4, 27)}..{O_(2020, 6, 2)},{O_(2020, 12, 25)}..{O_(2021, 1, 5)}",
                            30, tags=("corpus", "spelling"), spell=spell))
    grp2 = ("N", [("rate", ("P", wk)), ("late", ("P", [(O_(2021, 1, 1), "10")])),
                  ("early", ("P", [(O_(2000, 1, 1), "5"), (O_(2020, 6, 1), "null")]))])
    for spell in ("weekdate", "week"):
        out.append(mk_tree(grp2, [], f"{O_(2020, 12, 25)}..{O_(2021, 1, 5)},{O_(2020, 3, 2)}", 31, tags=("corpus", "spelling"), spell=spell))
    # construction from YAML-like data: spellings of keys and values, the `values:` wrapper, reserved keys, integer keys,
    # a scale with a bracket whose threshold starts later; and data the constructors must refuse
    o15, o16 = O_(2015, 1, 1), O_(2016, 1, 1)
    qy = f"{o15 - 2}..{o15 + 2},{O_(2015, 3, 1) - 1}..{O_(2015, 3, 1) + 1},{o16 - 1}..{o16 + 1}"
    py = [(o16, "7", "y"), (o15, "5", "d"), (O_(2015, 3, 1), "null", "m"), (O_(2015, 6, 1), "expected", "d")]
    for k, style in enumerate((50, 51, 52, 53)):                  # 50-53: the three construction routes and the spellings of reads
        r2 = random.Random(style)
        out.append(mk_y("n", [(None, "period", o15, O_(2015, 1, 31), "9")] if k % 2 else [], qy, enc_param(r2, py), style, ("P", py),
                        tags=("corpus", "spelled-keys")))
    ty = ("N", [("a", ("P", [(o15, "1", "y")])), ("2", ("P", [(O_(2015, 3, 1), "2", "m"), (O_(2015, 1, 2), "null", "d")])),
                ("sub", ("N", [("c", ("P", [(o16, "3", "y")]))])),
                ("sc", ("S", False, [([(o15, "0", "y")], [(o15, "1/4", "d")], [], []), ([(O_(2015, 3, 1), "10", "m")], [(o15, "1/2", "y")], [], [])]))])
    for style in (54, 55, 56, 57):
        out.append(mk_y(("n", "-", "taxes.x", "n")[style - 54], [], qy, enc_tree(random.Random(style), ty), style, ty, tags=("corpus", "data-tree")))
    bad = ["M1 k:values M0", "M2 k:description s:x k:values ~", "M1 d735599~2015-01-01 M1 k:valeu v:5", "M1 i:2015 v:5", "v:5", "L1 v:1",
           "M1 d735599~2015-01-01 s:abc", "M1 d735599~2015-01-01 M2 k:value v:1 k:expected b:F", "M1 k:brackets M0",
           "M2 k:brackets L0 k:foo v:1", "M1 k:brackets L1 M1 k:base M0", "M2 k:a M0 k:metadata v:5", "M2 k:a M0 k:foo v:5",
           "M1 k:brackets L1 M1 k:threshold M1 k:x M0", "M2 k:2 M1 k:x M0 i:2 M1 k:x M0", "M1 d735599~2015-01-01 M1 k:value s:x"]
    for k, b_ in enumerate(bad):
        for style in (60 + k, 90 + k):
            out.append(Case(line=f"par y n - {o15 - 1}..{o15 + 1} {b_}", payload={"style": style}, claimed=False, tags=("corpus", "data-refused")))
    # a directory: children as files and sub-directories, index files, a file of another type; then listings the loader refuses
    for style in (120, 121):
        out.append(Case(line=f"par d n {qy} {fmt_dir(dir_of_tree(random.Random(style), ty))}", payload={"style": style, "tree": ty}, tags=("corpus", "dir")))
    pa = f"M1 d{o15}~2015-01-01 v:1"
    for k, d_ in enumerate([f"D2 F:a.yaml {pa} F:a.yml {pa}", f"D2 F:a.yaml {pa} S:a D0", "D1 F:index.yaml M1 k:foo v:1", "D1 F:index.yml v:5",
                            f"D2 F:index.yaml M1 k:description s:x F:index.yml M1 k:metadata ~", f"D3 F:a.txt {pa} F:index.txt v:5 F:b.yaml ~",
                            f"D2 F:index2.yaml {pa} F:values.yml {pa}", f"D1 S:sub D1 S:deep D1 F:x.yml {pa}"]):
        out.append(Case(line=f"par d n {o15 - 1}..{o15 + 1} {d_}", payload={"style": 130 + k}, claimed=False, tags=("corpus", "dir-listing")))
    # add_child on a clone / on the original after the clone was taken: nobody else sees the new child
    grp3 = ("N", [("rate", ("P", hist))])
    out.append(mk_thist(grp3, [("c", 0), ("u", 1, ("added", "add", O_(2016, 1, 1), None, "5")), ("r", 0), ("r", 1),
                               ("u", 0, ("other", "add", O_(2010, 1, 1), None, "null")), ("c", 0), ("r", 2), ("r", 1), ("r", 0)], days, 140,
                        tags=("corpus", "clone", "add-child"), spell="iso"))
    out.append(mk_tree(grp3, [("added", "add", O_(2016, 1, 1), None, "7"), ("added", "open", O_(2017, 1, 1), None, "8")], days, 141, tags=("corpus", "add-child")))
    return out


def neighbours(case: Case):
    try:
        parsed = parse_line(case.line)
    except Malformed:
        return []
    if parsed[0] != "p":
        return []
    _, entries, ups, _qs = parsed
    qs = case.line.split()[4]
    out = []
    k = 0
    for i, (c, form, a, b, v) in enumerate(ups):
        for da in (-1, 0, 1):
            for db in (-1, 0, 1):
                a2, b2 = a + da, (None if b is None else b + db)
                if (da, db) == (0, 0) or form not in VALID_FORMS or (b2 is not None and a2 > b2):
                    continue
                k += 1
                out.append(mk_param(entries, ups[:i] + [(c, form, a2, b2, v)], qs, k, True, ("neighbour",)))
        out.append(mk_param(entries, [(c, form, a, b, v)], qs, i, form in VALID_FORMS and (b is None or a <= b), ("neighbour",)))
    return out


PROP = Prop(
    unclaimed_diffs_binding=True,   # the model transcribes the code outside the claim domain too (0 differences on every run):
                                    # `claimed=False` silences the oracle only
    pid="C06",
    lean_targets=["OFCore.Props.C06"],
    driver="ofdrv_par",
    generate=generate, impl=impl, oracle=oracle, nontrivial=nontrivial,
    corpus=corpus, enumerate_thorough=enumerate_thorough, neighbours=neighbours,
    extra_lean_files=["OFCore/Param.lean", "OFCore/Lemmas/Param.lean", "OFCore/Drv/Par.lean"],
    rule=("`par p`: a Parameter built through `Parameter(name, data)` from 0-6 dated entries on a 60-day window (10 window "
          "positions: year ends, leap and non-leap Februaries, 1999/2000, 2100, 999/1000), ~14% nulls and ~8% `expected` "
          "placeholders, arbitrary declaration order and spelling (`v`, `{value: v}`, `values:` wrapper); 0-4 updates in the call "
          "forms period= (day/weekday/week/month/year strings or Period objects), start+stop, start only, with boundaries drawn "
          "from existing entry dates +-1 (equal / adjacent), enclosing, enclosed, before the first, after the last, month-aligned, "
          "single-day and random ranges, 20% null values; after construction and after each update the value is read at every day "
          "of the window +-2 and `values_list` is listed. Every read passes the query date in a spelling "
          "drawn at random among those `periods.instant` accepts for that date (ISO string, Instant, date, datetime, tuple/list, "
          "Period of any unit -> its start, ISO week date `YYYY-Www-D`, `YYYY-Www` on Mondays, `YYYY-MM` / (y, m) / month Period on "
          "the first of a month, `YYYY` / int / (y,) / year Period on 1 January; 5 of the 15 windows straddle a New Year where the "
          "ISO year differs from the civil year, incl. week 53), through `__call__` or `get_at_instant`; the spelling is "
          "implementation-side glue: the model always receives the canonical date (ordinal). `par h` / `par ht`: histories over "
          "several objects: `clone()` of a Parameter / ParameterNode / ParameterScale creates a further object, updates and reads "
          "address any object in any interleaving (read before an update, the updated object and another one read in either "
          "order, every object read at the end); each object must read what its own entries and the updates addressed to it say. "
          "Objects are built through every construction route (implementation-side glue, the model receives the declared tree): "
          "Parameter / ValuesHistory / helpers.load_parameter_file on a written YAML file; ParameterNode from a `data=` mapping "
          "(reserved keys description/metadata/unit/reference/documentation interleaved, all-digit names as int keys), from a "
          "directory of .yaml/.yml files with sub-directories, `index.yaml` and files of other types, by `add_child` on an empty "
          "node (followed by refused attempts: an existing name, a non-parameter), by `merge` of two nodes; routes are drawn "
          "independently at every level. Child names are plain, all-digit, need YAML quoting (`a-b`, `x.y`, `k'q`, `n+1`) or are a "
          "keyword. A node-at-instant is inspected through one access form drawn per snapshot: iteration + item/attribute, `name "
          "in node`, attribute access (absent = ParameterNotFoundError), item access (absent = KeyError), the last three tried on "
          "every declared child name. 20% of the node cases are groups nested 3-4 deep whose innermost members start late, are "
          "null or never start; 2% offer the same child name twice (refused on every route, not binding). Values are ints, "
          "dyadic floats, booleans, nulls and lists of those. Scales: 1-4 brackets (single bracket 40%), 20% of the brackets have a "
          "threshold that starts later than their value. "
          "`par t`: "
          "ParameterNode trees of 1-5 children (parameters, sub-nodes, scales) with 0-2 updates of child parameters, and "
          "ParameterScale objects of 1-4 brackets with independently dated threshold / rate / amount / average_rate, read at "
          "every day of a 30-day window +-2. A parameter case is non-trivial when an update changes at least one read (or, "
          "without updates, when the reads are not constant); a tree case when its snapshot varies over the window. "
          "Aliasing: in 40% of the tree cases one read is repeated after the object it returned was spoiled through its public attributes "
          "(a tax scale's thresholds / rates lists, a group's members): the second read must show nothing of it; `add_child` of a new parameter on a "
          "live group (12% of the node cases, then sometimes updated) and on one object of a clone history (22% of the steps of group histories: "
          "the clones and the original must not see each other's new children; a taken name is refused, not claimed); the mapping handed to "
          "`_parse_child` is compared with a deep copy after the construction. "
          "`par y`: objects built from YAML-like DATA, which the model receives and parses itself (the transcription of helpers._parse_child, "
          "Parameter / ParameterAtInstant / ParameterNode / ParameterScale / ParameterScaleBracket constructors with every refusing branch): "
          "declared parameters (45%, with 0-3 updates), groups (35%) and scales (20%) written with date keys spelled in full, as `YYYY-MM` "
          "(first of a month, 40% of the entries are moved there) or `YYYY` (1 January), values bare / `{value: v}` / with metadata, unit, "
          "reference, `expected` placeholders in three spellings, the `values:` wrapper with reserved keys around it, reserved keys interleaved "
          "in groups, integer keys for all-digit names, scale metadata `type`; 12% of the parameter cases carry two spellings of one first "
          "day (compared, not claimed); 25% of the cases are one edit away from well-formed data (unknown key, text value, missing `value`, "
          "`expected: false`, a name or an integer for a date key, `brackets` not a list, a bracket that is not a mapping or has an unknown "
          "field, `values` false or not a mapping, scalar `metadata`, a scalar or a list at the top, a reserved key holding a child, a bracket "
          "field that is a group): model and code must agree on refusal (ERR) or on what is built. The object is built through "
          "helpers._parse_child on the Python mapping, through helpers.load_parameter_file on a written YAML file (block and flow style, "
          "quoted and bare keys) or, for groups, through a written directory (os.listdir pinned to the declared order); reads on every day of "
          "a 78-day window in a random spelling of the date; a group lists its members and, for every declared child it does not expose, the "
          "name carried by the error `node_at.child` raises; `get_descendants()` is listed by name. "
          "`par d`: a ParameterNode built from a DIRECTORY whose listing the model receives (files with their YAML content, sub-directories, "
          "index.yaml / index.yml, files of other types); 30% are one edit away: the same stem with both extensions or as file and "
          "directory, an index with an unknown key / a scalar / scalar metadata, two index files, a file holding a scalar or nothing, a file "
          "whose stem resembles `index` or is `values` / `brackets`, a malformed child file. "
          "distinct = distinct protocol lines."),
    assumptions=[
        "instants are zero-padded ISO strings compared as strings in the code and proleptic ordinals in the model; the two orders "
        "agree on valid dates of years 1..9999 (Lemmas/Calendar.lean: ord_lt_of_lex, ord_inj); stop.offset(1, 'day') is ordinal + 1",
        "`par p/t/h/ht`: entry keys are full YYYY-MM-DD dates. `par y/d`: keys are spelled YYYY-MM-DD, YYYY-MM or YYYY; the code keeps and compares "
        "the key TEXTS, the model three ticks per day (YYYY < YYYY-MM < full spelling of the same first day; Lemmas/Param.lean fine_lt_of_lex: the order of the "
        "ticks is the order of the zero-padded texts); texts matching INSTANT_PATTERN that are no date (`2015-02-30`, `2015-01-01-01`) are not generated; keys of "
        "a mapping are distinct as texts (a Python dict also admits 2 beside '2', the YAML loader does not)",
        "`par y/d`: which exception class a refusing constructor raises is not compared (ERR); a bracket field that is not a dated parameter with numeric values is "
        "outside the model (UNSUP, not generated except by the edits); `metadata` is a mapping or a scalar (not a list or the empty text, on which dict.update behaves "
        "in ways not modelled); child names avoid the attributes of the node classes (a file `metadata.yaml` replaces the node's own metadata)",
        "Python's sorted(), dict order, bisect.bisect_left (by its contract on sorted lists) and the tax scales' add_bracket are modelled, tied by this correspondence",
        "periods.period / periods.instant / Instant.offset are the business of C04/C05; here a period argument is built to denote exactly the days a..b computed with datetime",
        "claim domain (Appendix A): start <= stop, dated values; reversed ranges and refused call forms are compared but not binding",
        "scale values are dyadic rationals on which the float additions of add_bracket are exact",
        "child names do not collide with attributes of the node classes themselves: a child named `children`, `add_child` or "
        "`_children` makes the group impossible to build or evaluate at the pinned tree (reported, not generated)",
        "update(): `start` is passed as Instant, ISO string or date, `stop` as Instant (the code calls stop.offset; str and date "
        "stops raise AttributeError at the pinned tree); text values are refused by the loader (ALLOWED_PARAM_TYPES): `par y` checks the refusal, the other kinds do not generate them",
    ],
    exhaustive_note=("thorough: all 256 subsets of entry dates of the 8-day window 2020-02-25..2020-03-03 (distinct values; and with "
                     "every second entry null) x all 55 closed ranges and 10 open starts over the window +-1 x {new value, null}, "
                     "read at every day of the window -3/+4; and all 64 subsets of the six keys `2020`, `2020-01`, `2020-01-01`, `2020-02`, "
                     "`2020-02-01`, `2020-01-15` (subsets with two spellings of one first day compared, not claimed) x all 36 closed ranges and "
                     "8 open starts over the days 2019-12-31, 01-01, 01-02, 01-14, 01-15, 01-31, 02-01, 02-02 x {new value, null}, built from data"),
    level_text=("T-full on the model: latest-entry reading, sorted construction, pointwise effect of one update (closed and open) "
                "and, by induction, of every finite sequence of updates; node members = children defined; scale rows = brackets "
                "with threshold and value defined; construction from YAML-like data and from a directory listing (dispatch, spellings of keys "
                "and values, refusals) transcribed and tied to the reading theorem (C06_data_get, C06_data_node, C06_dir_files); update on "
                "histories with short-spelled keys (C06_update_spelled). K: the real Parameter / ParameterNode / ParameterScale objects and the "
                "real loaders (helpers._parse_child, load_parameter_file on written files and directories) vs the model; the YAML parser itself "
                "(PyYAML, the duplicate-key and timestamp constructors of parameters/config.py) is exercised but not modelled."),
)
