"""C06 — a parameter's value at a date is its latest entry; edits touch only their span.

Protocol lines (driver `ofdrv_par`, see lean/OFCore/OFCore/Drv/Par.lean):

    par p <entries> <updates> <queries>          a Parameter, its updates, the days read
    par t <updates> <queries> <tree tokens …>    a ParameterNode / ParameterScale / Parameter tree
    par h <entries> <ops> <queries>              a history over several Parameter objects: clone / update / read
    par ht <ops> <queries> <tree tokens …>       the same over several trees (clones of the one declared)

Dates travel as proleptic ordinals (`datetime.date.toordinal`); the adapter turns them into the ISO
strings / `Instant`s / period strings the real API takes. Values are canonical tokens: integers,
dyadic rationals `p/q`, `T`/`F`; `null` is a YAML null, `expected` a placeholder; a read of an
undefined date prints `none` (the code returns `None` both before the first entry and on a null).
"""
from __future__ import annotations

import calendar
import datetime as dt
import json
import os
import random
import re
import shutil
import tempfile
from fractions import Fraction

from ..core import Case, Prop

D = dt.date.fromordinal
VALID_FORMS = ("period", "range", "open")
BAD_FORMS = ("both", "pstop", "nostart")
KIND_OF_CLASS = {"SingleAmountTaxScale": "single_amount", "MarginalAmountTaxScale": "marginal_amount",
                 "LinearAverageRateTaxScale": "linear_average_rate", "MarginalRateTaxScale": "marginal_rate"}
FIELDS = ("threshold", "rate", "amount", "average_rate")


RAISED = object()     # a read that raised


class Malformed(Exception):
    """the protocol line itself is malformed (the driver answers BAD)"""


# --------------------------------------------------------------------------------------
# tokens <-> python values


def iso(o: int) -> str:
    return D(o).isoformat()


def tok_of(v) -> str:
    """canonical token of a value the implementation returned"""
    if v is None:
        return "none"
    if v is RAISED:
        return "ERR"
    if isinstance(v, bool):
        return "T" if v else "F"
    if isinstance(v, (list, tuple)):
        return "L" + "_".join(tok_of(x) for x in v)
    f = Fraction(float(v)) if isinstance(v, float) else Fraction(v)
    return str(f.numerator) if f.denominator == 1 else f"{f.numerator}/{f.denominator}"


def val_of(tok: str, rs: random.Random):
    """a python value whose canonical token is `tok` (int / float chosen by the style PRNG)"""
    if tok == "null":
        return None
    if tok.startswith("L"):
        return [val_of(t, rs) for t in tok[1:].split("_")] if len(tok) > 1 else []
    if tok == "T":
        return True
    if tok == "F":
        return False
    f = Fraction(tok)
    if f.denominator == 1 and rs.random() < 0.6:
        return int(f)
    return float(f)


def check_tok(tok: str) -> None:
    if tok in ("T", "F"):
        return
    if tok.startswith("L"):
        for t in (tok[1:].split("_") if len(tok) > 1 else []):
            if t.startswith("L"):
                raise Malformed(tok)
            check_tok(t)
        return
    try:
        f = Fraction(tok)
    except (ValueError, ZeroDivisionError):
        raise Malformed(tok)
    if tok != (str(f.numerator) if f.denominator == 1 else f"{f.numerator}/{f.denominator}"):
        raise Malformed(tok)


# --------------------------------------------------------------------------------------
# parsing protocol lines (harness side; strict in the same way as the driver)


def parse_entries(s: str):
    if s == "-":
        return []
    out = []
    for f in s.split(","):
        parts = f.split(":")
        if len(parts) != 2:
            raise Malformed(f)
        try:
            d = int(parts[0])
        except ValueError:
            raise Malformed(f)
        if parts[1] not in ("null", "expected"):
            check_tok(parts[1])
        out.append((d, parts[1]))
    return out


def parse_updates(s: str, with_child: bool):
    if s == "-":
        return []
    out = []
    for f in s.split(";"):
        parts = f.split(":")
        child = None
        if with_child:
            if not parts:
                raise Malformed(f)
            child, parts = parts[0], parts[1:]
        if len(parts) != 4:
            raise Malformed(f)
        form, a, b, v = parts
        try:
            a = int(a)
            b = None if b == "-" else int(b)
        except ValueError:
            raise Malformed(f)
        if v != "null":
            check_tok(v)
        ok = (form in ("period", "range", "both", "pstop") and b is not None) or (form == "open" and b is None) \
            or form == "nostart"
        if not ok:
            raise Malformed(f)
        out.append((child, form, a, b, v))
    return out


def parse_queries(s: str):
    out = []
    for f in s.split(","):
        try:
            if ".." in f:
                lo, hi = f.split("..")
                out += list(range(int(lo), int(hi) + 1))
            else:
                out.append(int(f))
        except ValueError:
            raise Malformed(f)
    return out


def parse_tree(toks: list, i: int = 0):
    """prefix notation -> nested tuples, index of the next unread token"""
    if i >= len(toks):
        raise Malformed("tree")
    t = toks[i]
    try:
        if t == "P":
            return ("P", parse_entries(toks[i + 1])), i + 2
        if t == "S":
            if toks[i + 1] not in ("0", "1"):
                raise Malformed("meta")
            meta, n = toks[i + 1] == "1", int(toks[i + 2])
            i += 3
            brs = []
            for _ in range(n):
                brs.append(tuple(parse_entries(toks[i + j]) for j in range(4)))
                i += 4
            return ("S", meta, brs), i
        if t == "N":
            n = int(toks[i + 1])
            i += 2
            kids = []
            for _ in range(n):
                name = toks[i]
                sub, i = parse_tree(toks, i + 1)
                kids.append((name, sub))
            return ("N", kids), i
    except (IndexError, ValueError):
        raise Malformed("tree")
    raise Malformed(t)


def parse_line(line: str):
    f = line.split()
    if len(f) >= 2 and f[0] == "par" and f[1] == "p" and len(f) == 5:
        return ("p", parse_entries(f[2]), parse_updates(f[3], False), parse_queries(f[4]))
    if len(f) >= 5 and f[0] == "par" and f[1] == "t":
        tree, j = parse_tree(f[4:], 0)
        if j != len(f) - 4:
            raise Malformed("trailing")
        ups = parse_updates(f[2], True)
        for (child, *_rest) in ups:
            kids = dict(tree[1]) if tree[0] == "N" else {}
            if child not in kids or kids[child][0] != "P":
                raise Malformed("child")
        return ("t", tree, ups, parse_queries(f[3]))
    if len(f) == 5 and f[0] == "par" and f[1] == "h":
        return ("h", parse_entries(f[2]), parse_ops(f[3], None), parse_queries(f[4]))
    if len(f) >= 5 and f[0] == "par" and f[1] == "ht":
        tree, j = parse_tree(f[4:], 0)
        if j != len(f) - 4:
            raise Malformed("trailing")
        return ("ht", tree, parse_ops(f[2], tree), parse_queries(f[3]))
    raise Malformed(line[:40])


def check_addr(tree, addr: str) -> None:
    """the child an `ht` update addresses must be a dated parameter of the tree"""
    if tree[0] == "P":
        ok = addr == "-"
    elif tree[0] == "N":
        kids = dict(tree[1])
        ok = addr in kids and kids[addr][0] == "P"
    else:
        parts = addr.split(".")
        ok = len(parts) == 2 and parts[0].isdigit() and int(parts[0]) < len(tree[2]) and parts[1] in FIELDS
    if not ok:
        raise Malformed("child " + addr)


def parse_ops(s: str, tree):
    """[('c', src) | ('r', obj) | ('u', obj, (child, form, a, b, v))]; object indices must exist"""
    out, n = [], 1
    for f in s.split(";"):
        if not f:
            raise Malformed("op")
        k, rest = f[0], f[1:]
        try:
            if k in "cr":
                if not rest.isdigit() or int(rest) >= n:
                    raise Malformed(f)
                out.append((k, int(rest)))
                n += k == "c"
            elif k == "u":
                i, _, u = rest.partition(":")
                if not i.isdigit() or int(i) >= n:
                    raise Malformed(f)
                (upd,) = parse_updates(u, tree is not None)
                if tree is not None:
                    check_addr(tree, upd[0])
                    if tree[0] == "S" and upd[4] in ("T", "F"):      # scale values are numbers
                        raise Malformed(f)
                out.append(("u", int(i), upd))
            else:
                raise Malformed(f)
        except ValueError:
            raise Malformed(f)
    return out


# --------------------------------------------------------------------------------------
# the implementation adapter


def data_of_entries(entries, rs: random.Random, numeric_only=False) -> dict:
    """the `{date: …}` mapping, in the declared order, each entry in a randomly chosen spelling"""
    d = {}
    for o, tok in entries:
        if tok == "expected":
            d[iso(o)] = rs.choice(["expected", {"expected": True}, {"expected": 3}])
        else:
            v = val_of(tok, rs)
            sp = rs.randrange(3)
            d[iso(o)] = v if sp == 0 else {"value": v} if sp == 1 else {"value": v, "metadata": {"reference": "r"}}
    return d


def param_data(entries, rs: random.Random) -> dict:
    d = data_of_entries(entries, rs)
    if d and rs.random() < 0.4:
        return {"description": "c06", "values": {k: (v if isinstance(v, (dict, str)) else {"value": v}) for k, v in d.items()}}
    return d


def tree_data(tree, rs: random.Random):
    if tree[0] == "P":
        return param_data(tree[1], rs)
    if tree[0] == "S":
        brs = []
        for fields in tree[2]:
            b = {}
            for name, entries in zip(FIELDS, fields):
                if entries or rs.random() < 0.15:
                    b[name] = data_of_entries(entries, rs)
            brs.append(b)
        d = {"brackets": brs}
        if tree[1]:
            d["metadata"] = {"type": "single_amount"}
        elif rs.random() < 0.2:
            d["metadata"] = {"type": "marginal_rate"}
        return d
    return {name: tree_data(sub, rs) for name, sub in tree[1]}


# ---- construction routes (implementation-side glue: the model receives the declared tree) -------------------

DATE_KEY = re.compile(r"^\d{4}-\d{2}-\d{2}$")
PLAIN_KEY = re.compile(r"^[A-Za-z_][A-Za-z0-9_]*$")


def yaml_scalar(v) -> str:
    if v is None:
        return "null"
    if isinstance(v, bool):
        return "true" if v else "false"
    if isinstance(v, list):
        return "[" + ", ".join(yaml_scalar(x) for x in v) + "]"
    if isinstance(v, float):
        return repr(v)
    return str(v)                    # int, or the bare word `expected`


def yaml_key(k, rs: random.Random) -> str:
    if isinstance(k, int):
        return str(k)
    if DATE_KEY.match(k):            # unquoted: a YAML timestamp, handed back as text by the loader's constructor
        return k if rs.random() < 0.7 else f"'{k}'"
    if k.isdigit():
        return k if rs.random() < 0.5 else f'"{k}"'      # unquoted: loaded as an int, turned into text by the node
    return k if PLAIN_KEY.match(k) else json.dumps(k)


def yaml_block(d: dict, rs: random.Random, ind: int = 0) -> str:
    """a YAML document for the same mapping the `data=` route receives"""
    if not d:
        return " " * ind + "{}\n"
    pad, out = " " * ind, []
    for k, v in d.items():
        key = yaml_key(k, rs)
        if isinstance(v, dict):
            out.append(f"{pad}{key}:\n" + yaml_block(v, rs, ind + 2) if v else f"{pad}{key}: {{}}\n")
        elif isinstance(v, list) and any(isinstance(x, dict) for x in v):
            out.append(f"{pad}{key}:\n" + "".join(f"{pad}- {json.dumps(x)}\n" for x in v))
        elif isinstance(v, list) and not v and k == "brackets":
            out.append(f"{pad}{key}: []\n")
        else:
            out.append(f"{pad}{key}: {yaml_scalar(v)}\n")
    return "".join(out)


NODE_NOISE = [("description", "a group"), ("documentation", "c06"), ("metadata", {"unit": "currency"}), ("unit", "/1"),
              ("reference", "https://example.org")]


def node_data(tree, rs: random.Random) -> dict:
    """the mapping of a node for the `data=` / YAML routes: reserved keys interleaved (they are not members),
    all-digit names as int keys now and then"""
    d = {}
    noise = [kv for kv in NODE_NOISE if rs.random() < 0.15]
    for name, sub in tree[1]:
        if noise and rs.random() < 0.5:
            k, v = noise.pop()
            d[k] = v
        key = int(name) if name.isdigit() and str(int(name)) == name and rs.random() < 0.5 else name
        d[key] = node_data(sub, rs) if sub[0] == "N" else tree_data(sub, rs)
    d.update(noise)
    return d


def write_dir(tree, path: str, rs: random.Random) -> None:
    """a directory of YAML files for a node: one file (or sub-directory) per child, `index.yaml` for the
    node's own description, files of other types (ignored by the loader)"""
    if rs.random() < 0.5:
        with open(os.path.join(path, "index" + rs.choice([".yaml", ".yml"])), "w") as f:
            f.write(rs.choice(["description: a group\nmetadata:\n  unit: currency\n", "documentation: c06\n", "{}\n",
                               "reference: https://example.org\nunit: /1\n"]))
    if rs.random() < 0.4:
        with open(os.path.join(path, rs.choice(["README.txt", "notes.md", "zz.json", "yaml"])), "w") as f:
            f.write("2020-01-01: 1\n")
    for name, sub in tree[1]:
        if sub[0] == "N" and rs.random() < 0.6:
            os.mkdir(os.path.join(path, name))
            write_dir(sub, os.path.join(path, name), rs)
        else:
            data = node_data(sub, rs) if sub[0] == "N" else tree_data(sub, rs)
            with open(os.path.join(path, name + rs.choice([".yaml", ".yml"])), "w") as f:
                f.write(yaml_block(data, rs))


def from_yaml_file(data: dict, name: str, rs: random.Random):
    from openfisca_core.parameters import helpers
    tmp = tempfile.mkdtemp(prefix="c06-")
    try:
        path = os.path.join(tmp, "x" + rs.choice([".yaml", ".yml"]))
        with open(path, "w") as f:
            f.write(yaml_block(data, rs))
        return helpers.load_parameter_file(path, name)
    finally:
        shutil.rmtree(tmp, ignore_errors=True)


def build_param(entries, name: str, rs: random.Random):
    from openfisca_core.parameters import Parameter, ValuesHistory
    data = param_data(entries, rs)
    r = rs.random()
    if r < 0.12:
        return from_yaml_file(data, name, rs)
    return (ValuesHistory if r < 0.2 else Parameter)(name, data)


def build_obj(tree, name: str, rs: random.Random, st: dict, allow_merge: bool = True):
    """the real object for a declared tree, each node through a randomly chosen construction route.
    st["unordered"] is set when a directory was read (children then come in os.listdir order)."""
    from openfisca_core.parameters import Parameter, ParameterNode, ParameterScale
    if tree[0] == "P":
        return build_param(tree[1], name, rs)
    if tree[0] == "S":
        data = tree_data(tree, rs)
        return from_yaml_file(data, name, rs) if rs.random() < 0.15 else ParameterScale(name, data, None)
    names = [k for k, _ in tree[1]]
    route = rs.choices(["data", "dir", "add", "merge"], [5, 2, 2, 2 if allow_merge and len(names) > 1 else 0])[0]
    if len(set(names)) < len(names):
        route = "add"                                   # only add_child can be offered the same name twice
    if route == "data":
        return ParameterNode(name, data=node_data(tree, rs))
    if route == "dir":
        tmp = tempfile.mkdtemp(prefix="c06-")
        try:
            write_dir(tree, tmp, rs)
            st["unordered"] = True
            return ParameterNode(name, directory_path=tmp)
        finally:
            shutil.rmtree(tmp, ignore_errors=True)
    sub_name = lambda k: f"{name}.{k}" if name else k
    if route == "add":
        node = ParameterNode(name, data={kv[0]: kv[1] for kv in NODE_NOISE if rs.random() < 0.1})
        for k, sub in tree[1]:
            node.add_child(k, build_obj(sub, sub_name(k), rs, st))
        if names and rs.random() < 0.5:                 # a second child of an existing name is refused ...
            try:
                node.add_child(rs.choice(names), Parameter("intruder", {"0001-01-01": 424242}))
            except ValueError:
                pass
        if rs.random() < 0.3:                           # ... and so is something that is not a parameter
            try:
                node.add_child("zz_not_a_parameter", rs.choice([5, {"2020-01-01": 1}, None]))
            except TypeError:
                pass
        return node
    j = rs.randint(0, len(tree[1]))                      # merge: the first j children, then the others
    a = build_obj(("N", tree[1][:j]), name, rs, st, False) if j else ParameterNode(name, data={})
    b = (build_obj(("N", tree[1][j:]), rs.choice([name, "other"]), rs, st, False) if j < len(tree[1])
         else ParameterNode("other", data={}))
    a.merge(b)
    return a


def period_arg(a: int, b: int, rs: random.Random):
    """a `period=` argument denoting exactly the days a..b (a <= b), in a randomly chosen spelling"""
    from openfisca_core import periods
    da, db = D(a), D(b)
    n = b - a + 1
    forms = [f"day:{da.isoformat()}:{n}", f"weekday:{da.isoformat()}:{n}"]
    if n == 1:
        forms.append(da.isoformat())
    if da.weekday() == 0 and n % 7 == 0:
        forms.append(f"week:{da.isoformat()}:{n // 7}")
    if da.day == 1 and db.day == calendar.monthrange(db.year, db.month)[1]:
        k = (db.year - da.year) * 12 + db.month - da.month + 1
        forms += [f"month:{da.year:04d}-{da.month:02d}:{k}"] * 2
        if k == 1:
            forms += [f"{da.year:04d}-{da.month:02d}"] * 2
        if da.month == 1 and k % 12 == 0:
            forms += [f"year:{da.year:04d}:{k // 12}"] * 2
    s = rs.choice(forms)
    return periods.period(s) if rs.random() < 0.4 else s


def update_kwargs(form: str, a: int, b, vtok: str, rs: random.Random) -> dict:
    """the keyword arguments of `Parameter.update` for the requested call form"""
    from openfisca_core import periods
    v = val_of(vtok, rs)
    inst = lambda o: periods.instant(iso(o))
    start = lambda o: rs.choice([inst(o), inst(o), iso(o), D(o)])
    if form == "period":
        if a > b:   # no period denotes a reversed range: use the start/stop form (unclaimed anyway)
            return dict(start=inst(a), stop=inst(b), value=v)
        return dict(period=period_arg(a, b, rs), value=v)
    if form == "range":
        return dict(start=start(a), stop=inst(b), value=v)
    if form == "open":
        return dict(start=start(a), value=v)
    if form == "both":
        return dict(period=period_arg(min(a, b), max(a, b), rs), start=inst(a), value=v)
    if form == "pstop":
        return dict(period=period_arg(min(a, b), max(a, b), rs), stop=inst(b), value=v)
    if form == "nostart":
        return dict(stop=None if b is None else inst(b), value=v)
    raise Malformed(form)


def call_update(p, form: str, a: int, b, vtok: str, rs: random.Random) -> bool:
    """issue the update through the public API; False when the implementation raised"""
    kw = update_kwargs(form, a, b, vtok, rs)
    try:
        p.update(**kw)
    except Exception:
        return False
    return True


# Every spelling of a date that `periods.instant` accepts (checked against the pinned tree: ISO string,
# Instant, date, datetime, (y, m, d) tuple / list, any Period -> its start, ISO week date `YYYY-Www-D`, and when
# the date allows it `YYYY-Www` (Mondays), `YYYY-MM` / (y, m) / month Period (first of month), `YYYY` / int /
# (y,) / year Period (1 January)). Which date a spelling denotes is computed here with datetime only.
SPELL_WEIGHTS = {"iso": 5, "instant": 3, "date": 3, "weekdate": 5, "week": 6, "datetime": 1, "tuple": 1, "list": 1,
                 "period-day": 2, "period-str": 1, "period-weekday": 1, "period-unaligned": 1, "period-week": 2,
                 "month-str": 6, "month-tuple": 2, "period-month": 3, "year-str": 6, "year-int": 6, "year-tuple": 2,
                 "period-year": 3}
_SPELL_CACHE: dict = {}


def valid_spellings(o: int):
    r = _SPELL_CACHE.get(o)
    if r is None:
        d = D(o)
        names = ["iso", "instant", "date", "weekdate", "datetime", "tuple", "list", "period-day", "period-str",
                 "period-weekday", "period-unaligned"]
        if d.isoweekday() == 1:
            names += ["week", "period-week"]
        if d.day == 1:
            names += ["month-str", "month-tuple", "period-month"]
            if d.month == 1:
                names += ["year-str", "year-int", "year-tuple", "period-year"]
        r = _SPELL_CACHE[o] = (names, [SPELL_WEIGHTS[n] for n in names])
    return r


def spell(o: int, name: str, rs: random.Random):
    from openfisca_core import periods
    from openfisca_core.periods import DateUnit, Instant, Period
    d = D(o)
    y, m, dd = d.year, d.month, d.day
    inst = lambda: Instant((y, m, dd))
    n = rs.choice([1, 1, 2, 3])
    if name == "iso":
        return d.isoformat()
    if name == "instant":
        return inst()
    if name == "date":
        return d
    if name == "datetime":
        return dt.datetime(y, m, dd, rs.randrange(24), rs.randrange(60))
    if name == "tuple":
        return (y, m, dd)
    if name == "list":
        return [y, m, dd]
    if name in ("weekdate", "week"):
        iy, iw, iwd = d.isocalendar()
        return f"{iy:04d}-W{iw:02d}-{iwd}" if name == "weekdate" else f"{iy:04d}-W{iw:02d}"
    if name == "period-day":
        return Period((DateUnit.DAY, inst(), n))
    if name == "period-str":
        return periods.period(f"day:{d.isoformat()}:{n}")
    if name == "period-weekday":
        return Period((DateUnit.WEEKDAY, inst(), n))
    if name == "period-unaligned":
        return Period((rs.choice([DateUnit.MONTH, DateUnit.YEAR, DateUnit.WEEK]), inst(), n))
    if name == "period-week":
        return Period((DateUnit.WEEK, inst(), n))
    if name == "month-str":
        return f"{y:04d}-{m:02d}"
    if name == "month-tuple":
        return rs.choice([(y, m), [y, m]])
    if name == "period-month":
        return rs.choice([Period((DateUnit.MONTH, inst(), n)), periods.period(f"{y:04d}-{m:02d}")])
    if name == "year-str":
        return f"{y:04d}"
    if name == "year-int":
        return y
    if name == "year-tuple":
        return rs.choice([(y,), [y]])
    if name == "period-year":
        return rs.choice([Period((DateUnit.YEAR, inst(), n)), periods.period(y)])
    raise ValueError(name)


def read_at(obj, o: int, rs: random.Random):
    names, weights = valid_spellings(o)
    forced = getattr(rs, "force_spelling", None)
    name = forced if forced in names else rs.choices(names, weights)[0]
    q = spell(o, name, rs)
    call = rs.random() < 0.5
    try:
        return obj(q) if call else obj.get_at_instant(q)
    except Exception:
        return RAISED


ACCESS_FORMS = ("iter", "in", "attr", "item")


def members_of(x, declared: list, rs: random.Random, unordered: bool):
    """[(name, value)] of a node-at-instant, found through one of its access forms: iteration (+ item or
    attribute), `name in node`, attribute access (absent = ParameterNotFoundError), item access (absent =
    KeyError). For the last three every declared child name is tried, defined at that date or not."""
    from openfisca_core.errors import ParameterNotFoundError
    listed = list(x)
    form = rs.choice(ACCESS_FORMS)
    out = []
    if form == "iter":
        names = sorted(listed, key=lambda k: declared.index(k) if k in declared else len(declared)) if unordered else listed
        return [(k, x[k] if rs.random() < 0.5 else getattr(x, k)) for k in names]
    for k in dict.fromkeys(declared):
        if form == "in":
            if k in x:
                out.append((k, getattr(x, k) if rs.random() < 0.5 else x[k]))
        elif form == "attr":
            try:
                out.append((k, getattr(x, k)))
            except ParameterNotFoundError:
                pass
        else:
            try:
                out.append((k, x[k]))
            except KeyError:
                pass
    out += [(k, x[k]) for k in listed if k not in declared]       # a member nobody declared would show here
    return out


def show_snap(x, tree=None, rs=None, unordered=False) -> str:
    from openfisca_core.parameters import ParameterNodeAtInstant
    if x is None:
        return "none"
    if x is RAISED:
        return "ERR"
    if isinstance(x, ParameterNodeAtInstant):
        if tree is None or tree[0] != "N":
            return "{" + ",".join(f"{k}={show_snap(x[k])}" for k in list(x)) + "}"
        subs = {}
        for k, sub in tree[1]:
            subs.setdefault(k, sub)
        try:
            mem = members_of(x, [k for k, _ in tree[1]], rs, unordered)
        except Exception:
            return "ERR"
        return "{" + ",".join(f"{k}={show_snap(v, subs.get(k), rs, unordered)}" for k, v in mem) + "}"
    cls = type(x).__name__
    if cls in KIND_OF_CLASS:
        vals = x.amounts if hasattr(x, "amounts") else x.rates
        return KIND_OF_CLASS[cls] + "[" + ",".join(f"{tok_of(t)}:{tok_of(r)}" for t, r in zip(x.thresholds, vals)) + "]"
    return tok_of(x)


def stage_p(p, qs, rs) -> str:
    ents = ",".join(f"{dt.date.fromisoformat(v.instant_str).toordinal()}={'null' if v.value is None else tok_of(v.value)}"
                    for v in p.values_list)
    return ents + "@" + ",".join(tok_of(read_at(p, q, rs)) for q in qs)


def impl(case: Case) -> str:
    from openfisca_core.parameters import Parameter, ParameterNode, ParameterScale
    try:
        parsed = parse_line(case.line)
    except Malformed:
        return "BAD"
    rs = random.Random((case.payload or {}).get("style", 0))
    rs.force_spelling = (case.payload or {}).get("spell")
    if parsed[0] in ("h", "ht"):
        return impl_history(parsed, rs)
    if parsed[0] == "p":
        _, entries, ups, qs = parsed
        try:
            p = build_param(entries, "p", rs)
        except Exception:
            return "ERR"
        stages = [stage_p(p, qs, rs)]
        for (_c, form, a, b, v) in ups:
            ok = call_update(p, form, a, b, v, rs)
            stages.append(stage_p(p, qs, rs) if ok else "ERR")
        return "|".join(stages)
    _, tree, ups, qs = parsed
    st: dict = {}
    try:
        obj = build_obj(tree, "n", rs, st)
    except Exception:
        return "ERR"
    stage = lambda: ";".join(show_snap(read_at(obj, q, rs), tree, rs, st.get("unordered", False)) for q in qs)
    stages = [stage()]
    for (child, form, a, b, v) in ups:
        try:                 # a declared child that cannot be reached counts as an update that raised
            target = obj.children[child] if rs.random() < 0.5 else getattr(obj, child)
        except (KeyError, AttributeError):
            stages.append("ERR")
            continue
        ok = call_update(target, form, a, b, v, rs)
        stages.append(stage() if ok else "ERR")
    return "|".join(stages)


def target_of(obj, tree, addr: str, rs: random.Random):
    """the real Parameter an `ht` update addresses"""
    if tree[0] == "P":
        return obj
    if tree[0] == "N":
        return obj.children[addr] if rs.random() < 0.5 else getattr(obj, addr)
    i, field = addr.split(".")
    br = obj.brackets[int(i)] if rs.random() < 0.5 else obj[int(i)]
    return br.children[field] if rs.random() < 0.5 else getattr(br, field)


def impl_history(parsed, rs: random.Random) -> str:
    from openfisca_core.parameters import Parameter
    kind, first, ops, qs = parsed
    st: dict = {}
    try:
        objs = [build_param(first, "p", rs) if kind == "h" else build_obj(first, "n", rs, st)]
    except Exception:
        return "ERR"
    unordered = st.get("unordered", False)
    out = []
    for op in ops:
        if op[0] == "c":
            objs.append(objs[op[1]].clone())
            out.append("c")
        elif op[0] == "r":
            o = objs[op[1]]
            out.append(stage_p(o, qs, rs) if kind == "h"
                       else ";".join(show_snap(read_at(o, q, rs), first, rs, unordered) for q in qs))
        else:
            _, i, (child, form, a, b, v) = op
            try:
                target = objs[i] if kind == "h" else target_of(objs[i], first, child, rs)
            except (KeyError, AttributeError, IndexError):
                out.append("ERR")
                continue
            out.append("u" if call_update(target, form, a, b, v, rs) else "ERR")
    return "|".join(out)


# --------------------------------------------------------------------------------------
# the oracle: the property statement, computed naively from the declared data


def latest(entries, q: int) -> str:
    """value token of the declared (non-placeholder) entry with the greatest date <= q"""
    best = None
    for o, tok in entries:
        if tok != "expected" and o <= q and (best is None or o > best[0]):
            best = (o, tok)
    return "none" if best is None or best[1] == "null" else best[1]


def overlay(entries, ups, q: int) -> str:
    """value after a sequence of (a, b|None, vtok) updates: the last one covering q wins"""
    v = latest(entries, q)
    for a, b, vt in ups:
        if a <= q and (b is None or q <= b):
            v = "none" if vt == "null" else vt
    return v


def _rat(tok: str) -> Fraction:
    return Fraction(tok)


def _show_rat(f: Fraction) -> str:
    return str(f.numerator) if f.denominator == 1 else f"{f.numerator}/{f.denominator}"


def expect_scale(meta: bool, brs, q: int, ups: dict | None = None):
    ups = ups or {}
    at = [[overlay(f, ups.get(f"{i}.{FIELDS[j]}", []), q) for j, f in enumerate(fields)]
          for i, fields in enumerate(brs)]                     # threshold, rate, amount, average_rate
    if meta:
        kind, col = "single_amount", 2
    elif any(b[2] != "none" for b in at):
        kind, col = "marginal_amount", 2
    elif any(b[3] != "none" for b in at):
        kind, col = "linear_average_rate", 3
    else:
        kind, col = "marginal_rate", 1
    rows: dict = {}
    for b in at:
        if b[0] != "none" and b[col] != "none":
            rows[_rat(b[0])] = rows.get(_rat(b[0]), Fraction(0)) + _rat(b[col])
    return ("scale", kind, [(_show_rat(t), _show_rat(rows[t])) for t in sorted(rows)])


def expect_snap(tree, ups: dict, q: int):
    """('val', tok) | ('scale', kind, rows) | ('node', [(name, snap)]) | None.
    `ups`: the updates this object received, per address ('-' = the parameter itself, a child name of the
    top node, 'i.field' of a top-level scale), each a list of (a, b|None, value token)"""
    if tree[0] == "P":
        v = overlay(tree[1], ups.get("-", []), q)
        return None if v == "none" else ("val", v)
    if tree[0] == "S":
        return expect_scale(tree[1], tree[2], q, ups)
    kids = []
    for name, sub in tree[1]:
        s = expect_snap(sub, {"-": ups.get(name, [])} if sub[0] == "P" else {}, q)
        if s is not None:                      # exactly the members defined at q
            kids.append((name, s))
    return ("node", kids)


def parse_snap(s: str):
    """inverse of show_snap"""
    def go(i):
        if s.startswith("none", i) and (i + 4 == len(s) or s[i + 4] in ",}"):
            return None, i + 4
        if s[i] == "{":
            kids = []
            i += 1
            while s[i] != "}":
                j = s.index("=", i)
                name = s[i:j]
                sub, i = go(j + 1)
                kids.append((name, sub))
                if s[i] == ",":
                    i += 1
            return ("node", kids), i + 1
        j = i
        while j < len(s) and s[j] not in ",}[":
            j += 1
        if j < len(s) and s[j] == "[":
            k = s.index("]", j)
            body = s[j + 1:k]
            rows = [tuple(r.split(":")) for r in body.split(",")] if body else []
            return ("scale", s[i:j], rows), k + 1
        return ("val", s[i:j]), j
    r, i = go(0)
    if i != len(s):
        raise ValueError("trailing " + s[i:])
    return r


def diff_snap(want, got, path="") -> tuple | None:
    if want == got:
        return None
    if want is None or got is None or want[0] != got[0]:
        return ("node-members", f"{path or 'top'}: expected {want}, got {got}")
    if want[0] == "node":
        wn, gn = [k for k, _ in want[1]], [k for k, _ in got[1]]
        if wn != gn:
            return ("node-members", f"{path or 'top'}: members {gn}, the children defined at that date are {wn}")
        for (k, w), (_, g) in zip(want[1], got[1]):
            r = diff_snap(w, g, path + "." + k)
            if r:
                return r
        return None
    if want[0] == "scale":
        return ("scale-brackets", f"{path or 'top'}: scale {got[1:]}, the brackets defined at that date give {want[1:]}")
    return ("node-values", f"{path or 'top'}: value {got[1]}, the child reads {want[1]}")


def _order(stage: str, when: str):
    """`values_list` keeps one entry per date, most recent first (otherwise "its most recent entry on or
    before a date" is not well defined)"""
    ents = stage.split("@")[0]
    dates = [int(e.split("=")[0]) for e in ents.split(",")] if ents else []
    for x, y in zip(dates, dates[1:]):
        if not y < x:
            return ("values-list-order", f"after {when} values_list is not strictly decreasing by date: "
                                         f"{iso(x)} is followed by {iso(y)}")
    return None


def oracle(case: Case, out: str):
    if not case.claimed:
        return None
    try:
        parsed = parse_line(case.line)
    except Malformed:
        return None
    if out == "ERR" or out == "BAD":
        return ("construct", "building the parameter from well-formed data raised")
    stages = out.split("|")
    if parsed[0] in ("h", "ht"):
        return oracle_history(parsed, stages)
    if parsed[0] == "p":
        _, entries, ups, qs = parsed
        if len(stages) != len(ups) + 1:
            return ("shape", "wrong number of stages")
        reads0 = stages[0].split("@")[1].split(",")
        for q, r in zip(qs, reads0):
            w = latest(entries, q)
            if r != w:
                sig = "undefined-before-first" if not any(o <= q and t != "expected" for o, t in entries) else "get-latest"
                return (sig, f"fresh parameter reads {r} at {iso(q)}; its latest entry on or before that date gives {w}")
        r = _order(stages[0], "construction")
        if r:
            return r
        prev = reads0
        for i, (_c, form, a, b, v) in enumerate(ups, 1):
            if stages[i] == "ERR":
                return ("update-raised", f"update #{i} ({form} {iso(a)}..{iso(b) if b is not None else 'open'}) raised")
            cur = stages[i].split("@")[1].split(",")
            r = _order(stages[i], f"update #{i} ({form} {iso(a)}..{iso(b) if b is not None else 'open'})")
            if r:
                return r
            vt = "none" if v == "null" else v
            for q, r, pr in zip(qs, cur, prev):
                inside = a <= q and (b is None or q <= b)
                if inside and r != vt:
                    return ("update-inside", f"after update #{i} ({form} {iso(a)}..{iso(b) if b is not None else 'open'} := {v}) "
                                             f"the value at {iso(q)} (inside the range) is {r}")
                if not inside and r != pr:
                    return ("update-outside", f"after update #{i} ({form} {iso(a)}..{iso(b) if b is not None else 'open'} := {v}) "
                                              f"the value at {iso(q)} (outside the range) changed from {pr} to {r}")
            prev = cur
        return None
    _, tree, ups, qs = parsed
    if len(stages) != len(ups) + 1:
        return ("shape", "wrong number of stages")
    applied: dict = {}
    for i, st in enumerate(stages):
        if i > 0:
            child, form, a, b, v = ups[i - 1]
            if st == "ERR":
                return ("update-raised", f"update #{i} of child {child} raised")
            applied.setdefault(child, []).append((a, b, v))
        snaps = st.split(";")
        if len(snaps) != len(qs):
            return ("shape", "wrong number of snapshots")
        for q, s in zip(qs, snaps):
            want = expect_snap(tree, applied, q)
            r = diff_snap(want, parse_snap(s))
            if r:
                return (r[0], f"stage {i}, {iso(q)}: {r[1]}")
    return None


def oracle_history(parsed, items):
    """Each object reads what its OWN history says: its declared entries overlaid by the updates addressed
    to it (and, for a clone, those its source had received when it was cloned) — whatever was done to, or
    read from, the other objects in between."""
    kind, first, ops, qs = parsed
    if len(items) != len(ops):
        return ("shape", "wrong number of answers")
    own: list = [{}]                       # per object: address -> [(a, b, value token)]
    for k, (op, it) in enumerate(zip(ops, items), 1):
        if op[0] == "c":
            own.append({a: list(u) for a, u in own[op[1]].items()})
        elif op[0] == "u":
            _, i, (child, form, a, b, v) = op
            if it == "ERR":
                return ("update-raised", f"op #{k}: update of object {i} ({form} {iso(a)}..{iso(b) if b is not None else 'open'}) raised")
            own[i].setdefault(child if kind == "ht" else "-", []).append((a, b, v))
        else:
            i = op[1]
            pre = "clone:" if len(own) > 1 else ""
            what = f"op #{k}: object {i}" + (" (a clone)" if i > 0 else " (the original)") + f" of {len(own)}"
            if kind == "h":
                r = _order(it, what)
                if r:
                    return r
                reads = it.split("@")[1].split(",")
                if len(reads) != len(qs):
                    return ("shape", "wrong number of reads")
                mine = own[i].get("-", [])
                for q, r in zip(qs, reads):
                    w = overlay(first, mine, q)
                    if r != w:
                        cov = [u for u in mine if u[0] <= q and (u[1] is None or q <= u[1])]
                        sig = "update-inside" if cov else "update-outside" if mine else "get-latest"
                        return (pre + sig, f"{what} reads {r} at {iso(q)}; its own entries and the {len(mine)} update(s) "
                                           f"addressed to it give {w}")
            else:
                snaps = it.split(";")
                if len(snaps) != len(qs):
                    return ("shape", "wrong number of snapshots")
                for q, s in zip(qs, snaps):
                    r = diff_snap(expect_snap(first, own[i], q), parse_snap(s))
                    if r:
                        return (pre + r[0], f"{what}, {iso(q)}: {r[1]}")
    return None


def nontrivial(case: Case, out: str) -> bool:
    stages = out.split("|")
    if case.line.startswith("par h"):
        reads = {s for s in stages if s not in ("c", "u", "ERR", "BAD")}
        return len(reads) > 1
    if case.line.startswith("par p"):
        reads = [s.split("@")[1] for s in stages if "@" in s]
        if len(reads) >= 2:
            return any(x != y for x, y in zip(reads, reads[1:]))
        return len(reads) == 1 and len(set(reads[0].split(","))) > 1
    if stages and stages[0] not in ("ERR", "BAD"):
        return len(set(stages[0].split(";"))) > 1
    return False


# --------------------------------------------------------------------------------------
# generation

# windows start here; several straddle a New Year where the ISO year differs from the civil year (2020-W53 runs to
# 2021-01-03, 2015-W53 to 2016-01-03, 2018-12-31 and 2024-12-30 belong to W01 of the next ISO year, 2026-W53)
BASES = [dt.date(2019, 12, 10), dt.date(2020, 1, 25), dt.date(2021, 1, 20), dt.date(2023, 12, 31), dt.date(2024, 2, 1),
         dt.date(1999, 11, 30), dt.date(2100, 2, 1), dt.date(999, 12, 1), dt.date(2016, 5, 2), dt.date(2000, 2, 29),
         dt.date(2020, 12, 8), dt.date(2015, 12, 14), dt.date(2018, 12, 20), dt.date(2024, 12, 16), dt.date(2026, 12, 20)]
VALUE_POOL = ["0", "1", "2", "3", "5", "7", "10", "12", "100", "-4", "1/2", "3/4", "7/2", "-5/8", "25/2", "T", "F"]


def gen_value(rng: random.Random, null_p=0.2) -> str:
    if rng.random() < null_p:
        return "null"
    r = rng.random()
    if r < 0.06:                              # lists are values too (ALLOWED_PARAM_TYPES)
        return "L" + "_".join(rng.choice(VALUE_POOL) for _ in range(rng.randint(0, 3)))
    return rng.choice(VALUE_POOL) if r < 0.72 else str(rng.randint(-50, 400))


def gen_history(rng: random.Random, lo: int, hi: int, nmax=6, numeric=None):
    n = rng.choice([0, 1, 1, 2, 2, 3, 3, 4, 5, 6]) if nmax >= 6 else rng.randint(0, nmax)
    if rng.random() < 0.25 and n >= 2:      # a run of consecutive days
        s = rng.randint(lo, hi - n)
        days = list(range(s, s + n))
    else:
        days = rng.sample(range(lo, hi + 1), n)
    rng.shuffle(days)                        # declaration order is arbitrary
    out = []
    for d in days:
        r = rng.random()
        if r < 0.08:
            out.append((d, "expected"))
        elif numeric is not None:
            out.append((d, "null" if r < 0.22 else rng.choice(numeric)))
        else:
            out.append((d, gen_value(rng, 0.14)))
    return out


def month_ranges(lo: int, hi: int):
    out = []
    d = D(lo).replace(day=1)
    while d.toordinal() <= hi:
        last = d.replace(day=calendar.monthrange(d.year, d.month)[1])
        out.append((d.toordinal(), last.toordinal()))
        d = last + dt.timedelta(days=1)
    return out


def gen_range(rng: random.Random, dates: list, lo: int, hi: int):
    """(a, b, tag): boundaries equal / adjacent to existing entry dates, enclosing, enclosed, before the
    first, after the last, month-aligned, random"""
    ds = sorted(set(dates))
    kind = rng.choice(["pool", "pool", "pool", "enclosing", "enclosed", "before", "after", "month", "random", "single"])
    if not ds and kind in ("enclosing", "enclosed", "before", "after", "pool"):
        kind = "random"
    if kind == "pool":
        pool = [d + k for d in ds for k in (-1, 0, 1)] + [lo, hi]
        a, b = rng.choice(pool), rng.choice(pool) + rng.choice([0, -1, -1, 0, 1])
    elif kind == "enclosing":
        a, b = ds[0] - rng.randint(0, 3), ds[-1] + rng.randint(-1, 3)
    elif kind == "enclosed":
        i = rng.randrange(len(ds))
        l, h = ds[i], (ds[i + 1] if i + 1 < len(ds) else hi + 3)
        if h - l < 3:
            a, b = l, l
        else:
            a = rng.randint(l + 1, h - 2)
            b = rng.randint(a, h - 2)
    elif kind == "before":
        b = ds[0] - rng.choice([1, 1, 2, 3, 5])
        a = b - rng.randint(0, 6)
    elif kind == "after":
        a = ds[-1] + rng.choice([0, 1, 1, 2, 5])
        b = a + rng.randint(0, 6)
    elif kind == "month":
        ms = month_ranges(lo, hi)
        i = rng.randrange(len(ms))
        j = min(len(ms) - 1, i + rng.choice([0, 0, 0, 1]))
        a, b = ms[i][0], ms[j][1]
    elif kind == "single":
        a = b = rng.choice(ds + [lo, hi]) + rng.choice([-1, 0, 0, 1])
    else:
        a, b = rng.randint(lo - 3, hi + 3), rng.randint(lo - 3, hi + 3)
    if a > b and rng.random() < 0.9:
        a, b = b, a
    return a, b, kind


def classify(a: int, b, dates: list) -> str:
    ds = sorted(set(dates))
    if not ds:
        return "r:empty-history"
    if b is None:
        return "r:open-" + ("before" if a < ds[0] else "after" if a > ds[-1] else "on" if a in ds else "mid")
    if a > b:
        return "r:reversed"
    if b < ds[0]:
        return "r:before-first" + ("-adjacent" if b + 1 == ds[0] else "")
    if a > ds[-1]:
        return "r:after-last"
    if a <= ds[0] and b >= ds[-1]:
        return "r:enclosing"
    inside = [d for d in ds if a <= d <= b]
    t = "r:enclosed" if not inside and (b + 1) not in ds else "r:overlap"
    if a in ds:
        t += "+start-on-entry"
    if (b + 1) in ds:
        t += "+stop-adjacent"
    if b in ds:
        t += "+stop-on-entry"
    return t


def gen_updates(rng: random.Random, dates: list, lo: int, hi: int, n: int, child=None):
    ups, tags, claimed = [], [], True
    dates = list(dates)
    for _ in range(n):
        r = rng.random()
        a, b, _kind = gen_range(rng, dates, lo, hi)
        v = gen_value(rng, 0.2)
        if r < 0.03:
            form = rng.choice(BAD_FORMS)
            claimed = False
            if a > b:
                a, b = b, a
            if form == "nostart" and rng.random() < 0.5:
                b = None
        else:
            form = rng.choice(["period", "period", "range", "range", "open"])
            if form == "open":
                b = None
            elif a > b:
                claimed = False
                form = "range"
        tags.append(classify(a, b, dates) if form in VALID_FORMS else "r:refused-call")
        tags.append("f:" + form)
        ups.append((child, form, a, b, v))
        if form in VALID_FORMS:
            dates.append(a)
            if b is not None:
                dates.append(b + 1)
    return ups, tags, claimed


def fmt_entries(es) -> str:
    return ",".join(f"{d}:{t}" for d, t in es) if es else "-"


def fmt_updates(ups) -> str:
    if not ups:
        return "-"
    return ";".join((f"{c}:" if c is not None else "") + f"{f}:{a}:{'-' if b is None else b}:{v}" for c, f, a, b, v in ups)


def fmt_tree(tree) -> str:
    if tree[0] == "P":
        return "P " + fmt_entries(tree[1])
    if tree[0] == "S":
        return f"S {1 if tree[1] else 0} {len(tree[2])} " + " ".join(" ".join(fmt_entries(f) for f in br) for br in tree[2])
    return f"N {len(tree[1])} " + " ".join(f"{k} {fmt_tree(s)}" for k, s in tree[1])


def _payload(style: int, spell=None) -> dict:
    return {"style": style} if spell is None else {"style": style, "spell": spell}


def mk_param(entries, ups, qs: str, style: int, claimed=True, tags=(), spell=None) -> Case:
    return Case(line=f"par p {fmt_entries(entries)} {fmt_updates(ups)} {qs}", payload=_payload(style, spell),
                claimed=claimed, tags=("param",) + tuple(tags))


def mk_tree(tree, ups, qs: str, style: int, claimed=True, tags=(), spell=None) -> Case:
    return Case(line=f"par t {fmt_updates(ups)} {qs} {fmt_tree(tree)}".rstrip(), payload=_payload(style, spell),
                claimed=claimed, tags=tuple(tags))


def fmt_ops(ops) -> str:
    return ";".join(f"{op[0]}{op[1]}" if op[0] in "cr" else f"u{op[1]}:" + fmt_updates([op[2]]) for op in ops)


def mk_hist(entries, ops, qs: str, style: int, claimed=True, tags=(), spell=None) -> Case:
    return Case(line=f"par h {fmt_entries(entries)} {fmt_ops(ops)} {qs}", payload=_payload(style, spell),
                claimed=claimed, tags=("history",) + tuple(tags))


def mk_thist(tree, ops, qs: str, style: int, claimed=True, tags=(), spell=None) -> Case:
    return Case(line=f"par ht {fmt_ops(ops)} {qs} {fmt_tree(tree)}", payload=_payload(style, spell),
                claimed=claimed, tags=("tree-history",) + tuple(tags))


def gen_ops(rng: random.Random, lo: int, hi: int, addresses):
    """A history over several objects. `addresses(rng)` -> (addr, dates, value pool | None) of a parameter
    that can be updated in any object (all objects are clones of one another, so they share the addresses).
    Reads are placed before updates, after them on the updated object and on the others in either order, and
    on every object at the end."""
    ops, tags, claimed = [], [], True
    dates: list = [{}]                       # per object: addr -> dates added by updates
    if rng.random() < 0.5:
        ops.append(("r", 0))
    for step in range(rng.randint(2, 6)):
        r = rng.random()
        if (step == 0 and r < 0.75) or (r < 0.2 and len(dates) < 4):
            src = rng.randrange(len(dates))
            ops.append(("c", src))
            dates.append({k: list(v) for k, v in dates[src].items()})
            if rng.random() < 0.3:
                ops.append(("r", rng.randrange(len(dates))))
            continue
        i = rng.randrange(len(dates))
        if rng.random() < 0.45:                                   # something is read before the update
            ops.append(("r", rng.randrange(len(dates))))
        addr, base_dates, pool = addresses(rng)
        ups, t, c = gen_updates(rng, base_dates + dates[i].get(addr, []), lo, hi, 1, child=addr)
        child, form, a, b, v = ups[0]
        if pool is not None and v != "null":
            v = rng.choice(pool)
        ops.append(("u", i, (child, form, a, b, v)))
        tags += t
        claimed = claimed and c
        if form in VALID_FORMS:
            dates[i].setdefault(addr, []).extend([a] if b is None else [a, b + 1])
        order = list(range(len(dates)))
        rng.shuffle(order)
        if rng.random() < 0.7 and len(order) > 1:                 # the updated object and another one, either order
            other = rng.choice([j for j in order if j != i])
            pair = [i, other]
            rng.shuffle(pair)
            order = pair
        for j in order[:rng.choice([1, 2, 2, 3])]:
            ops.append(("r", j))
    order = list(range(len(dates)))
    rng.shuffle(order)
    ops += [("r", j) for j in order]
    tags.append(f"objects={len(dates)}")
    return ops, tags, claimed


def gen_hist_case(rng: random.Random) -> Case:
    lo = rng.choice(BASES).toordinal()
    hi = lo + 39
    entries = gen_history(rng, lo, hi)
    ds = [d for d, t in entries if t != "expected"]
    ops, tags, claimed = gen_ops(rng, lo, hi, lambda r: (None, ds, None))
    return mk_hist(entries, ops, f"{lo - 2}..{hi + 2}", rng.getrandbits(30), claimed, tags)


def gen_thist_case(rng: random.Random) -> Case:
    lo = rng.choice(BASES).toordinal()
    hi = lo + 29
    r = rng.random()
    if r < 0.6:
        while True:
            tree = gen_deep(rng, lo, hi) if rng.random() < 0.2 else gen_node(rng, lo, hi)
            params = [(k, s) for k, s in tree[1] if s[0] == "P"]
            if params:
                break

        def addresses(r2):
            k, sub = r2.choice(params)
            return k, [d for d, t in sub[1] if t != "expected"], None
        kind = "node"
    elif r < 0.85:
        while True:
            tree, _fl = gen_scale(rng, lo, hi)
            fields = [(f"{i}.{FIELDS[j]}", f, (THRESHOLDS, RATES, AMOUNTS, RATES)[j])
                      for i, br in enumerate(tree[2]) for j, f in enumerate(br) if f]
            if fields:
                break

        def addresses(r2):
            addr, f, pool = r2.choice(fields)
            return addr, [d for d, t in f if t != "expected"], pool
        kind = "scale"
    else:
        tree = ("P", gen_history(rng, lo, hi, 4))
        ds = [d for d, t in tree[1] if t != "expected"]
        addresses = lambda r2: ("-", ds, None)
        kind = "param"
    ops, tags, claimed = gen_ops(rng, lo, hi, addresses)
    return mk_thist(tree, ops, f"{lo - 2}..{hi + 2}", rng.getrandbits(30), claimed, tags + ["top:" + kind])


def gen_param_case(rng: random.Random) -> Case:
    lo = rng.choice(BASES).toordinal()
    hi = lo + 59
    entries = gen_history(rng, lo, hi)
    nup = rng.choice([0, 1, 1, 2, 2, 3, 4])
    ups, tags, claimed = gen_updates(rng, [d for d, t in entries if t != "expected"], lo, hi, nup)
    qs = f"{lo - 2}..{hi + 2}"
    if rng.random() < 0.3:
        qs += f",{lo - 400},{hi + 400},{lo - 31},{hi + 31}"
    tags += [f"entries={len(entries)}", f"updates={nup}"]
    return mk_param(entries, ups, qs, rng.getrandbits(30), claimed, tags)


THRESHOLDS = ["0", "5", "10", "15/2", "20", "100"]
RATES = ["0", "1/16", "1/8", "1/4", "1/2", "3/4", "1", "-1/4", "5/16"]
AMOUNTS = ["0", "1", "5", "12", "7/2", "100"]


def gen_scale(rng: random.Random, lo: int, hi: int, nb=None):
    nb = nb or rng.choice([1, 1, 2, 3, 4])
    flavour = rng.choice(["rate", "rate", "rate", "amount", "amount", "avg", "mixed"])
    brs = []
    for _ in range(nb):
        thr = gen_history(rng, lo, hi, 3, THRESHOLDS)
        shape = rng.random()
        if shape < 0.5 and thr:              # most thresholds start early so that rows exist
            thr[0] = (lo + rng.randint(-1, 3), rng.choice(THRESHOLDS))
            thr = list({d: (d, t) for d, t in thr}.values())
        elif shape < 0.7:                    # the threshold starts later than the value: no row until then
            thr = [(rng.randint(lo + 5, hi - 3), rng.choice(THRESHOLDS))]
        use = {"rate": (1, 0, 0), "amount": (0, 1, 0), "avg": (0, 0, 1),
               "mixed": (rng.random() < 0.6, rng.random() < 0.4, rng.random() < 0.3)}[flavour]
        rate = gen_history(rng, lo, hi, 3, RATES) if use[0] else []
        amount = gen_history(rng, lo, hi, 3, AMOUNTS) if use[1] else []
        avg = gen_history(rng, lo, hi, 2, RATES) if use[2] else []
        if 0.5 <= shape < 0.7:               # ... the value being in force from before the window
            early = lambda pool: [(lo - rng.randint(1, 3), rng.choice(pool))]
            rate, amount, avg = (early(RATES) if use[0] else []), (early(AMOUNTS) if use[1] else []), (early(RATES) if use[2] else [])
        brs.append((thr, rate, amount, avg))
    return ("S", rng.random() < 0.15, brs), flavour


# child names: plain, all-digit (int keys / numeric file names), needing quotes or escaping in YAML, a Python keyword.
# Not generated: names that collide with the node classes' own attributes (`children`, `add_child`, `_children`).
NAMES = ["a", "b", "c", "d", "e", "f1", "g_2", "2", "0", "17", "a-b", "x.y", "class", "UP", "k'q", "n+1"]


def gen_deep(rng: random.Random, lo: int, hi: int):
    """groups nested 3-4 deep whose innermost members start late, are null or never start: the inner groups
    are members of their parents at every date, with no member of their own before that"""
    def late():
        r = rng.random()
        if r < 0.2:
            return ("P", [])
        d0 = rng.randint(lo + 3, hi - 2)
        es = [(d0, gen_value(rng, 0.0))]
        if r < 0.5:
            es.append((rng.randint(d0 + 1, hi), "null"))
        return ("P", es)
    names = rng.sample(NAMES, 8)
    inner = ("N", [(names[0], late())] + ([(names[1], late())] if rng.random() < 0.4 else []))
    for lvl in range(rng.choice([2, 2, 3])):
        sib = [(names[2 + lvl], ("P", gen_history(rng, lo, hi, 3)))] if rng.random() < 0.5 else []
        kids = [(names[5 + lvl], inner)] + sib
        rng.shuffle(kids)
        inner = ("N", kids)
    return inner


def gen_node(rng: random.Random, lo: int, hi: int, depth=0):
    names = list(NAMES)
    rng.shuffle(names)
    n = rng.randint(1, 5 if depth == 0 else 3)
    kids = []
    for name in names[:n]:
        r = rng.random()
        if r < 0.18 and depth < 3:
            kids.append((name, gen_node(rng, lo, hi, depth + 1)))
        elif r < 0.24:
            kids.append((name, gen_scale(rng, lo, hi, rng.randint(1, 2))[0]))
        else:
            kids.append((name, ("P", gen_history(rng, lo, hi, 4))))
    return ("N", kids)


def gen_node_case(rng: random.Random) -> Case:
    lo = rng.choice(BASES).toordinal()
    hi = lo + 29
    deep = rng.random() < 0.2
    tree = gen_deep(rng, lo, hi) if deep else gen_node(rng, lo, hi)
    params = [(k, s) for k, s in tree[1] if s[0] == "P"]
    ups, tags, claimed = [], ["deep"] if deep else [], True
    if rng.random() < 0.02:                    # the same name twice: refused on every route (not binding)
        tree = ("N", tree[1] + [(tree[1][0][0], ("P", gen_history(rng, lo, hi, 2)))])
        return mk_tree(tree, [], f"{lo - 2}..{hi + 2}", rng.getrandbits(30), False, ["node", "duplicate-name"])
    if params:
        for _ in range(rng.choice([0, 0, 1, 1, 2])):
            k, s = rng.choice(params)
            u, t, c = gen_updates(rng, [d for d, tk in s[1] if tk != "expected"], lo, hi, 1, child=k)
            ups += u
            tags += t
            claimed = claimed and c
    return mk_tree(tree, ups, f"{lo - 2}..{hi + 2}", rng.getrandbits(30), claimed,
                   ["node", f"children={len(tree[1])}"] + tags)


def gen_scale_case(rng: random.Random) -> Case:
    lo = rng.choice(BASES).toordinal()
    hi = lo + 29
    tree, flavour = gen_scale(rng, lo, hi)
    return mk_tree(tree, [], f"{lo - 2}..{hi + 2}", rng.getrandbits(30), True,
                   ["scale", f"brackets={len(tree[2])}", "scale:" + flavour])


MALFORMED = [
    "par", "par p", "par p - - ", "par p 5:1 - x..y", "par p 5:1,6 - 1..3", "par p a:1 - 1..3", "par p 5:1 period:1:2 1..3",
    "par p 5:1 period:1:-:3 1..3", "par p 5:1 open:1:2:3 1..3", "par p 5:1 shift:1:2:3 1..3", "par p 5:1 range:1:2: 1..3",
    "par t - 1..3", "par t - 1..3 N 2 a P 5:1", "par t - 1..3 Q 1", "par t - 1..3 S 2 1 5:0 5:1 - -", "par t x:open:1:-:2 1..3 N 1 a P 5:1",
    "par t - 1..3 P 5:1 extra", "par q 1 2 3", "par t a:open:1:-:2 1..3 N 1 a N 1 b P 5:1",
]


def generate(rng: random.Random, tier: str):
    n_param, n_node, n_scale, n_hist, n_thist = ((20000, 3000, 2500, 6000, 2500) if tier == "quick"
                                                 else (160000, 20000, 20000, 40000, 15000))
    out = [gen_param_case(rng) for _ in range(n_param)]
    out += [gen_node_case(rng) for _ in range(n_node)]
    out += [gen_scale_case(rng) for _ in range(n_scale)]
    out += [gen_hist_case(rng) for _ in range(n_hist)]
    out += [gen_thist_case(rng) for _ in range(n_thist)]
    out += [Case(line=l, payload={"style": 0}, claimed=False, tags=("malformed",)) for l in MALFORMED]
    return out


def enumerate_thorough():
    """every subset of entry dates of an 8-day window (two value patterns) x every closed range (a, b) and
    every open start over the window +-1 x {value, null}"""
    base = dt.date(2020, 2, 25).toordinal()          # 25 Feb .. 3 Mar 2020: crosses 29 Feb
    win = list(range(base, base + 8))
    pos = list(range(base - 1, base + 9))
    ranges = [(a, b) for a in pos for b in pos if a <= b] + [(a, None) for a in pos]
    qs = f"{base - 3}..{base + 11}"
    out = []
    k = 0
    for mask in range(256):
        days = [d for i, d in enumerate(win) if mask >> i & 1]
        for pattern in (0, 1):
            entries = [(d, "null" if pattern and i % 2 else str(i + 1)) for i, d in enumerate(days)]
            if pattern and len(days) < 2:
                continue
            decl = entries[::-1] if mask % 3 == 0 else entries[1::2] + entries[0::2]
            for (a, b) in ranges:
                for v in ("99", "null"):
                    k += 1
                    form = "open" if b is None else ("period", "range")[k % 2]
                    out.append(mk_param(decl, [(None, form, a, b, v)], qs, k, True, ("enum",)))
    return out


def corpus():
    """no defect is recorded for C06; these are the hand-written boundary cases (repository tests + the
    examples beside the theorems)"""
    o = dt.date(2013, 1, 1).toordinal()
    y14, y15, y16 = (dt.date(y, 1, 1).toordinal() for y in (2014, 2015, 2016))
    qs = f"{o - 2}..{o + 3},{y14 - 2}..{y14 + 2},{y15 - 2}..{y15 + 2},{y16 - 2}..{y16 + 2}"
    out = [
        mk_param([(o, "0"), (y14, "null")], [(None, "range", o, y14 - 1, "1")], qs, 1, tags=("corpus",)),
        mk_param([(y14, "19/2"), (y15, "77/8"), (y16, "39/4")], [(None, "period", y15, y16 - 1, "1")], qs, 2, tags=("corpus",)),
        mk_param([(o, "0"), (y14, "null")], [(None, "open", o, None, "1")], qs, 3, tags=("corpus",)),
        mk_param([(o, "0"), (y14, "null")], [(None, "range", o, y14 - 1, "null"), (None, "period", y14, y15 - 1, "2")], qs, 4, tags=("corpus",)),
        mk_param([], [(None, "period", o + 3, o + 5, "1")], f"{o}..{o + 8}", 5, tags=("corpus",)),
        mk_param([(o + 10, "1"), (o + 5, "2"), (o, "3")], [(None, "range", o + 4, o + 7, "9")], f"{o - 2}..{o + 12}", 6, tags=("corpus",)),
        mk_param([(o + 10, "1"), (o + 5, "2")], [(None, "range", o + 6, o + 9, "null")], f"{o - 2}..{o + 12}", 7, tags=("corpus",)),
        mk_param([(o + 5, "expected"), (o + 3, "null"), (o, "T")], [], f"{o - 2}..{o + 8}", 8, tags=("corpus",)),
        mk_param([(o, "1")], [(None, "both", o, o + 1, "2"), (None, "nostart", o, None, "2"), (None, "open", o + 1, None, "3")],
                 f"{o - 1}..{o + 3}", 9, claimed=False, tags=("corpus",)),
    ]
    tree = ("N", [("a", ("P", [(o + 10, "5")])), ("b", ("P", [(o + 12, "null"), (o + 5, "1")])),
                  ("sub", ("N", [("c", ("P", [(o + 11, "3")]))])),
                  ("sc", ("S", False, [([(o, "10")], [(o, "1/2")], [], []), ([(o, "0"), (o + 5, "null")], [(o, "1/4")], [], []),
                                       ([(o + 3, "10")], [(o, "1/4")], [], [])]))])
    out.append(mk_tree(tree, [("a", "range", o + 11, o + 12, "null"), ("b", "open", o + 13, None, "4")], f"{o - 1}..{o + 15}", 10,
                       tags=("corpus", "node")))
    out.append(mk_tree(tree[1][3][1], [], f"{o - 1}..{o + 8}", 11, tags=("corpus", "scale")))
    # a parameter and its clone are independent objects (seeded change C06-3: a memo shared through clone())
    O_ = lambda y, m, d: dt.date(y, m, d).toordinal()
    hist = [(O_(2010, 1, 1), "1"), (O_(2015, 1, 1), "2"), (O_(2020, 1, 1), "3")]
    days = ",".join(str(O_(*t)) for t in [(2009, 12, 31), (2010, 1, 1), (2015, 12, 31), (2016, 1, 1), (2016, 6, 15),
                                           (2017, 12, 31), (2018, 1, 1), (2021, 1, 1)])
    u = (None, "range", O_(2016, 1, 1), O_(2017, 12, 31), "9")
    for k, order in enumerate([[("r", 0), ("r", 1)], [("r", 1), ("r", 0)]]):
        for spell in ("iso", "instant"):
            out.append(mk_hist(hist, [("c", 0), ("u", 1, u)] + order, days, 20 + k, tags=("corpus", "clone"), spell=spell))
    out.append(mk_hist(hist, [("r", 0), ("c", 0), ("r", 1), ("u", 0, (None, "period", O_(2016, 1, 1), O_(2016, 12, 31), "null")),
                              ("r", 1), ("r", 0), ("c", 0), ("u", 2, (None, "open", O_(2016, 6, 1), None, "5")), ("r", 0), ("r", 2), ("r", 1)],
                       days, 22, tags=("corpus", "clone"), spell="iso"))
    grp = ("N", [("rate", ("P", hist)), ("other", ("P", [(O_(2000, 1, 1), "5")]))])
    for order in ([("r", 0), ("r", 1)], [("r", 1), ("r", 0)]):
        out.append(mk_thist(grp, [("c", 0), ("u", 1, ("rate", "open", O_(2016, 1, 1), None, "null"))] + order, days, 23,
                            tags=("corpus", "clone"), spell="iso"))
    sc = ("S", False, [([(O_(2010, 1, 1), "0")], [(O_(2010, 1, 1), "1/4")], [], []),
                       ([(O_(2010, 1, 1), "10")], [(O_(2010, 1, 1), "1/2")], [], [])])
    out.append(mk_thist(sc, [("c", 0), ("u", 1, ("1.rate", "range", O_(2016, 1, 1), O_(2017, 12, 31), "3/4")), ("r", 0), ("r", 1),
                             ("u", 0, ("0.threshold", "open", O_(2016, 6, 1), None, "null")), ("r", 1), ("r", 0)], days, 24,
                        tags=("corpus", "clone"), spell="iso"))
    # every accepted spelling of a query date denotes the same date (seeded change C06-4: ISO week dates)
    wk = [(O_(2019, 1, 1), "1"), (O_(2020, 3, 1), "2"), (O_(2020, 9, 1), "null"), (O_(2021, 1, 1), "4")]
    wdays = [dt.date.fromisocalendar(*t).toordinal() for t in [(2018, 52, 7), (2019, 1, 1), (2019, 1, 2), (2020, 9, 7), (2020, 10, 1),
                                                               (2020, 40, 3), (2020, 53, 4), (2020, 53, 5), (2021, 20, 1)]]
    for spell in ("weekdate", "week", "month-str", "year-str", "year-int", "period-month", "period-year", "date", "tuple"):
        out.append(mk_param(wk, [(None, "period", O_(2020, 5, 1), O_(2020, 5, 31), "7")],
                            ",".join(map(str, wdays)) + f",{O_(2020, 4, 27)}..{O_(2020, 6, 2)},{O_(2020, 12, 25)}..{O_(2021, 1, 5)}",
                            30, tags=("corpus", "spelling"), spell=spell))
    grp2 = ("N", [("rate", ("P", wk)), ("late", ("P", [(O_(2021, 1, 1), "10")])),
                  ("early", ("P", [(O_(2000, 1, 1), "5"), (O_(2020, 6, 1), "null")]))])
    for spell in ("weekdate", "week"):
        out.append(mk_tree(grp2, [], f"{O_(2020, 12, 25)}..{O_(2021, 1, 5)},{O_(2020, 3, 2)}", 31, tags=("corpus", "spelling"), spell=spell))
    return out


def neighbours(case: Case):
    try:
        parsed = parse_line(case.line)
    except Malformed:
        return []
    if parsed[0] != "p":
        return []
    _, entries, ups, _qs = parsed
    qs = case.line.split()[4]
    out = []
    k = 0
    for i, (c, form, a, b, v) in enumerate(ups):
        for da in (-1, 0, 1):
            for db in (-1, 0, 1):
                a2, b2 = a + da, (None if b is None else b + db)
                if (da, db) == (0, 0) or form not in VALID_FORMS or (b2 is not None and a2 > b2):
                    continue
                k += 1
                out.append(mk_param(entries, ups[:i] + [(c, form, a2, b2, v)], qs, k, True, ("neighbour",)))
        out.append(mk_param(entries, [(c, form, a, b, v)], qs, i, form in VALID_FORMS and (b is None or a <= b), ("neighbour",)))
    return out


PROP = Prop(
    unclaimed_diffs_binding=True,   # the model transcribes the code outside the claim domain too (0 differences on every run):
                                    # `claimed=False` silences the oracle only
    pid="C06",
    lean_targets=["OFCore.Props.C06"],
    driver="ofdrv_par",
    generate=generate, impl=impl, oracle=oracle, nontrivial=nontrivial,
    corpus=corpus, enumerate_thorough=enumerate_thorough, neighbours=neighbours,
    extra_lean_files=["OFCore/Param.lean", "OFCore/Lemmas/Param.lean", "OFCore/Drv/Par.lean"],
    rule=("`par p`: a Parameter built through `Parameter(name, data)` from 0-6 dated entries on a 60-day window (10 window "
          "positions: year ends, leap and non-leap Februaries, 1999/2000, 2100, 999/1000), ~14% nulls and ~8% `expected` "
          "placeholders, arbitrary declaration order and spelling (`v`, `{value: v}`, `values:` wrapper); 0-4 updates in the call "
          "forms period= (day/weekday/week/month/year strings or Period objects), start+stop, start only, with boundaries drawn "
          "from existing entry dates +-1 (equal / adjacent), enclosing, enclosed, before the first, after the last, month-aligned, "
          "single-day and random ranges, 20% null values; after construction and after each update the value is read at every day "
          "of the window +-2 and `values_list` is listed. Every read passes the query date in a spelling "
          "drawn at random among those `periods.instant` accepts for that date (ISO string, Instant, date, datetime, tuple/list, "
          "Period of any unit -> its start, ISO week date `YYYY-Www-D`, `YYYY-Www` on Mondays, `YYYY-MM` / (y, m) / month Period on "
          "the first of a month, `YYYY` / int / (y,) / year Period on 1 January; 5 of the 15 windows straddle a New Year where the "
          "ISO year differs from the civil year, incl. week 53), through `__call__` or `get_at_instant`; the spelling is "
          "implementation-side glue: the model always receives the canonical date (ordinal). `par h` / `par ht`: histories over "
          "several objects: `clone()` of a Parameter / ParameterNode / ParameterScale creates a further object, updates and reads "
          "address any object in any interleaving (read before an update, the updated object and another one read in either "
          "order, every object read at the end); each object must read what its own entries and the updates addressed to it say. "
          "Objects are built through every construction route (implementation-side glue, the model receives the declared tree): "
          "Parameter / ValuesHistory / helpers.load_parameter_file on a written YAML file; ParameterNode from a `data=` mapping "
          "(reserved keys description/metadata/unit/reference/documentation interleaved, all-digit names as int keys), from a "
          "directory of .yaml/.yml files with sub-directories, `index.yaml` and files of other types, by `add_child` on an empty "
          "node (followed by refused attempts: an existing name, a non-parameter), by `merge` of two nodes; routes are drawn "
          "independently at every level. Child names are plain, all-digit, need YAML quoting (`a-b`, `x.y`, `k'q`, `n+1`) or are a "
          "keyword. A node-at-instant is inspected through one access form drawn per snapshot: iteration + item/attribute, `name "
          "in node`, attribute access (absent = ParameterNotFoundError), item access (absent = KeyError), the last three tried on "
          "every declared child name. 20% of the node cases are groups nested 3-4 deep whose innermost members start late, are "
          "null or never start; 2% offer the same child name twice (refused on every route, not binding). Values are ints, "
          "dyadic floats, booleans, nulls and lists of those. Scales: 1-4 brackets (single bracket 40%), 20% of the brackets have a "
          "threshold that starts later than their value. "
          "`par t`: "
          "ParameterNode trees of 1-5 children (parameters, sub-nodes, scales) with 0-2 updates of child parameters, and "
          "ParameterScale objects of 1-4 brackets with independently dated threshold / rate / amount / average_rate, read at "
          "every day of a 30-day window +-2. A parameter case is non-trivial when an update changes at least one read (or, "
          "without updates, when the reads are not constant); a tree case when its snapshot varies over the window. "
          "distinct = distinct protocol lines."),
    assumptions=[
        "instants are zero-padded ISO strings compared as strings in the code and proleptic ordinals in the model; the two orders "
        "agree on valid dates of years 1..9999 (Lemmas/Calendar.lean: ord_lt_of_lex, ord_inj); stop.offset(1, 'day') is ordinal + 1",
        "entry keys are full YYYY-MM-DD dates (INSTANT_PATTERN also admits YYYY and YYYY-MM keys; not generated); keys of a mapping are distinct (Python dict)",
        "Python's sorted(), dict order, bisect.bisect_left (by its contract on sorted lists) and the tax scales' add_bracket are modelled, tied by this correspondence",
        "periods.period / periods.instant / Instant.offset are the business of C04/C05; here a period argument is built to denote exactly the days a..b computed with datetime",
        "claim domain (Appendix A): start <= stop, dated values; reversed ranges and refused call forms are compared but not binding; YAML file loading is not exercised (data= constructors)",
        "scale values are dyadic rationals on which the float additions of add_bracket are exact",
        "child names do not collide with attributes of the node classes themselves: a child named `children`, `add_child` or "
        "`_children` makes the group impossible to build or evaluate at the pinned tree (reported, not generated)",
        "update(): `start` is passed as Instant, ISO string or date, `stop` as Instant (the code calls stop.offset; str and date "
        "stops raise AttributeError at the pinned tree); text values are refused by the loader (ALLOWED_PARAM_TYPES) and not generated",
    ],
    exhaustive_note=("thorough: all 256 subsets of entry dates of the 8-day window 2020-02-25..2020-03-03 (distinct values; and with "
                     "every second entry null) x all 55 closed ranges and 10 open starts over the window +-1 x {new value, null}, "
                     "read at every day of the window -3/+4"),
    level_text=("T-full on the model: latest-entry reading, sorted construction, pointwise effect of one update (closed and open) "
                "and, by induction, of every finite sequence of updates; node members = children defined; scale rows = brackets "
                "with threshold and value defined. K: the real Parameter / ParameterNode / ParameterScale objects vs the model; "
                "YAML loading carried by nobody (data= constructors only)."),
)
