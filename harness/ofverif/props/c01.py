"""C01 — a calculated value equals the rule system's meaning on the given inputs."""
from __future__ import annotations

import pickle
import random

from ..core import Case, Prop
from .. import rulesys as rs


def _case(c: rs.SysCase, tags=(), claimed=True) -> Case:
    return Case(line=rs.to_line(c), payload=pickle.dumps(c).hex(), tags=tuple(tags), claimed=claimed)


def impl(case: Case) -> str:
    c: rs.SysCase = pickle.loads(bytes.fromhex(case.payload))
    out, sim, problems = rs.run_real(c)
    if problems:
        out += "#DTYPE:" + problems[0]
    return out


# ---- independent meaning (oracle): a naive recursive evaluator over Python ints, cache-less ----

class _Cycle(Exception):
    pass


class _Fault(Exception):
    pass


def _served(var: rs.Var, tok: str) -> str:
    u, d, n = tok.split("/")
    if var.unit == "eternity":
        return "eternity/-1,-1,-1/-1"
    if u != var.unit or int(n) != 1:
        raise _Fault("period")
    return tok


def _pt(tok: str, pt: str) -> str:
    from ..perutil import fmt_period, parse_period_token
    try:
        return fmt_period(rs._transform(pt, parse_period_token(tok)))
    except Exception:
        raise _Fault("transform")


def _subperiods(tok: str, unit: str) -> list:
    from openfisca_core.periods import DateUnit
    from ..perutil import fmt_period, parse_period_token
    try:
        return [fmt_period(q) for q in parse_period_token(tok).get_subperiods(DateUnit(unit))]
    except Exception:
        raise _Fault("subperiods")


def meaning(c: rs.SysCase, armed: set, v: int, tok: str, path=(), memo=None):
    """value (list of ints) of variable v at the served period token; raises _Cycle / _Fault.
    Successful values are memoised per (case, armed set): a success never depended on the path."""
    memo = _MEMO if memo is None else memo
    k = (id(c), frozenset(armed), v, tok)
    if k in memo:
        return memo[k]
    out = _meaning(c, armed, v, tok, path)
    memo[k] = out
    return out


_MEMO: dict = {}


def _meaning(c: rs.SysCase, armed: set, v: int, tok: str, path=()):
    import datetime as dt
    from ..perutil import parse_date
    if v >= len(c.vars):
        raise _Fault("unknown variable")
    var = c.vars[v]
    n = c.nP if var.entity == 0 else c.nG
    key = _served(var, tok)
    if var.neutralized:
        return [var.dflt] * n
    start_ord = 1 if key.startswith("eternity") else dt.date(*parse_date(key.split("/")[1])).toordinal()
    past_end = var.end is not None and not key.startswith("eternity") and start_ord > var.end
    if not past_end:
        for (iv, itok, vals) in c.inputs:
            if iv == v and itok == key:
                return list(vals)
    if (v, key) in path:
        raise _Cycle()
    f = None
    if not past_end:
        cands = [(s, e) for (s, e) in var.formulas if s <= start_ord]
        if cands:
            f = max(cands, key=lambda se: se[0])[1]
    if f is None:
        out = [var.dflt] * n
    else:
        out = _eval(c, armed, f, var.entity, key, path + ((v, key),))
    if var.vtype == "bool":
        out = [1 if x != 0 else 0 for x in out]
    return out


def _eval(c, armed, e, ent, tok, path):
    k = e[0]
    n = c.nP if ent == 0 else c.nG
    if k == "c":
        return [e[1]] * n
    if k == "v":
        _, w, pt, add = e
        if w >= len(c.vars) or c.vars[w].entity != ent:
            raise _Fault("variable")
        q = _pt(tok, pt)
        wv = c.vars[w]
        if add:
            weight = {"weekday": 100, "week": 200, "day": 100, "month": 200, "year": 300, "eternity": 400}
            if weight[wv.unit] > weight[q.split("/")[0]] or wv.unit == "eternity" or q.startswith("eternity"):
                raise _Fault("add")
            tot = None
            for s in _subperiods(q, wv.unit):
                x = meaning(c, armed, w, s, path)
                tot = x if tot is None else [a + b for a, b in zip(tot, x)]
            if tot is None:
                raise _Fault("empty")
            return tot
        return meaning(c, armed, w, q, path)
    if k == "o1" and e[1] == rs.OP_DIVIDE and e[2][0] == "v":
        # floor of the share: the variable's value for the definition-period-long period around the start of the
        # requested one, divided by the number of requested units that period is made of
        _, w, pt, _add = e[2]
        if w >= len(c.vars) or c.vars[w].entity != ent:
            raise _Fault("variable")
        tgt = rs.div_target(c.vars[w], _pt(tok, pt))
        if tgt is None:
            raise _Fault("divide")
        return [x // tgt[1] for x in meaning(c, armed, w, tgt[0], path)]
    if k == "o1" and e[1] == rs.OP_PARAM and e[2][0] == "v":
        # the parameter's value at the START of the period: the latest dated value on or before that day
        import datetime as dt
        from ..perutil import parse_date
        _, i, pt, _add = e[2]
        q = _pt(tok, pt)
        params = list(getattr(c, "params", None) or [])
        if i >= len(params) or q.startswith("eternity"):
            raise _Fault("parameter")
        day = dt.date(*parse_date(q.split("/")[1])).toordinal()
        vals = [(st, val) for (st, val) in params[i] if st <= day]
        if not vals:
            raise _Fault("parameter not defined yet")
        return [max(vals)[1]] * n
    if k == "o1":
        _, o, a = e
        inner = 0 if (o == 1 or rs.is_role_op(o)) else (1 if (o == 2 or rs.is_proj_op(o)) else ent)
        x = _eval(c, armed, a, inner, tok, path)

        def match(r, rho):           # has_role: a flattened role; 9 = everybody; 8 = a first role with its two sub-roles
            return r == rs.NO_ROLE or rho == r or (r == rs.TOP_ROLE and rho < 2)
        if rs.is_proj_op(o):         # household.project(x, role): the household's value for the role holders, 0 for the others
            roles = list(getattr(c, "roles", None) or [0] * c.nP)
            return [x[c.mem[i]] if match(o % 10, roles[i]) else 0 for i in range(c.nP)]
        if rs.is_role_op(o):
            # role operations, from the definition: the members of household g that hold role r
            r = o % 10
            roles = list(getattr(c, "roles", None) or [0] * c.nP)
            holders = [[i for i in range(c.nP) if c.mem[i] == g and match(r, roles[i])] for g in range(c.nG)]
            if o < 20:
                return [sum(x[i] for i in hs) for hs in holders]
            if o < 30:                       # the unique holder's value, the default 0 without holder
                if any(len(hs) > 1 for hs in holders):
                    raise _Fault("role not unique")
                return [x[hs[0]] if hs else 0 for hs in holders]
            if o < 40:
                return [len(hs) for hs in holders]
            if o < 50:
                return [1 if any(x[i] != 0 for i in hs) else 0 for hs in holders]
            if o < 60:
                return [max(x[i] for i in hs) if hs else 0 for hs in holders]
            if o < 70:
                return [min(x[i] for i in hs) if hs else 0 for hs in holders]
            return [1 if all(x[i] != 0 for i in hs) else 0 for hs in holders]
        if o == 0:
            return [-a_ for a_ in x]
        if o == 1:
            return [sum(x[i] for i in range(c.nP) if c.mem[i] == g) for g in range(c.nG)]
        if o == 2:
            return [x[g] for g in c.mem]
        if o == 3:
            return [1 if a_ != 0 else 0 for a_ in x]
        if o >= 100:
            return [a_ * (o - 150) for a_ in x]
        return x
    if k == "o2":
        _, o, a, b = e
        x = _eval(c, armed, a, ent, tok, path)
        y = _eval(c, armed, b, ent, tok, path)
        f = {0: lambda p, q: p + q, 1: lambda p, q: p - q, 2: min, 3: max, 4: lambda p, q: int(p < q), 5: lambda p, q: int(p <= q),
             6: lambda p, q: int(p == q), 7: lambda p, q: q if p != 0 else 0, 8: lambda p, q: 0 if p != 0 else q}.get(o, lambda p, q: p)
        return [f(p, q) for p, q in zip(x, y)]
    if k == "f":
        if e[1] in armed:
            raise _Fault("injected")
        return _eval(c, armed, e[2], ent, tok, path)
    raise ValueError(e)


def expected_results(c: rs.SysCase) -> list:
    """what every request should return according to the statement (rule system's meaning)"""
    armed: set = set()
    out = []
    _MEMO.clear()
    for r in c.reqs:
        if r[0] == "arm":
            armed.add(r[1]); out.append("-"); continue
        if r[0] == "disarm":
            armed.discard(r[1]); out.append("-"); continue
        if r[0] == "badp":
            out.append("ERR"); continue
        if r[0] == "repl":          # the declaration of a variable is replaced: the meaning is the new system's from here on
            c = rs.derive(c, vars=[(r[2] if j == r[1] else w) for j, w in enumerate(c.vars)])
            out.append("-"); continue
        if r[0] in ("del", "set"):
            out.append("?"); continue
        if r[0] == "get":
            # get_array never computes: nothing, or the value a calculation would return
            try:
                if r[1] >= len(c.vars):
                    raise _Fault("unknown")
                var = c.vars[r[1]]
                key = "eternity/-1,-1,-1/-1" if var.unit == "eternity" else r[2]
                m = meaning(c, armed, r[1], r[2] if var.unit == "eternity" else _served(var, r[2]))
                out.append(("g?", "g:" + ",".join(str(x) for x in m)))
            except _Fault:
                out.append("ERR" if r[1] >= len(c.vars) else ("g?", None))
            except (_Cycle, RecursionError):
                out.append(("g?", None))
            continue
        kind, v, tok = r
        if kind == "tcalc":
            kind = "calc"
        if kind == "out":
            # calculate_output: the request the variable's `calculate_output` attribute names
            okind = (list(getattr(c, "outputs", None) or []) + [0] * (v + 1))[v]
            kind = {1: "add", 2: "div"}.get(okind, "calc")
        try:
            if v >= len(c.vars):
                raise _Fault("unknown")
            var = c.vars[v]
            if kind == "div":
                tgt = rs.div_target(var, tok)
                if tgt is None:
                    raise _Fault("divide")
                res = meaning(c, armed, v, tgt[0])
                out.append("ok:" + ",".join(str(x) for x in res) + f"/{tgt[1]}")
                continue
            if kind == "calc":
                res = meaning(c, armed, v, tok)
            else:
                weight = {"weekday": 100, "week": 200, "day": 100, "month": 200, "year": 300, "eternity": 400}
                if weight[var.unit] > weight[tok.split("/")[0]] or var.unit == "eternity" or tok.startswith("eternity"):
                    raise _Fault("add")
                res = None
                for s in _subperiods(tok, var.unit):
                    x = meaning(c, armed, v, s)
                    res = x if res is None else [a + b for a, b in zip(res, x)]
                if res is None:
                    raise _Fault("empty")
            out.append("ok:" + ",".join(str(x) for x in res))
        except _Cycle:
            out.append("CYCLE")
        except _Fault:
            out.append("ERR")
        except RecursionError:
            out.append("?")
    return out


def final_case(c: rs.SysCase) -> rs.SysCase:
    """the declaration after every replacement of the request sequence"""
    for r in c.reqs:
        if r[0] == "repl":
            c = rs.derive(c, vars=[(r[2] if j == r[1] else w) for j, w in enumerate(c.vars)])
    return c


def canon_equal(case: Case, impl_out: str, model_out: str) -> bool:
    if rs.values_too_large(impl_out) or rs.values_too_large(model_out):
        return True          # off the exact lattice (numeric policy): not compared
    return impl_out == model_out


def oracle(case: Case, out: str):
    if not case.claimed or rs.values_too_large(out):
        return None
    c: rs.SysCase = pickle.loads(bytes.fromhex(case.payload))
    if "#ALIAS:" in out:
        return ("returned-array-rewritten", "an array handed out by an earlier request (#" + out.split("#ALIAS:")[1].split(";")[0].split("|")[0].split("#")[0]
                + ") changed its values when the store was written to later: earlier results / trace values are rewritten retroactively")
    if "#DTYPE:" in out:
        return ("result-type", out.split("#DTYPE:")[1])
    got = out.split("|")[0].split(";")
    want = expected_results(c)
    for i, (g, w) in enumerate(zip(got, want)):
        g = g.split("#L:")[0]
        if "#STATE" in g:
            return ("stack-or-invalidated-left", f"request {c.reqs[i]}: evaluation stack or invalidated set not empty after the request")
        if w == "?":
            continue
        if isinstance(w, tuple):          # get_array: nothing stored, or the meaning
            if g != "g:none" and w[1] is not None and g != w[1]:
                return ("stored-value", f"request #{i} {c.reqs[i]}: get_array returned {g}, the rule system's meaning is {w[1]}")
            if g != "g:none" and w[1] is None and not g.startswith("g:"):
                return ("stored-value", f"request #{i} {c.reqs[i]}: get_array returned {g}")
            continue
        if g != w:
            kind = "cycle-not-refused" if w == "CYCLE" else ("error-expected" if w == "ERR" else "value")
            return (kind, f"request #{i} {c.reqs[i]}: engine returned {g}, the rule system's meaning is {w}")
    return None


def nontrivial(case: Case, out: str) -> bool:
    return "ok:" in out


def generate(rng: random.Random, tier: str):
    n = 40000 if tier == "quick" else 240000
    out = []
    for i in range(n):
        kind = "cycle" if rng.random() < 0.15 else "ranked"
        # half of the systems use the extended language (DIVIDE reads, parameters) and the other entry points
        # (calculate_divide, unknown variables, get_array, delete_arrays of computed values) between the requests
        ext = {"divide", "params", "requests"} if i % 2 else None
        c = rs.gen_case(rng, kind=kind, msl=rng.choice([1, 1, 2, 3]), bad_rate=0.03 if rng.random() < 0.3 else 0.0, features=ext)
        if rng.random() < 0.1:      # a request whose period text cannot be parsed, somewhere in the sequence
            c.reqs.insert(rng.randrange(len(c.reqs) + 1), ("badp", rng.randrange(len(c.vars))))
        if ext and rng.random() < 0.5:
            # the same request again later in the sequence (served from the store the second time), and a sum requested
            # after, and before, one of its own sub-periods
            again = [r for r in c.reqs if r[0] in ("calc", "add", "div", "out")]
            for r in rng.sample(again, min(len(again), rng.randint(1, 2))):
                c.reqs.append(r)
        out.append(_case(c, (kind, f"vars={len(c.vars)}") + (("ext",) if ext else ())))
    return out


def corpus():
    out = []
    M = rs.MONTHS
    # input precedence, default when no formula, default past end, formula in force by date, neutralised, cycle
    import datetime as dt
    v0 = rs.Var(vtype="int", unit="month", dflt=7)
    v1 = rs.Var(vtype="float", unit="month", dflt=3, end=dt.date(2018, 1, 31).toordinal(),
                formulas=[(1, ("o2", 0, ("v", 0, "same", False), ("c", 1))), (dt.date(2018, 1, 1).toordinal(), ("o2", 0, ("v", 0, "same", False), ("c", 100)))])
    v2 = rs.Var(vtype="bool", unit="year", dflt=0, formulas=[(1, ("v", 1, "same", True))])
    v3 = rs.Var(vtype="int", unit="month", dflt=5, neutralized=True, formulas=[(1, ("c", 9))])
    v4 = rs.Var(vtype="int", unit="month", dflt=0, formulas=[(1, ("o2", 0, ("v", 4, "same", False), ("c", 1)))])
    c = rs.SysCase(2, 1, [0, 0], 1, [v0, v1, v2, v3, v4], [(0, M[1], [10, 20]), (3, M[1], [1, 1])],
                   [("calc", 1, M[0]), ("calc", 1, M[1]), ("calc", 1, M[2]), ("calc", 2, "year/2018,1,1/1"), ("calc", 3, M[1]), ("calc", 4, M[1]),
                    ("calc", 0, "year/2018,1,1/1"), ("add", 1, "year/2018,1,1/1")])
    out.append(_case(c, ("corpus",)))
    # DIVIDE (formula and request, valid and refused), parameters (dated, not yet defined), get_array, delete_arrays
    y0 = rs.Var(vtype="float", unit="year", dflt=4)
    m1 = rs.Var(vtype="int", unit="month", dflt=0, formulas=[(1, ("o2", 0, ("o1", rs.OP_DIVIDE, ("v", 0, "same", False)), ("o1", rs.OP_PARAM, ("v", 0, "same", False))))])
    d2 = rs.Var(vtype="int", unit="day", dflt=0, formulas=[(1, ("o2", 0, ("o1", rs.OP_DIVIDE, ("v", 1, "same", False)), ("o1", rs.OP_DIVIDE, ("v", 0, "first_month", False))))])
    m3 = rs.Var(vtype="float", unit="month", dflt=1, formulas=[(1, ("o1", rs.OP_PARAM, ("v", 1, "last_year", False)))])
    c = rs.SysCase(2, 1, [0, 0], 1, [y0, m1, d2, m3], [(0, "year/2018,1,1/1", [25, -25])],
                   [("calc", 1, M[3]), ("get", 1, M[3]), ("get", 1, M[2]), ("calc", 2, "day/2018,1,31/1"), ("div", 0, M[3]), ("div", 0, "day/2018,2,1/1"),
                    ("div", 1, "year/2018,1,1/1"), ("div", 1, "day/2018,2,1/1"), ("calc", 3, M[1]), ("calc", 3, M[0]), ("del", 1, "year/2018,1,1/1"),
                    ("get", 1, M[3]), ("calc", 1, M[3]), ("calc", 7, M[1]), ("div", 9, M[1]), ("get", 9, M[1]), ("calc", 1, M[0])],
                   params=[[(dt.date(2017, 1, 1).toordinal(), 3), (dt.date(2018, 2, 1).toordinal(), 5)], [(dt.date(2017, 6, 1).toordinal(), 2)]])
    out.append(_case(c, ("corpus", "ext")))
    return out


PROP = Prop(
    pid="C01",
    lean_targets=["OFCore.Props.C01"],
    driver="ofdrv_sim",
    generate=generate, impl=impl, oracle=oracle, nontrivial=nontrivial, corpus=corpus, canon_equal=canon_equal,
    rule=("random rule systems: 3-9 variables over person + household, value types int/float/bool (+ enum/date as inputs and defaults), "
          "definition periods month/year/day/eternity, 0-3 dated formulas each (formula, formula_YYYY_MM_DD), optional end, neutralised "
          "variables, expression trees of depth <= 3 over add/sub/min/max/comparisons/where/scaling/negation, sums over members, projections, "
          "period transforms (same, this_year, first_month, last_month, last_year, offsets) and the ADD option; DAG by construction plus a 15% "
          "stream with one injected true cycle and a 1% stream of invalid-period / unknown-variable reads; populations of 1-6 persons in 1-3 "
          "households; inputs on ~25% of the (variable, period) pool; 3-8 top-level requests (calculate / calculate_add, 8% wrong-unit or size-2). "
          "Half of the systems use the extended language: DIVIDE reads floor(population(w, q, options=[DIVIDE])) for every valid (definition period, "
          "caller period, transform) combination and some refused ones, dated parameters parameters(q).p / .g.p (1-4 parameters, 1-3 dated values, "
          "instants given as Period / Instant / text, attribute or item access, values not yet defined), and between the requests: calculate_divide "
          "(compared exactly as numerators over the denominator), requests for unknown variables through every entry point, get_array (Period / text / int), "
          "delete_arrays of computed values. "
          "The Python side compiles each expression to closures over the real population API. Non-trivial = at least one request returned a value; "
          "distinct = distinct protocol lines."),
    assumptions=[
        "formulas are those of the expression DSL (arbitrary Python formulas are outside the model)",
        "values are small integers, exactly representable in float32/int32 (numeric policy, DESIGN section 4)",
        "numpy primitives used by the group operations (bincount, fancy indexing) are modelled",
        "eternal variables carry at most one undated formula and read only eternal variables (an eternal variable whose formula depends on the request period has no period-independent meaning)",
        "DIVIDE inside formulas is consumed through floor (values stay integers); for |x| < 2^22 and denominators <= 366 the float32 quotient never crosses an integer, so floor is exact; a top-level calculate_divide is compared exactly: every element must be the quotient numpy computes for an integer numerator",
        "week and weekday units are not in this generator (C03 covers DIVIDE over them at request level)",
    ],
)
