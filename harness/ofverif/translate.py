"""A small Python -> Lean translator for the DECISION CODE of the engine (guard chains and selector chains).

`extract.py` regenerates the literal tables the proofs depend on; this module regenerates, on every run and from the
tree under test (AST only, the package is not imported), the *control flow* of the functions that decide whether a
request is served:

  Simulation._check_period_consistency      which (definition period, requested unit, size) triples are refused
  Simulation.calculate_add                  its three guards
  Simulation.calculate_divide               its three guards, the period it computes, the denominator it takes
  Holder._set                               the period check behind put_in_cache / set_input
  Holder.set_input                          the ETERNITY guard
  Variable.get_formula                      (kind formulascan)  its `return None` guards and the reversed first-match scan of the SortedDict
  ParameterNodeAtInstant.__init__           (kind childrenloop) the loop keeping the children that are not None at the instant
  Holder.get_array                          (kind holderlookup) the lookup through the memory and the disk store
  Simulation.purge_cache_of_invalid_values  (kind purge)        the empty-stack guard, the deletion loop, the reset of the marks
  InMemoryStorage.get / put / delete        (kind storekey)     the key the dictionary is touched under (ETERNITY for an eternal store)
  Holder._set (tail)                        (kind holderstore)  `should_store_on_disk` and which store the branch writes to

into `lean/OFCore/OFCore/GeneratedGuards.lean`.  `Props/C03Tie.lean` (and `C01Tie`, `C16Tie`) prove that the hand-written
models (`AddDivide.lean`, `RuleSys.servedPeriod`, `SetInput.lean`) take exactly the generated decisions, for every unit,
unit pair and size — so a change of one of these branches in the code re-states the theorem against what the code says
now, and the proof closes or it does not.

Supported Python (anything else makes the function "not translatable", which is reported, never guessed at):

  statements   `if T: [msg assignments]* raise …`, `if T: return [None|warnings.warn(…)]`, nested `if` (conjunction),
               `if/elif/else` chains assigning ONE name from an attribute of ONE object (selector chains);
               statements listed as `skip` shapes (assignments that do not decide anything) are passed over
  expressions  and / or / not, comparisons (== != < <= > >= in, not in, is None, is not None), integer literals,
               the vocabulary of each function (`variable.definition_period`, `period.unit`, `period.size`,
               `periods.DateUnit.X`, `periods.unit_weight(e)`, `DateUnit.isoformat + DateUnit.isocalendar`, …)

A function that is not translatable gets a FALLBACK definition (the hand-written model's own decision), flagged in
`translated`, so that the tie theorem still type-checks but is vacuous for that function; the evidence says so and the
run escalates its correspondence budget (srcmap).  Nothing is reported on that ground alone.
"""
from __future__ import annotations

import ast
import os


class NotTranslatable(Exception):
    pass


# ---------------------------------------------------------------------------------------------------------------
# expressions

def _attr_path(node: ast.AST) -> str | None:
    parts = []
    while isinstance(node, ast.Attribute):
        parts.append(node.attr)
        node = node.value
    if isinstance(node, ast.Name):
        parts.append(node.id)
        return ".".join(reversed(parts))
    return None


UNITS = {"WEEKDAY", "WEEK", "DAY", "MONTH", "YEAR", "ETERNITY"}


class Tr:
    """vocab: attribute path -> (lean term, kind) with kind in unit | int | bool | names (List String)"""

    def __init__(self, vocab: dict):
        self.vocab = vocab

    def expr(self, n: ast.AST) -> tuple[str, str]:
        p = _attr_path(n)
        if p is not None:
            if p in self.vocab:
                return self.vocab[p]
            last = p.split(".")
            if len(last) >= 2 and last[-2] == "DateUnit" and last[-1] in UNITS:
                return f"DUnit.{last[-1].lower()}", "unit"
            if len(last) >= 2 and last[-2] == "DateUnit" and last[-1] in ("isoformat", "isocalendar"):
                return f"OFCore.Generated.{last[-1]}Units", "names"
            raise NotTranslatable(f"unknown name {p}")
        if isinstance(n, ast.Constant):
            if isinstance(n.value, bool):
                return ("true" if n.value else "false"), "bool"
            if isinstance(n.value, int):
                return f"({n.value} : Int)", "int"
            if n.value is None:
                return "none", "none"
            raise NotTranslatable(f"constant {n.value!r}")
        if isinstance(n, ast.BoolOp):
            op = " && " if isinstance(n.op, ast.And) else " || "
            parts = [self.boolean(v) for v in n.values]
            return "(" + op.join(parts) + ")", "bool"
        if isinstance(n, ast.UnaryOp) and isinstance(n.op, ast.Not):
            return f"(!{self.boolean(n.operand)})", "bool"
        if isinstance(n, ast.BinOp) and isinstance(n.op, ast.Add):
            a, ka = self.expr(n.left)
            b, kb = self.expr(n.right)
            if ka == kb == "names":
                return f"({a} ++ {b})", "names"
            if ka == kb == "int":
                return f"({a} + {b})", "int"
            raise NotTranslatable("+ on " + ka + "/" + kb)
        if isinstance(n, ast.Tuple) or isinstance(n, ast.List):
            elts = [self.expr(e) for e in n.elts]
            if all(k == "unit" for _, k in elts):
                return "[" + ", ".join(t for t, _ in elts) + "]", "units"
            raise NotTranslatable("tuple of non-units")
        if isinstance(n, ast.ListComp):
            # [frame['period'] for frame in self.tracer.stack[:-1] if frame['name'] == variable]
            g = n.generators[0] if len(n.generators) == 1 else None
            if g is not None and isinstance(g.target, ast.Name) and len(g.ifs) == 1 and ast.unparse(g.iter) == "self.tracer.stack[:-1]" \
                    and ast.unparse(n.elt) == f"{g.target.id}['period']" and isinstance(g.ifs[0], ast.Compare) and len(g.ifs[0].ops) == 1 \
                    and isinstance(g.ifs[0].ops[0], ast.Eq) and ast.unparse(g.ifs[0].left) == f"{g.target.id}['name']":
                rhs, k = self.expr(g.ifs[0].comparators[0])
                if k != "varname":
                    raise NotTranslatable("frame name compared with something else than the variable")
                return f"((below.filter (fun k => k.1 == {rhs})).map (fun k => k.2))", "plist"
            raise NotTranslatable(f"list comprehension {ast.unparse(n)[:60]}")
        if isinstance(n, ast.Call) and _attr_path(n.func) == "len" and len(n.args) == 1:
            a, k = self.expr(n.args[0])
            if k != "plist":
                raise NotTranslatable("len of " + k)
            return f"({a}.length)", "nat"
        if isinstance(n, ast.Call):
            f = _attr_path(n.func)
            if f is not None and f.split(".")[-1] == "unit_weight" and len(n.args) == 1 and not n.keywords:
                a, k = self.expr(n.args[0])
                if k != "unit":
                    raise NotTranslatable("unit_weight of a non-unit")
                return f"(unitWeight {a})", "int"
            raise NotTranslatable(f"call {ast.unparse(n.func)}")
        if isinstance(n, ast.Compare):
            terms = [n.left, *n.comparators]
            out = []
            for op, l, r in zip(n.ops, terms, terms[1:]):
                out.append(self.compare(op, l, r))
            return "(" + " && ".join(out) + ")", "bool"
        raise NotTranslatable(f"expression {type(n).__name__}: {ast.unparse(n)[:60]}")

    def compare(self, op: ast.cmpop, l: ast.AST, r: ast.AST) -> str:
        a, ka = self.expr(l)
        b, kb = self.expr(r)
        if isinstance(op, (ast.Is, ast.IsNot)):
            if kb != "none" or ka != "opt":
                raise NotTranslatable("is / is not on something else than <optional> is None")
            return f"({a}.isNone)" if isinstance(op, ast.Is) else f"(!{a}.isNone)"
        if isinstance(op, (ast.In, ast.NotIn)):
            if ka not in ("unit", "pval"):
                raise NotTranslatable("membership of a " + ka)
            if kb == "names":
                t = f"({b}.contains ({a}).name)"
            elif kb == "units":
                t = f"({b}.contains {a})"
            elif ka == "pval" and kb == "plist":
                t = f"({b}.contains {a})"
            elif kb == "unit":
                # DateUnit is a StrEnum: `DateUnit.MONTH in self.unit` is a SUBSTRING test on the unit names
                t = f"(OFCore.Tie.nameInfix {a} {b})"
            else:
                raise NotTranslatable("membership in " + kb)
            return t if isinstance(op, ast.In) else f"(!{t})"
        if ka != kb or ka not in ("unit", "int", "bool", "nat"):
            raise NotTranslatable(f"comparison of {ka} with {kb}")
        if isinstance(op, (ast.Eq, ast.NotEq)):
            return f"({a} == {b})" if isinstance(op, ast.Eq) else f"({a} != {b})"
        if ka not in ("int", "nat"):
            raise NotTranslatable("ordering of non-integers")
        sym = {ast.Lt: "<", ast.LtE: "≤", ast.Gt: ">", ast.GtE: "≥"}.get(type(op))
        if sym is None:
            raise NotTranslatable("operator " + type(op).__name__)
        return f"(decide ({a} {sym} {b}))"

    def boolean(self, n: ast.AST) -> str:
        t, k = self.expr(n)
        if k != "bool":
            raise NotTranslatable(f"{ast.unparse(n)[:50]} used as a condition is a {k}")
        return t


# ---------------------------------------------------------------------------------------------------------------
# statements

def _find(tree: ast.AST, cls: str | None, func: str) -> ast.FunctionDef:
    for node in ast.walk(tree):
        if cls is None and isinstance(node, ast.FunctionDef) and node.name == func:
            return node
        if isinstance(node, ast.ClassDef) and node.name == cls:
            for m in node.body:
                if isinstance(m, ast.FunctionDef) and m.name == func:
                    return m
    raise NotTranslatable(f"{cls}.{func} not found")


def _is_msg_assign(s: ast.stmt) -> bool:
    return isinstance(s, ast.Assign) and len(s.targets) == 1 and isinstance(s.targets[0], ast.Name) \
        and any(w in s.targets[0].id.lower() for w in ("msg", "message", "name", "adj"))


def _terminal(body: list) -> str | None:
    """'raise' / 'return' when the block is [message assignments]* followed by a raise or a value-less return"""
    if not body:
        return None
    *init, last = body
    if not all(_is_msg_assign(s) for s in init):
        return None
    if isinstance(last, ast.Raise):
        return "raise"
    if isinstance(last, ast.Return):
        v = last.value
        if v is None or (isinstance(v, ast.Constant) and v.value is None):
            return "return"
        if isinstance(v, ast.Call) and (_attr_path(v.func) or "").endswith("warn"):
            return "return"
    return None


def guard_chain(fn: ast.FunctionDef, tr: Tr, skip: list, stop_at: str | None = None) -> list:
    """[(lean condition, 'raise'|'return')] in program order; nested ifs are conjoined with their parents"""
    out: list = []

    def block(body: list, ctx: list, top: bool):
        for s in body:
            src = ast.unparse(s)
            if stop_at is not None and top and src.startswith(stop_at):
                return True
            if isinstance(s, ast.Expr) and isinstance(s.value, ast.Constant) and isinstance(s.value.value, str):
                continue
            if isinstance(s, ast.If):
                term = _terminal(s.body)
                cond = None
                try:
                    cond = tr.boolean(s.test)
                except NotTranslatable:
                    if any(src.startswith(k) for k in skip):
                        continue
                    raise
                if term is not None and not s.orelse:
                    out.append((" && ".join([*ctx, cond]) if ctx else cond, term))
                    continue
                if term is None and not s.orelse and all(isinstance(x, ast.If) or _is_msg_assign(x) for x in s.body):
                    block(s.body, [*ctx, cond], False)
                    continue
                if any(src.startswith(k) for k in skip):
                    continue
                raise NotTranslatable(f"if-statement of unsupported shape at line {s.lineno}")
            if any(src.startswith(k) for k in skip):
                continue
            if isinstance(s, ast.Assign) and len(s.targets) == 1 and isinstance(s.targets[0], ast.Name) and not ctx \
                    and s.targets[0].id not in tr.vocab and getattr(tr, "lets", None) is not None:
                # a local definition the later guards speak about (single assignment, outside any `if`)
                term, kind = tr.expr(s.value)
                tr.vocab[s.targets[0].id] = (term, kind)
                tr.lets.append(s.targets[0].id)
                continue
            if top and stop_at is None and isinstance(s, (ast.Return, ast.Expr, ast.Assign, ast.AnnAssign)) and s is body[-1]:
                continue
            raise NotTranslatable(f"statement not understood at line {s.lineno}: {src[:70]}")
        return False

    block(fn.body, [], True)
    return out


def selector_chain(fn: ast.FunctionDef, tr: Tr, target: str) -> list:
    """for `if T1: target = obj.a  elif T2: target = obj.b … else: target = obj.z` -> [(cond | None, attr)]"""
    for s in fn.body:
        if not isinstance(s, ast.If):
            continue
        cur: ast.stmt | None = s
        out = []
        ok = True
        while True:
            if not (len(cur.body) == 1 and isinstance(cur.body[0], ast.Assign) and len(cur.body[0].targets) == 1
                    and isinstance(cur.body[0].targets[0], ast.Name) and cur.body[0].targets[0].id == target
                    and isinstance(cur.body[0].value, ast.Attribute)):
                ok = False
                break
            out.append((tr.boolean(cur.test), cur.body[0].value.attr))
            if len(cur.orelse) == 1 and isinstance(cur.orelse[0], ast.If):
                cur = cur.orelse[0]
                continue
            if len(cur.orelse) == 1 and isinstance(cur.orelse[0], ast.Assign) and isinstance(cur.orelse[0].targets[0], ast.Name) \
                    and cur.orelse[0].targets[0].id == target and isinstance(cur.orelse[0].value, ast.Attribute):
                out.append((None, cur.orelse[0].value.attr))
                break
            ok = False
            break
        if ok and out:
            return out
    raise NotTranslatable(f"no selector chain assigning {target}")


# ---------------------------------------------------------------------------------------------------------------
# dispatch chains: `if <test on units>: <leaf>` ... `<default leaf>`, leaves translated idiom by idiom

EXC_TAG = {"ValueError": "value", "NotImplementedError": "notimpl", "AssertionError": "assert"}

SPAN_DAYS = ("last = self.start.offset(self.size, self.unit)\nif last is None:\n    raise NotImplementedError\n"
             "last_day = last.offset(-1, DateUnit.DAY)\nif last_day is None:\n    raise NotImplementedError\n"
             "return (last_day.date - self.start.date).days + 1")
WEEKS_AFTER = ("start = self.start.date\ncease = start.add({kw}=self.size)\ndelta = start.diff(cease)\nreturn delta.in_weeks()")

PERIOD_ATTR = {"this_year": "p.thisYear", "first_month": "p.firstMonth", "first_week": "p.firstWeek",
               "first_day": "(Except.ok p.firstDay)", "first_weekday": "(Except.ok p.firstWeekday)"}
SIZE_ATTR = {"size": "(Except.ok p.size)", "size_in_years": "p.sizeInYears", "size_in_months": "p.sizeInMonths",
             "size_in_days": "p.sizeInDays", "size_in_weeks": "p.sizeInWeeks", "size_in_weekdays": "p.sizeInWeekdays"}


def _int_expr(n: ast.AST) -> str:
    """an integer expression over the period's sizes, as a Lean term of type `Except String Int`"""
    p = _attr_path(n)
    if p is not None and p.startswith("self.") and p[5:] in SIZE_ATTR:
        return SIZE_ATTR[p[5:]]
    if isinstance(n, ast.Constant) and isinstance(n.value, int) and not isinstance(n.value, bool):
        return f"(Except.ok ({n.value} : Int))"
    if isinstance(n, ast.BinOp) and isinstance(n.op, (ast.Mult, ast.Add, ast.Sub)):
        op = {ast.Mult: "*", ast.Add: "+", ast.Sub: "-"}[type(n.op)]
        return f"(do let a ← {_int_expr(n.left)}; let b ← {_int_expr(n.right)}; Except.ok (a {op} b))"
    raise NotTranslatable(f"integer expression {ast.unparse(n)[:50]}")


def _leaf(stmts: list, kind: str) -> str:
    """the Lean term a leaf block denotes (`kind`: int -> Except String Int, periods -> Except String (List Period))"""
    text = "\n".join(ast.unparse(s) for s in stmts)
    *init, last = stmts
    if isinstance(last, ast.Raise) and all(_is_msg_assign(x) for x in init):
        exc = last.exc
        name = (exc.func.id if isinstance(exc, ast.Call) and isinstance(exc.func, ast.Name) else exc.id if isinstance(exc, ast.Name) else None)
        if name in EXC_TAG:
            return f'(Except.error "{EXC_TAG[name]}")'
        raise NotTranslatable(f"raise {ast.unparse(exc)[:40]}")
    if kind == "int":
        if text == SPAN_DAYS:
            return "p.spanDays"
        if text == WEEKS_AFTER.format(kw="years"):
            return "(Tie.weeksAfterYears p)"
        if text == WEEKS_AFTER.format(kw="months"):
            return "(Tie.weeksAfterMonths p)"
        if len(stmts) == 1 and isinstance(last, ast.Return) and last.value is not None:
            return _int_expr(last.value)
    if kind == "periods" and len(stmts) == 1 and isinstance(last, ast.Return) and isinstance(last.value, ast.ListComp):
        lc = last.value
        g = lc.generators[0] if len(lc.generators) == 1 else None
        if g is not None and isinstance(g.target, ast.Name) and not g.ifs and isinstance(g.iter, ast.Call) and _attr_path(g.iter.func) == "range" \
                and len(g.iter.args) == 1 and isinstance(lc.elt, ast.Call) and isinstance(lc.elt.func, ast.Attribute) and lc.elt.func.attr == "offset" \
                and len(lc.elt.args) == 2 and isinstance(lc.elt.args[0], ast.Name) and lc.elt.args[0].id == g.target.id:
            base = _attr_path(lc.elt.func.value) or ""
            unit = _attr_path(lc.elt.args[1]) or ""
            count = _attr_path(g.iter.args[0]) or ""
            if base.startswith("self.") and base[5:] in PERIOD_ATTR and unit.split(".")[-1] in UNITS and count.startswith("self.") and count[5:] in SIZE_ATTR:
                return (f"(do let b ← {PERIOD_ATTR[base[5:]]}; let n ← {SIZE_ATTR[count[5:]]}; "
                        f"offsetsFrom b DUnit.{unit.split('.')[-1].lower()} n)")
    raise NotTranslatable(f"leaf not understood: {text[:80]!r}")


def dispatch_chain(fn: ast.FunctionDef, tr: Tr, kind: str) -> list:
    """[(lean condition | None, lean leaf)]; the last entry is the default leaf"""
    out: list = []

    def block(body: list, ctx: list) -> None:
        body = [s for s in body if not (isinstance(s, ast.Expr) and isinstance(s.value, ast.Constant) and isinstance(s.value.value, str))]
        for i, s in enumerate(body):
            if isinstance(s, ast.If) and not s.orelse:
                try:
                    cond = tr.boolean(s.test)
                except NotTranslatable:
                    cond = None
                if cond is not None:
                    try:
                        leaf = _leaf(s.body, kind)
                        out.append((" && ".join([*ctx, cond]) if ctx else cond, leaf))
                    except NotTranslatable:
                        block(s.body, [*ctx, cond])
                    continue
            # everything that is left is the default leaf of this block
            out.append((" && ".join(ctx) if ctx else None, _leaf(body[i:], kind)))
            return
        raise NotTranslatable("a block falls through without returning")

    block(fn.body, [])
    if not out or out[-1][0] is not None:
        raise NotTranslatable("no default leaf")
    return out


def first_match_loop(fn: ast.FunctionDef, make_vocab) -> tuple[str, str]:
    """`for X in <seq>: if T(X): return X.attr` followed by `return None` -> (lean condition over `e`, attr)"""
    body = [s for s in fn.body if not (isinstance(s, ast.Expr) and isinstance(s.value, ast.Constant) and isinstance(s.value.value, str))]
    if len(body) != 2 or not isinstance(body[0], ast.For) or not isinstance(body[1], ast.Return):
        raise NotTranslatable("not a `for … return` followed by one `return`")
    loop, last = body
    if not (last.value is None or (isinstance(last.value, ast.Constant) and last.value.value is None)):
        raise NotTranslatable("the function does not end with `return None`")
    if loop.orelse or not isinstance(loop.target, ast.Name) or len(loop.body) != 1 or not isinstance(loop.body[0], ast.If):
        raise NotTranslatable("loop body is not one `if`")
    test = loop.body[0]
    x = loop.target.id
    if test.orelse or len(test.body) != 1 or not isinstance(test.body[0], ast.Return) or not isinstance(test.body[0].value, ast.Attribute) \
            or _attr_path(test.body[0].value.value) != x:
        raise NotTranslatable("the `if` does not return an attribute of the loop variable")
    seq = _attr_path(loop.iter)
    tr = Tr(make_vocab(x))
    return tr.boolean(test.test), test.body[0].value.attr, seq


def formula_scan(fn: ast.FunctionDef, skip: list) -> str:
    """`Variable.get_formula`: the top-level `if T: return None` guards that speak of `self.formulas` / `self.end`, then the
    closing `for K in [reversed](self.formulas): if K <cmp> instant_str: return self.formulas[K]` / `return None`.
    `l` = the SortedDict's items in ascending key order, `o` = the instant, `en` = the `end` attribute."""
    body = [s for s in fn.body if not (isinstance(s, ast.Expr) and isinstance(s.value, ast.Constant))
            and not (isinstance(s, ast.AnnAssign) and s.value is None)]
    if len(body) < 2 or not isinstance(body[-2], ast.For) or not isinstance(body[-1], ast.Return):
        raise NotTranslatable("does not end with `for … return` / `return`")
    loop, last = body[-2], body[-1]
    if not (last.value is None or (isinstance(last.value, ast.Constant) and last.value.value is None)):
        raise NotTranslatable("the function does not end with `return None`")
    def is_none_return(stmts: list) -> bool:
        return len(stmts) == 1 and isinstance(stmts[0], ast.Return) and (
            stmts[0].value is None or (isinstance(stmts[0].value, ast.Constant) and stmts[0].value.value is None))
    guards = []
    for s in body[:-2]:
        src = ast.unparse(s)
        if any(src.startswith(k) for k in skip):
            continue
        if not (isinstance(s, ast.If) and not s.orelse and is_none_return(s.body)):
            raise NotTranslatable(f"unexpected statement `{src.splitlines()[0][:60]}`")
        t = ast.unparse(s.test)
        if t == "not self.formulas":
            guards.append("l.isEmpty")
        elif t == "self.end and instant.date > self.end":
            guards.append("(match en with | some e => decide (o > e) | none => false)")
        elif t == "self.end and instant.date >= self.end":
            guards.append("(match en with | some e => decide (o ≥ e) | none => false)")
        else:
            raise NotTranslatable(f"unknown guard `{t[:60]}`")
    it = ast.unparse(loop.iter)
    if it == "reversed(self.formulas)":
        seq = "l.reverse"
    elif it == "self.formulas":
        seq = "l"
    else:
        raise NotTranslatable(f"iterates over `{it[:40]}`")
    if loop.orelse or not isinstance(loop.target, ast.Name) or len(loop.body) != 1 or not isinstance(loop.body[0], ast.If):
        raise NotTranslatable("loop body is not one `if`")
    k, test = loop.target.id, loop.body[0]
    if test.orelse or len(test.body) != 1 or not isinstance(test.body[0], ast.Return) or ast.unparse(test.body[0].value) != f"self.formulas[{k}]":
        raise NotTranslatable("the `if` does not return the formula of the loop key")
    c = test.test
    ops = {ast.LtE: "≤", ast.Lt: "<", ast.GtE: "≥", ast.Gt: ">", ast.Eq: "="}
    if not (isinstance(c, ast.Compare) and len(c.ops) == 1 and type(c.ops[0]) in ops):
        raise NotTranslatable("loop test is not one comparison")
    side = {k: "f.1", "instant_str": "o"}
    a, b = ast.unparse(c.left), ast.unparse(c.comparators[0])
    if a not in side or b not in side or a == b:
        raise NotTranslatable(f"loop test compares `{a}` and `{b}`")
    scan = f"match {seq}.find? (fun f => decide ({side[a]} {ops[type(c.ops[0])]} {side[b]})) with\n  | some f => some f.2\n  | none => none"
    out = ""
    for g in guards:
        out += f"  if {g} then none else\n"
    return out + "  " + scan


def children_loop(fn: ast.FunctionDef) -> str:
    """`ParameterNodeAtInstant.__init__`: `for NAME, CHILD in node.children.items(): X = CHILD._get_at_instant(instant_str);
    if X is not None: self.add_child(NAME, X)` -> a `filterMap` over the children in dict order.  `atI` = `_get_at_instant`."""
    loops = [s for s in fn.body if isinstance(s, ast.For)]
    others = [s for s in fn.body if not isinstance(s, ast.For) and not (isinstance(s, ast.Expr) and isinstance(s.value, ast.Constant))]
    for s in others:                       # the technical attributes: plain assignments to `self._…`
        if not (isinstance(s, ast.Assign) and len(s.targets) == 1 and (_attr_path(s.targets[0]) or "").startswith("self._")):
            raise NotTranslatable(f"unexpected statement `{ast.unparse(s)[:60]}`")
        if _attr_path(s.targets[0]) == "self._children" and ast.unparse(s.value) != "{}":
            raise NotTranslatable("`_children` does not start empty")
    if len(loops) != 1:
        raise NotTranslatable("not exactly one loop")
    loop = loops[0]
    if ast.unparse(loop.iter) != "node.children.items()" or loop.orelse:
        raise NotTranslatable(f"iterates over `{ast.unparse(loop.iter)[:40]}`")
    if not (isinstance(loop.target, ast.Tuple) and len(loop.target.elts) == 2 and all(isinstance(e, ast.Name) for e in loop.target.elts)):
        raise NotTranslatable("loop target is not `name, child`")
    k, c = (e.id for e in loop.target.elts)
    if len(loop.body) != 2 or not isinstance(loop.body[0], ast.Assign) or not isinstance(loop.body[1], ast.If):
        raise NotTranslatable("loop body is not `X = …; if …:`")
    asg, test = loop.body
    if len(asg.targets) != 1 or not isinstance(asg.targets[0], ast.Name) or ast.unparse(asg.value) != f"{c}._get_at_instant(instant_str)":
        raise NotTranslatable("the child is not read with `_get_at_instant(instant_str)`")
    x = asg.targets[0].id
    if ast.unparse(test.test) != f"{x} is not None" or test.orelse:
        raise NotTranslatable(f"the test is `{ast.unparse(test.test)[:40]}`")
    if len(test.body) != 1 or ast.unparse(test.body[0]) != f"self.add_child({k}, {x})":
        raise NotTranslatable("the `if` does not `add_child(name, value)`")
    return ("  cs.filterMap (fun kc => match atI kc.2 d with\n    | some s => some (kc.1, s)\n    | none => none)")


_HOLDER_READS = {"self._memory_storage.get(period)": "m", "self._disk_storage.get(period)": "dk"}


def holder_lookup(fn: ast.FunctionDef, skip: list) -> str:
    """`Holder.get_array`: a sequence of `X = <store>.get(period)` / `if T: return E` ending with `return E`, over the two
    stores.  `m` / `dk` = what the memory / disk store holds for the period, `hasDisk` = truthiness of `_disk_storage`."""
    env = dict(_HOLDER_READS)
    def val(n: ast.AST) -> str:
        if n is None or (isinstance(n, ast.Constant) and n.value is None):
            return "none"
        src = ast.unparse(n)
        if src in env:
            return env[src]
        raise NotTranslatable(f"returns `{src[:40]}`")
    def test(n: ast.AST) -> str:
        src = ast.unparse(n)
        if src == "self._disk_storage":
            return "hasDisk"
        if src == "not self._disk_storage":
            return "(!hasDisk)"
        if isinstance(n, ast.Compare) and len(n.ops) == 1 and isinstance(n.comparators[0], ast.Constant) and n.comparators[0].value is None:
            x = val(n.left)
            if isinstance(n.ops[0], ast.IsNot):
                return f"{x}.isSome"
            if isinstance(n.ops[0], ast.Is):
                return f"{x}.isNone"
        raise NotTranslatable(f"tests `{src[:40]}`")
    out, closed = "", False
    for s in fn.body:
        src = ast.unparse(s)
        if (isinstance(s, ast.Expr) and isinstance(s.value, ast.Constant)) or any(src.startswith(k) for k in skip):
            continue
        if closed:
            raise NotTranslatable("statement after the final `return`")
        if isinstance(s, ast.Assign) and len(s.targets) == 1 and isinstance(s.targets[0], ast.Name) and ast.unparse(s.value) in _HOLDER_READS:
            env[s.targets[0].id] = _HOLDER_READS[ast.unparse(s.value)]
        elif isinstance(s, ast.If) and not s.orelse and len(s.body) == 1 and isinstance(s.body[0], ast.Return):
            out += f"  if {test(s.test)} then {val(s.body[0].value)} else\n"
        elif isinstance(s, ast.Return):
            out += f"  {val(s.value)}"
            closed = True
        else:
            raise NotTranslatable(f"unexpected statement `{src.splitlines()[0][:60]}`")
    if not closed:
        raise NotTranslatable("no final `return`")
    return out


def holder_store_choice(fn: ast.FunctionDef) -> str:
    """the tail of `Holder._set`: `should_store_on_disk = A and B and C` then `if should_store_on_disk: <disk>.put else: <memory>.put`;
    `true` = the value goes to the disk store"""
    asg = [s for s in fn.body if isinstance(s, ast.Assign) and len(s.targets) == 1 and ast.unparse(s.targets[0]) == "should_store_on_disk"]
    ifs = [s for s in fn.body if isinstance(s, ast.If) and ast.unparse(s.test) in ("should_store_on_disk", "not should_store_on_disk")]
    if len(asg) != 1 or len(ifs) != 1 or fn.body.index(ifs[0]) != len(fn.body) - 1 or fn.body.index(asg[0]) != len(fn.body) - 2:
        raise NotTranslatable("`_set` does not end with `should_store_on_disk = …` / `if should_store_on_disk:`")
    def atom(n: ast.AST) -> str:
        src = ast.unparse(n)
        if src == "self._on_disk_storable":
            return "storable"
        if src == "self._memory_storage.get(period) is None":
            return "m.isNone"
        if src == "self._memory_storage.get(period) is not None":
            return "m.isSome"
        if src == "psutil.virtual_memory().percent >= self.simulation.memory_config.max_memory_occupation_pc":
            return "pressure"
        if isinstance(n, ast.UnaryOp) and isinstance(n.op, ast.Not):
            return f"(!{atom(n.operand)})"
        if isinstance(n, ast.BoolOp):
            return "(" + (" && " if isinstance(n.op, ast.And) else " || ").join(atom(v) for v in n.values) + ")"
        raise NotTranslatable(f"unknown condition `{src[:50]}`")
    cond = atom(asg[0].value)
    branch = ifs[0]
    def put(stmts: list) -> str:
        if len(stmts) == 1:
            src = ast.unparse(stmts[0])
            if src == "self._disk_storage.put(value, period)":
                return "disk"
            if src == "self._memory_storage.put(value, period)":
                return "mem"
        raise NotTranslatable("a branch is not one `put(value, period)`")
    a, b = put(branch.body), put(branch.orelse)
    if a == b:
        raise NotTranslatable("both branches write to the same store")
    if ast.unparse(branch.test).startswith("not "):
        a, b = b, a
    return f"  {cond}" if a == "disk" else f"  (!{cond})"


def purge_shape(fn: ast.FunctionDef) -> str:
    """`Simulation.purge_cache_of_invalid_values`: `if [not] self.tracer.stack: return`, then the loop deleting every marked
    (name, period) through its holder, then `self.invalidated_caches = set()`"""
    body = [s for s in fn.body if not (isinstance(s, ast.Expr) and isinstance(s.value, ast.Constant))]
    if len(body) != 3 or not isinstance(body[0], ast.If) or not isinstance(body[1], ast.For) or not isinstance(body[2], ast.Assign):
        raise NotTranslatable("not `if …: return` / `for …` / `… = set()`")
    g, loop, reset = body
    if g.orelse or len(g.body) != 1 or not isinstance(g.body[0], ast.Return) or g.body[0].value is not None:
        raise NotTranslatable("the guard does not `return`")
    t = ast.unparse(g.test)
    if t == "self.tracer.stack":
        cond = "(!stack.isEmpty)"
    elif t == "not self.tracer.stack":
        cond = "stack.isEmpty"
    else:
        raise NotTranslatable(f"the guard tests `{t[:40]}`")
    if ast.unparse(loop.iter) != "self.invalidated_caches" or loop.orelse or not isinstance(loop.target, ast.Tuple) or len(loop.target.elts) != 2:
        raise NotTranslatable("the loop is not over the pairs of `self.invalidated_caches`")
    a, b = (ast.unparse(e) for e in loop.target.elts)
    stmts = [ast.unparse(s) for s in loop.body]
    if stmts != [f"holder = self.get_holder({a})", f"holder.delete_arrays({b})"]:
        raise NotTranslatable("the loop body is not `holder = self.get_holder(name); holder.delete_arrays(period)`")
    if ast.unparse(reset) != "self.invalidated_caches = set()":
        raise NotTranslatable("the marks are not reset to `set()`")
    return f"  if {cond} then s else\n  reset (inval.foldl deleteOne s)"


def storage_key(fn: ast.FunctionDef) -> str:
    """the statements of an `InMemoryStorage` method that re-bind `period` before the dictionary is touched:
    `if self.is_eternal: period = periods.period(DateUnit.ETERNITY)` and `period = periods.period(period)`;
    `norm` = `periods.period`, `eternity` = the ETERNITY period"""
    expr = "p"
    def rhs(n: ast.AST, cur: str) -> str:
        src = ast.unparse(n)
        if src in ("periods.period(DateUnit.ETERNITY)", "periods.period(periods.DateUnit.ETERNITY)", "periods.period(periods.ETERNITY)", "periods.period(ETERNITY)"):
            return "(norm eternity)"
        if src == "periods.period(period)":
            return f"(norm {cur})"
        raise NotTranslatable(f"`period` is bound to `{src[:50]}`")
    seen = False
    for s in fn.body:
        if isinstance(s, ast.Assign) and len(s.targets) == 1 and ast.unparse(s.targets[0]) == "period":
            expr = rhs(s.value, expr); seen = True
        elif isinstance(s, ast.If) and ast.unparse(s.test) in ("self.is_eternal", "not self.is_eternal") and not s.orelse \
                and len(s.body) == 1 and isinstance(s.body[0], ast.Assign) and ast.unparse(s.body[0].targets[0]) == "period":
            inner = rhs(s.body[0].value, expr)
            c = "eternal" if ast.unparse(s.test) == "self.is_eternal" else "(!eternal)"
            expr = f"(if {c} then {inner} else {expr})"; seen = True
        elif any(isinstance(n, ast.Name) and n.id == "period" and isinstance(n.ctx, ast.Store) for n in ast.walk(s)) \
                and not (isinstance(s, ast.Assign) and ast.unparse(s.targets[0]) == "self._arrays"):
            raise NotTranslatable(f"`period` is re-bound by `{ast.unparse(s).splitlines()[0][:50]}`")
    if not seen:
        raise NotTranslatable("`period` is never normalised")
    return "  " + expr


def located_test(fn: ast.FunctionDef, tr: Tr, marker: str) -> str:
    """the test of the one `if … : raise` whose source mentions `marker`, wherever it is nested in the function"""
    found = [n for n in ast.walk(fn) if isinstance(n, ast.If) and marker in ast.unparse(n.test) and not n.orelse
             and len(n.body) >= 1 and isinstance(n.body[-1], ast.Raise)]
    if len(found) != 1:
        raise NotTranslatable(f"{len(found)} raising `if` statements mention {marker}")
    return tr.boolean(found[0].test)


def parallel_lists_update(fn: ast.FunctionDef, values: str) -> str:
    """`add_bracket(self, threshold, x)` of the tax scales: an if/else over `threshold in self.thresholds` whose arms
    update the two parallel lists `self.thresholds` / `self.<values>`; translated statement by statement to the paired
    list `s : List (threshold × value)` of the model (`hasT`, `indexT`, `bumpAt`, `bisectLeft/Right`, `insertAt`)."""
    body = [s for s in fn.body if not (isinstance(s, ast.Expr) and isinstance(s.value, ast.Constant) and isinstance(s.value.value, str))]
    args = [a.arg for a in fn.args.args]
    if len(args) != 3 or len(body) != 1 or not isinstance(body[0], ast.If) or not body[0].orelse:
        raise NotTranslatable("not `if … else …` over three arguments")
    t, x = args[1], args[2]
    test = ast.unparse(body[0].test)
    if test == f"{t} in self.thresholds":
        cond = "hasT s t"
    elif test == f"{t} not in self.thresholds":
        cond = "!(hasT s t)"
    else:
        raise NotTranslatable(f"test {test}")

    def arm(stmts: list) -> str:
        env: dict = {}
        term = "s"
        pending_insert = None
        for st in stmts:
            src = ast.unparse(st)
            if isinstance(st, ast.Assign) and len(st.targets) == 1 and isinstance(st.targets[0], ast.Name):
                name, rhs = st.targets[0].id, ast.unparse(st.value)
                for py, lean in ((f"self.thresholds.index({t})", "indexT s t"), (f"bisect.bisect_left(self.thresholds, {t})", "bisectLeft s t"),
                                 (f"bisect.bisect_right(self.thresholds, {t})", "bisectRight s t"), (f"bisect.bisect(self.thresholds, {t})", "bisectRight s t")):
                    if rhs == py:
                        env[name] = f"({lean})"
                        break
                else:
                    raise NotTranslatable(f"assignment {src[:50]}")
                if term != "s":
                    raise NotTranslatable("an index is taken after the lists were changed")
                continue
            m = None
            if isinstance(st, ast.AugAssign) and isinstance(st.op, ast.Add) and isinstance(st.target, ast.Subscript) \
                    and ast.unparse(st.target.value) == f"self.{values}" and isinstance(st.target.slice, ast.Name) \
                    and st.target.slice.id in env and ast.unparse(st.value) == x:
                term = f"(bumpAt {term} {env[st.target.slice.id]} x)"
                continue
            if isinstance(st, ast.Expr) and isinstance(st.value, ast.Call) and isinstance(st.value.func, ast.Attribute) and st.value.func.attr == "insert" \
                    and len(st.value.args) == 2 and isinstance(st.value.args[0], ast.Name) and st.value.args[0].id in env:
                which, idx, what = ast.unparse(st.value.func.value), st.value.args[0].id, ast.unparse(st.value.args[1])
                if pending_insert is None and which == "self.thresholds" and what == t:
                    pending_insert = idx
                    continue
                if pending_insert == idx and which == f"self.{values}" and what == x:
                    term = f"(insertAt {term} {env[idx]} (t, x))"
                    pending_insert = None
                    continue
            raise NotTranslatable(f"statement {src[:60]}")
        if pending_insert is not None:
            raise NotTranslatable("a threshold is inserted without its value")
        return term

    return f"  if {cond} then {arm(body[0].body)} else {arm(body[0].orelse)}"


def _dispatch_to_lean(chain: list) -> str:
    lines = []
    for cond, leaf in chain[:-1]:
        lines.append(f"  if {cond} then {leaf} else")
    lines.append("  " + chain[-1][1])
    return "\n".join(lines)


# ---------------------------------------------------------------------------------------------------------------
# what is translated

SIM = "openfisca_core/simulations/simulation.py"
HOLDER = "openfisca_core/holders/holder.py"
V_SIM = {"variable.definition_period": ("du", "unit"), "period.unit": ("pu", "unit"), "period.size": ("sz", "int")}
V_HOLDER = {"self.variable.definition_period": ("du", "unit"), "period.unit": ("pu", "unit"), "period.size": ("sz", "int"),
            "self._eternal": ("(du == DUnit.eternity)", "bool"), "period": ("(some pu)", "opt"),
            "self.variable.is_neutralized": ("neutralized", "bool")}
PERIOD = "openfisca_core/periods/period_.py"
V_PERIOD = {"self.unit": ("p.unit", "unit"), "self.size": ("p.size", "int"), "unit": ("u", "unit")}
SKIP_SIM = ["variable: Variable | None", "variable = self.tax_benefit_system.get_variable(", "if variable is None:",
            "if period is not None and (not isinstance(period, periods.Period)):", "return sum(", "return self.calculate("]

SPECS = [
    # name, file, class, function, kind, vocabulary, parameters, extra
    dict(name="checkPeriodConsistency_raises", file=SIM, cls="Simulation", func="_check_period_consistency", kind="guards",
         vocab=V_SIM, params="(du pu : DUnit) (sz : Int)", skip=[], fallback="OFCore.Tie.consistencyGuards du pu sz"),
    dict(name="calculateAdd_raises", file=SIM, cls="Simulation", func="calculate_add", kind="guards",
         vocab=V_SIM, params="(du pu : DUnit) (sz : Int)", skip=SKIP_SIM, fallback="OFCore.Tie.addGuards du pu sz"),
    dict(name="calculateDivide_raises", file=SIM, cls="Simulation", func="calculate_divide", kind="guards",
         vocab=V_SIM, params="(du pu : DUnit) (sz : Int)", skip=SKIP_SIM + ["if variable.definition_period == periods.DateUnit.YEAR:\n    calculation_period",
                                                                           "if period.unit == periods.DateUnit.YEAR:\n    denominator"],
         fallback="OFCore.Tie.divideGuards du pu sz"),
    dict(name="calculateDivide_period", file=SIM, cls="Simulation", func="calculate_divide", kind="selector", target="calculation_period",
         vocab=V_SIM, params="(du : DUnit)", fallback="OFCore.Tie.enclosingName du"),
    dict(name="calculateDivide_denominator", file=SIM, cls="Simulation", func="calculate_divide", kind="selector", target="denominator",
         vocab=V_SIM, params="(pu : DUnit)", fallback="OFCore.Tie.denominatorName pu"),
    *[dict(name=f"period_{fn}", file=PERIOD, cls="Period", func=fn, kind="dispatch", leaf="int", vocab=V_PERIOD,
           params="(p : Period)", typ="Except String Int", fallback=f"p.{model}")
      for fn, model in (("size_in_years", "sizeInYears"), ("size_in_months", "sizeInMonths"), ("size_in_days", "sizeInDays"),
                        ("size_in_weeks", "sizeInWeeks"), ("size_in_weekdays", "sizeInWeekdays"))],
    dict(name="period_get_subperiods", file=PERIOD, cls="Period", func="get_subperiods", kind="dispatch", leaf="periods", vocab=V_PERIOD,
         params="(p : Period) (u : DUnit)", typ="Except String (List Period)", fallback="p.subperiods u"),
    dict(name="parameter_get_at_instant", module="GeneratedParam", file="openfisca_core/parameters/parameter.py", cls="Parameter",
         func="_get_at_instant", kind="firstmatch", params="{V : Type} (l : List (OFCore.Param.Entry V)) (d : Int)", typ="Option V",
         fallback="OFCore.Param.pget l d"),
    dict(name="node_at_instant_children", module="GeneratedParam", file="openfisca_core/parameters/parameter_node_at_instant.py",
         cls="ParameterNodeAtInstant", func="__init__", kind="childrenloop",
         params="{C S : Type} (atI : C → Int → Option S) (cs : List (String × C)) (d : Int)", typ="List (String × S)",
         fallback="cs.filterMap (fun kc => match atI kc.2 d with\n    | some s => some (kc.1, s)\n    | none => none)"),
    dict(name="checkForCycle", module="GeneratedEngine", file=SIM, cls="Simulation", func="_check_for_cycle", kind="classes",
         classes={"CycleError": 1, "SpiralError": 2},
         vocab={"variable": ("v", "varname"), "period": ("p", "pval"), "self.max_spiral_loops": ("msl", "nat")},
         params="{P : Type} [DecidableEq P] (below : List (Nat × P)) (v : Nat) (p : P) (msl : Nat)", typ="Nat",
         fallback="if (v, p) ∈ below then 1 else if msl ≤ (below.filter (fun k => k.1 = v)).length then 2 else 0"),
    dict(name="variable_get_formula", module="GeneratedEngine", file="openfisca_core/variables/variable.py", cls="Variable",
         func="get_formula", kind="formulascan",
         skip=["if period is None:", "if isinstance(period, Period):", "if instant is None:", "instant_str = str(instant)"],
         params="{F : Type} (l : List (Int × F)) (en : Option Int) (o : Int)", typ="Option F",
         fallback="if l.isEmpty then none else\n  if (match en with | some e => decide (o > e) | none => false) then none else\n  match l.reverse.find? (fun f => decide (f.1 ≤ o)) with\n  | some f => some f.2\n  | none => none"),
    dict(name="holder_get_array", module="GeneratedEngine", file=HOLDER, cls="Holder", func="get_array", kind="holderlookup",
         skip=["if self.variable.is_neutralized:"],
         params="{V : Type} (m dk : Option V) (hasDisk : Bool)", typ="Option V",
         fallback="if m.isSome then m else\n  if hasDisk then dk else\n  none"),
    dict(name="holder_set_to_disk", module="GeneratedEngine", file=HOLDER, cls="Holder", func="_set", kind="holderstore",
         params="{V : Type} (storable : Bool) (m : Option V) (pressure : Bool)", typ="Bool",
         fallback="(storable && m.isNone && pressure)"),
    dict(name="purge_cache_of_invalid_values", module="GeneratedEngine", file=SIM, cls="Simulation", func="purge_cache_of_invalid_values",
         kind="purge", params="{S N I : Type} (stack : List N) (inval : List I) (deleteOne : S → I → S) (reset : S → S) (s : S)", typ="S",
         fallback="if (!stack.isEmpty) then s else\n  reset (inval.foldl deleteOne s)"),
    *[dict(name=f"memory_storage_key_{f}", module="GeneratedEngine", file="openfisca_core/data_storage/in_memory_storage.py",
           cls="InMemoryStorage", func=f, kind="storekey", params="{K : Type} (norm : K → K) (eternity : K) (eternal : Bool) (p : K)", typ="K",
           fallback="(norm (if eternal then (norm eternity) else p))") for f in ("get", "put", "delete")],
    dict(name="period_text_finer_refused", file="openfisca_core/periods/helpers.py", cls=None, func="period", kind="located",
         marker="unit_weight(period.unit)", vocab={"period.unit": ("base", "unit"), "unit": ("u", "unit")},
         params="(u base : DUnit)", typ="Bool",
         fallback="(decide (unitWeight base > unitWeight u) || (u == DUnit.week && base == DUnit.month))"),
    dict(name="rate_add_bracket", module="GeneratedScale", file="openfisca_core/taxscales/rate_tax_scale_like.py", cls="RateTaxScaleLike",
         func="add_bracket", kind="parallel", values="rates", params="(s : OFCore.Sca.Scale) (t x : Rat)", typ="OFCore.Sca.Scale",
         fallback="OFCore.Sca.addBracket s t x"),
    dict(name="amount_add_bracket", module="GeneratedScale", file="openfisca_core/taxscales/amount_tax_scale_like.py", cls="AmountTaxScaleLike",
         func="add_bracket", kind="parallel", values="amounts", params="(s : OFCore.Sca.Scale) (t x : Rat)", typ="OFCore.Sca.Scale",
         fallback="OFCore.Sca.addBracket s t x"),
    dict(name="holderSet_raises", file=HOLDER, cls="Holder", func="_set", kind="guards", stop_at="should_store_on_disk",
         vocab=V_HOLDER, params="(du pu : DUnit) (sz : Int)", skip=["value = self._to_array(value)"],
         fallback="OFCore.Tie.holderSetGuards du pu sz"),
    dict(name="holderSetInput_refuses", file=HOLDER, cls="Holder", func="set_input", kind="guards", stop_at="if self.variable.value_type in",
         vocab=V_HOLDER, params="(du pu : DUnit) (neutralized : Bool)", skip=["period = periods.period(period)"],
         fallback="(pu == DUnit.eternity && du != DUnit.eternity)", raise_only=True),
]


def _classes_to_lean(fn: ast.FunctionDef, tr: Tr, classes: dict) -> str:
    """a guard chain whose guards raise DIFFERENT exception classes: the index of the class raised, 0 = none.
    A guard body may call methods before raising (`self.invalidate_spiral_variables(variable)`): they do not decide."""
    tr.lets = []
    lines = []
    for s in fn.body:
        if isinstance(s, ast.Expr) and isinstance(s.value, ast.Constant):
            continue
        if isinstance(s, ast.Assign) and len(s.targets) == 1 and isinstance(s.targets[0], ast.Name):
            if s.targets[0].id in tr.vocab:
                raise NotTranslatable(f"{s.targets[0].id} is assigned twice")
            tr.vocab[s.targets[0].id] = tr.expr(s.value)
            continue
        if isinstance(s, ast.If) and not s.orelse and isinstance(s.body[-1], ast.Raise):
            exc = s.body[-1].exc
            name = (_attr_path(exc.func) if isinstance(exc, ast.Call) else _attr_path(exc)) or ""
            name = name.split(".")[-1]
            if name not in classes:
                raise NotTranslatable(f"raises {name}")
            if not all(_is_msg_assign(x) or (isinstance(x, ast.Expr) and isinstance(x.value, ast.Call)) for x in s.body[:-1]):
                raise NotTranslatable("guard body does more than call and raise")
            lines.append(f"  if {tr.boolean(s.test)} then {classes[name]} else")
            continue
        raise NotTranslatable(f"statement not understood at line {s.lineno}: {ast.unparse(s)[:60]}")
    if not lines:
        raise NotTranslatable("no guard")
    lines.append("  0")
    return "\n".join(lines)


# which properties' models each translated function is tied to (Props/<pid>Tie.lean)
TIED_TO = {
    "checkPeriodConsistency_raises": ["C01", "C03"], "calculateAdd_raises": ["C01", "C03"], "calculateDivide_raises": ["C03"],
    "calculateDivide_period": ["C03"], "calculateDivide_denominator": ["C03"],
    "period_size_in_years": ["C04"], "period_size_in_months": ["C04"], "period_size_in_days": ["C04"], "period_size_in_weeks": ["C04"],
    "period_size_in_weekdays": ["C04"], "period_get_subperiods": ["C04", "C03"], "period_text_finer_refused": ["C05"],
    "holderSet_raises": ["C03", "C16"], "holderSetInput_refuses": ["C16"], "parameter_get_at_instant": ["C06"], "node_at_instant_children": ["C06"],
    "checkForCycle": ["C01", "C02"], "variable_get_formula": ["C01"], "purge_cache_of_invalid_values": ["C02"], "holder_get_array": ["C17"], "holder_set_to_disk": ["C17"], "memory_storage_key_get": ["C17"], "memory_storage_key_put": ["C17"], "memory_storage_key_delete": ["C17"], "rate_add_bracket": ["C08", "C09"], "amount_add_bracket": ["C08", "C09"],
}


def functions_for(pid: str) -> list:
    return [k for k, v in TIED_TO.items() if pid in v]


def _chain_to_lean(chain: list, raise_only: bool = False) -> str:
    lines = []
    for cond, act in chain:
        if raise_only and act == "return":
            # a `return` guard ends the chain without raising; later guards are not reached
            lines.append(f"  if {cond} then false else")
        else:
            lines.append(f"  if {cond} then {'true' if act == 'raise' else 'false'} else")
    lines.append("  false")
    return "\n".join(lines)


def _selector_to_lean(chain: list) -> str:
    lines = []
    for cond, attr in chain:
        if cond is None:
            lines.append(f'  "{attr}"')
        else:
            lines.append(f'  if {cond} then "{attr}" else')
    if chain and chain[-1][0] is not None:
        lines.append('  ""')
    return "\n".join(lines)


MODULES = {"GeneratedGuards": ("OFCore.TieBase", "OFCore.Generated.Guards"), "GeneratedParam": ("OFCore.Param", "OFCore.Generated.Param"),
           "GeneratedEngine": ("OFCore.Basic", "OFCore.Generated.Engine"), "GeneratedScale": ("OFCore.TaxScale", "OFCore.Generated.Scale")}


def translate(repo: str, module: str = "GeneratedGuards") -> tuple[str, dict]:
    """the text of GeneratedGuards.lean and {name: 'translated' | 'fallback: reason'}"""
    trees: dict = {}
    status: dict = {}
    defs = []
    for sp in SPECS:
        if sp.get("module", "GeneratedGuards") != module:
            continue
        try:
            if os.environ.get("OFV_TRANSLATE_FORCE_FALLBACK") == "1":      # self-test of the fall-back route
                raise NotTranslatable("forced")
            if sp["file"] not in trees:
                trees[sp["file"]] = ast.parse(open(os.path.join(repo, sp["file"])).read())
            fn = _find(trees[sp["file"]], sp["cls"], sp["func"])
            tr = Tr(sp.get("vocab", {}))
            if sp["kind"] == "guards":
                chain = guard_chain(fn, tr, sp.get("skip", []), sp.get("stop_at"))
                if not chain:
                    raise NotTranslatable("no guard found")
                body = _chain_to_lean(chain, sp.get("raise_only", False))
                typ = "Bool"
                doc = f"{len(chain)} guards of `{sp['cls']}.{sp['func']}` ({sp['file']}), first match decides; `true` = raises"
            elif sp["kind"] == "parallel":
                body = parallel_lists_update(fn, sp["values"])
                typ = sp["typ"]
                doc = (f"`{sp['cls']}.{sp['func']}` ({sp['file']}): the updates of the parallel lists `thresholds` / `{sp['values']}` "
                       "translated statement by statement to the paired list of the model")
            elif sp["kind"] == "located":
                body = "  " + located_test(fn, tr, sp["marker"])
                typ = sp["typ"]
                doc = f"the test of the `if … raise` of `{sp['func']}` ({sp['file']}) that mentions `{sp['marker']}`"
            elif sp["kind"] == "classes":
                body = _classes_to_lean(fn, Tr(dict(sp["vocab"])), sp["classes"])
                typ = sp["typ"]
                doc = (f"`{sp['cls']}.{sp['func']}` ({sp['file']}): which exception class is raised "
                       f"({', '.join(f'{v} = {k}' for k, v in sp['classes'].items())}, 0 = none); `below` = `self.tracer.stack[:-1]`")
            elif sp["kind"] == "firstmatch":
                cond, attr, seq = first_match_loop(fn, lambda x: {f"{x}.instant_str": ("e.date", "int"), "instant": ("d", "int")})
                if attr != "value" or seq != "self.values_list":
                    raise NotTranslatable(f"returns .{attr} of the elements of {seq}")
                body = f"  match l.find? (fun e => {cond}) with\n  | some e => e.val\n  | none => none"
                typ = sp["typ"]
                doc = f"`{sp['cls']}.{sp['func']}` ({sp['file']}): first element of `values_list` passing the test, else None"
            elif sp["kind"] == "formulascan":
                body = formula_scan(fn, sp["skip"])
                typ = sp["typ"]
                doc = (f"`{sp['cls']}.{sp['func']}` ({sp['file']}): the `return None` guards on `self.formulas` / `self.end`, then the first-match "
                       "scan of the SortedDict's keys; `l` = its items in ascending key order, `o` = the instant, `en` = the `end` attribute")
            elif sp["kind"] == "childrenloop":
                body = children_loop(fn)
                typ = sp["typ"]
                doc = (f"`{sp['cls']}.{sp['func']}` ({sp['file']}): the loop over `node.children.items()` — each child read with "
                       "`_get_at_instant` (`atI`), kept under its name when the result is not None, in dict order")
            elif sp["kind"] == "holderlookup":
                body = holder_lookup(fn, sp["skip"])
                typ = sp["typ"]
                doc = (f"`{sp['cls']}.{sp['func']}` ({sp['file']}): the lookup through the two stores, statement by statement; `m` / `dk` = what the "
                       "memory / disk store holds for the period, `hasDisk` = truthiness of `_disk_storage`")
            elif sp["kind"] == "holderstore":
                body = holder_store_choice(fn)
                typ = sp["typ"]
                doc = (f"the tail of `{sp['cls']}.{sp['func']}` ({sp['file']}): `should_store_on_disk` and the branch that writes; `true` = the value "
                       "goes to the disk store; `pressure` = `psutil…percent >= max_memory_occupation_pc`")
            elif sp["kind"] == "purge":
                body = purge_shape(fn)
                typ = sp["typ"]
                doc = (f"`{sp['cls']}.{sp['func']}` ({sp['file']}): nothing while the stack is not empty; else every marked (variable, period) is "
                       "deleted through its holder (`deleteOne`), then the marks are reset (`reset`)")
            elif sp["kind"] == "storekey":
                body = storage_key(fn)
                typ = sp["typ"]
                doc = (f"`{sp['cls']}.{sp['func']}` ({sp['file']}): the key under which the dictionary is touched — the re-bindings of `period` "
                       "in order; `norm` = `periods.period`, `eternity` = the ETERNITY period, `eternal` = `self.is_eternal`")
            elif sp["kind"] == "dispatch":
                chain = dispatch_chain(fn, tr, sp["leaf"])
                body = _dispatch_to_lean(chain)
                typ = sp["typ"]
                doc = f"`{sp['cls']}.{sp['func']}` ({sp['file']}): {len(chain)} branches, first match decides, leaves translated idiom by idiom"
            else:
                chain = selector_chain(fn, tr, sp["target"])
                body = _selector_to_lean(chain)
                typ = "String"
                doc = f"the attribute `{sp['cls']}.{sp['func']}` assigns to `{sp['target']}` ({sp['file']})"
            status[sp["name"]] = "translated"
        except (NotTranslatable, OSError, SyntaxError) as e:
            body = "  " + sp["fallback"]
            typ = sp.get("typ") or ("Bool" if sp["kind"] == "guards" else "String")
            doc = f"NOT TRANSLATED ({e}): falls back to the hand-written model's own decision"
            status[sp["name"]] = f"fallback: {e}"
        defs.append(f"/-- {doc} -/\ndef {sp['name']} {sp['params']} : {typ} :=\n{body}\n")
    tr_list = ", ".join(f'("{k}", {"true" if v == "translated" else "false"})' for k, v in status.items())
    txt = ("-- REGENERATED from the tree under test by harness/ofverif/translate.py on every run. Do not edit.\n"
           f"import {MODULES[module][0]}\n"
           f"namespace {MODULES[module][1]}\nopen OFCore" + (" OFCore.Sca" if module == "GeneratedScale" else "") + "\n\n" + "\n".join(defs)
           + f"\ndef translated : List (String × Bool) := [{tr_list}]\n"
           f"end {MODULES[module][1]}\n")
    return txt, status


def regenerate(repo: str, lean_root: str) -> tuple[bool, dict]:
    changed, status = False, {}
    for module in MODULES:
        txt, st = translate(repo, module)
        status.update(st)
        path = os.path.join(lean_root, "OFCore", module + ".lean")
        old = open(path).read() if os.path.exists(path) else None
        if old != txt:
            with open(path, "w") as f:
                f.write(txt)
            changed = True
    return changed, status


if __name__ == "__main__":
    import sys
    for m in MODULES:
        t, s = translate(sys.argv[1] if len(sys.argv) > 1 else "/repo", m)
        print(t)
        print(s)
