"""Shared adapters for the `sys` domain (tax-benefit systems, reforms, copies; property C14).

Three independent pieces:

* the protocol syntax (`parse_line` / `fmt_*`), a mirror of `OFCore/Drv/Sys.lean`;
* `Real`: the history replayed on the REAL objects through the public API, the observations
  extracted from them in the driver's canonical text, and simulations run on them;
* `Spec` / `evaluate`: a direct reading of the property statement ("the original rules with the
  declared changes applied") as plain dictionaries and a naive recursive evaluator. It shares no
  code with the Lean model nor with openfisca.
"""
from __future__ import annotations

import atexit
import binascii
import datetime as dt
import hashlib
import importlib
import json
import os
import re
import shutil
import sys
import tempfile
import textwrap
import zlib
from fractions import Fraction

_INT = re.compile(r"^-?[0-9]+$")
_NAT = re.compile(r"^[0-9]+$")
_LOADED = re.compile(r"^\d+_-?\d+_(vars|__init__)$")
VTS = ("float", "int", "bool", "date", "enum", "str")
DPS = ("month", "year", "eternity")
SIS = ("dispatch", "divide")
CD_FIELDS = ("name", "vt", "default", "entity", "dp", "end", "si", "formulas")

PERSONS = ["p0", "p1", "p2"]
HOUSEHOLDS = {"h0": ["p0", "p1"], "h1": ["p2"]}
MEMBER_OF = [0, 0, 1]          # household index of each person
COUNT = {"person": 3, "household": 2}
BIG = 1 << 21                  # beyond this the float32 arithmetic of the engine may round


# --------------------------------------------------------------------------------------
# syntax


def _opt(tok):
    return None if tok == "-" else tok


def _opt_int(tok):
    if tok == "-":
        return True, None
    if not _INT.match(tok):
        return False, None
    return True, int(tok)


META_KEYS = ("reference", "documentation", "unit", "cerfa_field", "calculate_output", "is_period_size_independent",
             "max_length")
#: declarations `Variable.__init__` refuses (meta key "bad"): attribute -> value, as `class_attrs` sets them
BAD_DECLARATIONS = {
    "label_int": ("label", 5), "end_int0": ("end", 0), "doc_int0": ("documentation", 0), "unit_int": ("unit", 3),
    "ipsi_str": ("is_period_size_independent", "yes"), "cerfa_int": ("cerfa_field", 7), "reference_int": ("reference", 5),
    "dp_bad": ("definition_period", "fortnight"), "vt_bad": ("value_type", complex), "default_list": ("default_value", [1]),
    "entity_str": ("entity", "person"), "unexpected": ("colour", "blue"), "formula_name": ("formula_2018_13", None),
    "end_format": ("end", "2018-13-01"), "label_list": ("label", ["a"]), "doc_false": ("documentation", False),
    "end_false": ("end", False), "formula_nomatch": ("formula_x", None), "reference_list_int": ("reference", ["a", 5]),
    "label_true": ("label", True), "ipsi_int": ("is_period_size_independent", 1),
}


def attr_tok(x) -> str:
    """opaque token of an attribute value (`-` = None)"""
    if x is None:
        return "-"
    if isinstance(x, tuple):
        x = list(x)
    return "j" + hexjson(x)


def model_attrs(meta) -> dict:
    """key -> what `Variable.__init__` makes of the DECLARED value (the `attrs` field of the protocol): `set_label` and
    `set_documentation` turn a falsy value into None (and dedent), `set_reference` wraps a string and lists a tuple, a
    falsy `calculate_output` counts as not given, every other value is kept as it is"""
    out = {}
    m = meta or {}
    if "label" in m:
        out["label"] = m["label"] or None
    if "reference" in m:
        ref = m["reference"]
        out["reference"] = list(ref["t"]) if isinstance(ref, dict) else [ref] if isinstance(ref, str) and ref else ref
    if "documentation" in m:
        out["documentation"] = textwrap.dedent(m["documentation"]) if m["documentation"] else None
    for k in ("unit", "max_length", "is_period_size_independent"):
        if k in m:
            out[k] = m[k]
    if "cerfa_field" in m:
        out["cerfa_field"] = m["cerfa_field"]["d"] if isinstance(m["cerfa_field"], dict) else m["cerfa_field"]
    if "calculate_output" in m:
        out["calculate_output"] = m["calculate_output"] or None
    return out


def fmt_attrs(meta) -> str:
    items = [f"{k}={attr_tok(v)}" for k, v in sorted(model_attrs(meta).items())]
    if (meta or {}).get("bad"):
        items.append("bad=1")
    return ",".join(items) or "-"


def parse_classdef(tok):
    f = tok.split(":")
    if len(f) not in (8, 9, 10) or f[0] == "":
        return None
    meta = None
    if len(f) >= 9:
        try:
            meta = unhexjson(f[8])
        except Exception:
            meta = None
    ok, end = _opt_int(f[5])
    if not ok:
        return None
    fs = []
    if f[7] != "-":
        for x in f[7].split(","):
            g = x.split(">")
            if len(g) != 2 or not _INT.match(g[0]) or not _NAT.match(g[1]):
                return None
            fs.append((int(g[0]), int(g[1])))
    return {"name": f[0], "vt": _opt(f[1]), "default": _opt(f[2]), "entity": _opt(f[3]), "dp": _opt(f[4]),
            "end": end, "si": _opt(f[6]), "formulas": fs, **({"meta": meta} if meta else {})}


def fmt_classdef(cd) -> str:
    fs = ",".join(f"{d}>{n}" for d, n in cd["formulas"]) or "-"
    t = lambda x: "-" if x is None else str(x)
    return ":".join([cd["name"], t(cd["vt"]), t(cd["default"]), t(cd["entity"]), t(cd["dp"]), t(cd["end"]), t(cd["si"]), fs]
                    + ([hexjson(cd["meta"]), fmt_attrs(cd["meta"])] if cd.get("meta") else []))


def parse_pupd(tok):
    f = tok.split("@")
    if len(f) != 4 or not _INT.match(f[1]) or f[3] == "":
        return None
    ok, b = _opt_int(f[2])
    if not ok:
        return None
    return {"name": f[0], "a": int(f[1]), "b": b, "v": None if f[3] == "null" else f[3]}


def fmt_pupd(u) -> str:
    return f"{u['name']}@{u['a']}@{'-' if u['b'] is None else u['b']}@{'null' if u['v'] is None else u['v']}"


def parse_mod(tok):
    f = tok.split("~")
    if len(f) != 2:
        return None
    if f[0] in ("add", "upd", "rep"):
        cd = parse_classdef(f[1])
        return None if cd is None else (f[0], cd)
    if f[0] in ("neu", "ann"):
        return None if f[1] == "" else (f[0], f[1])
    if f[0] == "par":
        us = [parse_pupd(x) for x in f[1].split("+")]
        return None if any(u is None for u in us) else ("par", us)
    if f[0] == "ext":
        g = f[1].split("^")
        if len(g) != 3 or g[0] == "":
            return None
        cds = [] if g[1] == "-" else [parse_classdef(y) for y in g[1].split(";")]
        ps = parse_params(g[2])
        return None if any(c is None for c in cds) or ps is None else ("ext", (g[0], cds, ps))
    return None


def fmt_mod(m) -> str:
    k, x = m
    if k in ("add", "upd", "rep"):
        return f"{k}~{fmt_classdef(x)}"
    if k in ("neu", "ann"):
        return f"{k}~{x}"
    if k == "ext":
        return f"ext~{x[0]}^" + (";".join(fmt_classdef(c) for c in x[1]) or "-") + "^" + fmt_params(x[2])
    return "par~" + "+".join(fmt_pupd(u) for u in x)


def parse_op(tok):
    f = tok.split("!")
    if f[0] == "C" and len(f) == 2 and _NAT.match(f[1]):
        return ("C", int(f[1]))
    if f[0] == "R" and len(f) == 3 and _NAT.match(f[1]):
        mods = [] if f[2] == "-" else [parse_mod(x) for x in f[2].split("&")]
        return None if any(m is None for m in mods) else ("R", int(f[1]), mods)
    if f[0] == "M" and len(f) == 3 and _NAT.match(f[1]):
        m = parse_mod(f[2])
        return None if m is None else ("M", int(f[1]), m)
    if f[0] == "T" and len(f) == 4 and _NAT.match(f[1]):
        rs = []
        if f[2] != "-":
            for x in f[2].split("%"):
                g = x.split("$")
                if len(g) != 2 or g[0] == "":
                    return None
                mods = [] if g[1] == "-" else [parse_mod(y) for y in g[1].split("&")]
                if any(m is None for m in mods):
                    return None
                rs.append((g[0], mods))
        es = []
        if f[3] != "-":
            for x in f[3].split("%"):
                g = x.split("$")
                if len(g) != 3 or g[0] == "":
                    return None
                cds = [] if g[1] == "-" else [parse_classdef(y) for y in g[1].split(";")]
                ps = parse_params(g[2])
                if any(c is None for c in cds) or ps is None:
                    return None
                es.append((g[0], cds, ps))
        return ("T", int(f[1]), rs, es)
    return None


def fmt_op(op) -> str:
    if op[0] == "C":
        return f"C!{op[1]}"
    if op[0] == "R":
        return f"R!{op[1]}!" + ("&".join(fmt_mod(m) for m in op[2]) or "-")
    if op[0] == "T":
        rs = "%".join(n + "$" + ("&".join(fmt_mod(m) for m in mods) or "-") for n, mods in op[2]) or "-"
        es = "%".join(n + "$" + (";".join(fmt_classdef(c) for c in cds) or "-") + "$" + fmt_params(ps)
                      for n, cds, ps in op[3]) or "-"
        return f"T!{op[1]}!{rs}!{es}"
    return f"M!{op[1]}!{fmt_mod(op[2])}"


def parse_params(tok):
    if tok == "-":
        return []
    out = []
    for f in tok.split(";"):
        g = f.split("=")
        if len(g) != 2 or g[0] == "":
            return None
        items = []
        for e in g[1].split(","):
            h = e.split(":")
            if len(h) != 2 or not _INT.match(h[0]) or h[1] == "":
                return None
            items.append((int(h[0]), None if h[1] == "null" else h[1]))
        out.append((g[0], items))
    return out


def fmt_params(ps) -> str:
    return ";".join(n + "=" + ",".join(f"{d}:{'null' if v is None else v}" for d, v in items) for n, items in ps) or "-"


def hexjson(obj) -> str:
    return binascii.hexlify(json.dumps(obj, separators=(",", ":"), sort_keys=True).encode()).decode()


def unhexjson(tok):
    return json.loads(binascii.unhexlify(tok).decode())


def parse_line(line: str):
    """-> spec dict, or None when the line is malformed (the driver answers BAD)"""
    f = line.split()
    if len(f) < 7 or f[0] != "sys" or f[1] != "run":
        return None
    ents = f[2].split(",")
    if any(e == "" for e in ents):
        return None
    params = parse_params(f[3])
    vars_ = [] if f[4] == "-" else [parse_classdef(x) for x in f[4].split(";")]
    ops = [] if f[5] == "-" else [parse_op(x) for x in f[5].split("|")]
    qs = f[6].split(",")
    if params is None or any(v is None for v in vars_) or any(o is None for o in ops) or not all(_INT.match(q) for q in qs):
        return None
    extra = {}
    if len(f) > 7:
        try:
            extra = unhexjson(f[7])
        except Exception:
            extra = {}
    return {"ents": ents, "params": params, "vars": vars_, "ops": ops, "queries": [int(q) for q in qs],
            "fdefs": {int(k): v for k, v in extra.get("fdefs", {}).items()}, "sim": extra.get("sim")}


def fmt_line(spec) -> str:
    extra = hexjson({"fdefs": {str(k): v for k, v in spec.get("fdefs", {}).items()}, "sim": spec.get("sim")})
    return " ".join(["sys", "run", ",".join(spec["ents"]), fmt_params(spec["params"]),
                     ";".join(fmt_classdef(c) for c in spec["vars"]) or "-",
                     "|".join(fmt_op(o) for o in spec["ops"]) or "-",
                     ",".join(str(q) for q in spec["queries"]), extra])


# --------------------------------------------------------------------------------------
# values


_ENUM = None


def ofv_enum():
    """the enumeration of the generated Enum variables"""
    global _ENUM
    if _ENUM is None:
        from openfisca_core.indexed_enums import Enum

        class OfvEnum(Enum):
            a = "first"
            b = "second"
            c = "third"
        _ENUM = OfvEnum
    return _ENUM


def tok_of_value(v) -> str:
    """canonical token of a default value / a computed cell"""
    import numpy
    if _ENUM is not None and isinstance(v, _ENUM):
        return "E" + v.name
    if isinstance(v, (str, numpy.str_)):
        return "S" + str(v)
    if isinstance(v, (bool, numpy.bool_)):
        return "T" if v else "F"
    if isinstance(v, dt.date):
        return f"d{v.toordinal()}"
    if isinstance(v, numpy.datetime64):
        return f"d{int(v.astype('datetime64[D]').astype(int)) + 719163}"
    if isinstance(v, (int, numpy.integer)):
        return str(int(v))
    x = v if isinstance(v, Fraction) else Fraction(float(v))
    return str(x.numerator) if x.denominator == 1 else f"{x.numerator}/{x.denominator}"


def value_of_tok(tok):
    if tok == "T":
        return True
    if tok == "F":
        return False
    if tok.startswith("d"):
        return dt.date.fromordinal(int(tok[1:]))
    if tok.startswith("E"):
        return ofv_enum()[tok[1:]]
    if tok.startswith("S"):
        return tok[1:]
    if "/" in tok:
        p, q = tok.split("/")
        return int(p) / int(q)
    return int(tok)


def type_default_tok(vt) -> str:
    return {"bool": "F", "int": "0", "float": "0", "date": "d719163"}[vt]


def uses_params(e) -> bool:
    return e[0] == "p" or any(uses_params(x) for x in e[1:] if isinstance(x, list))


def two_args(e, fid) -> bool:
    """which formulas are written `formula(entity, period)`: those that read no parameter, every other one"""
    return fid % 2 == 1 and not uses_params(e)


def formula_attr_names(formulas):
    """class attribute names for the declared start dates, in order; a repeated date takes the
    next shorter spelling (`formula_2018_01_01`, `formula_2018_01`, `formula_2018`)"""
    seen: dict = {}
    out = []
    for d, n in formulas:
        k = seen.get(d, 0)
        seen[d] = k + 1
        if d == 1:
            names = ["formula", "formula_0001_01_01", "formula_0001_01", "formula_0001"]
        else:
            t = dt.date.fromordinal(d)
            names = [f"formula_{t.year:04d}_{t.month:02d}_{t.day:02d}"]
            if t.day == 1:
                names.append(f"formula_{t.year:04d}_{t.month:02d}")
                if t.month == 1:
                    names.append(f"formula_{t.year:04d}")
        if k >= len(names):
            raise ValueError("too many formulas on one date")
        out.append((names[k], n))
    return out


# --------------------------------------------------------------------------------------
# the real objects


_ROOT_PID = os.getpid()          # the check's own process: pool workers are forked from it
_TMP = None


def tmp_root() -> str:
    """a directory on sys.path, shared by the workers of one run, for the generated reform modules
    and extension packages (the test runner takes reforms by dotted path and extensions by package
    name); removed when the run ends"""
    global _TMP
    if _TMP is None or not os.path.isdir(_TMP):
        _TMP = os.path.join(tempfile.gettempdir(), f"ofvc14_{_ROOT_PID}")
        os.makedirs(_TMP, exist_ok=True)
    if _TMP not in sys.path:
        sys.path.append(_TMP)
    return _TMP


@atexit.register
def _remove_tmp_root():
    if os.getpid() == _ROOT_PID:
        shutil.rmtree(os.path.join(tempfile.gettempdir(), f"ofvc14_{_ROOT_PID}"), ignore_errors=True)


def _publish(name: str, files: dict) -> None:
    """write a module (`name.py`) or a package (directory) atomically, once"""
    root = tmp_root()
    final = os.path.join(root, name)
    if os.path.exists(final) or os.path.exists(final + ".py"):
        return
    if list(files) == ["__module__"]:
        tmp = os.path.join(root, f".{name}.{os.getpid()}.tmp")
        with open(tmp, "w") as f:
            f.write(files["__module__"])
        os.replace(tmp, final + ".py")
    else:
        tmp = tempfile.mkdtemp(prefix=".pkg", dir=root)
        for rel, txt in files.items():
            path = os.path.join(tmp, rel)
            os.makedirs(os.path.dirname(path), exist_ok=True)
            with open(path, "w") as f:
                f.write(txt)
        try:
            os.rename(tmp, final)
        except OSError:           # another worker was first
            shutil.rmtree(tmp, ignore_errors=True)
    importlib.invalidate_caches()


def _yaml_param(items) -> str:
    body = "description: generated\nvalues:\n"
    for d, v in items:
        x = None if v is None else value_of_tok(v)
        val = "null" if x is None else str(x).lower() if isinstance(x, bool) else str(x)
        body += f"  {dt.date.fromordinal(d).isoformat()}:\n    value: {val}\n"
    return body


def param_dir(params) -> str:
    """a directory of YAML parameter files"""
    name = "ofvc14p_" + hashlib.sha1(hexjson(params).encode()).hexdigest()[:16]
    _publish(name, {pn + ".yaml": _yaml_param(items) for pn, items in params})
    return os.path.join(tmp_root(), name)


class Ctx:
    """what is needed to turn class definitions and modifications into real objects"""

    def __init__(self, fdefs, ent_keys):
        from openfisca_core import entities, holders, periods, variables
        self.fdefs = {int(k): v for k, v in fdefs.items()}
        self.ent_keys = list(ent_keys)
        self.v = variables
        self.periods = periods
        self.si = {"dispatch": holders.set_input_dispatch_by_period, "divide": holders.set_input_divide_by_period}
        from openfisca_core import simulations
        self.co = {"add": simulations.calculate_output_add, "divide": simulations.calculate_output_divide}
        self.protos = {}
        for i, k in enumerate(ent_keys):
            if i == 0:
                e = entities.Entity(k, k + "s", "", "")
            else:
                e = entities.GroupEntity(k, k + "s", "", "", roles=[{"key": "member", "plural": "members"}])
            self.protos[k] = e

    # -- classes and formulas

    def make_formula(self, fid):
        fdefs = self.fdefs
        real = self

        def formula(population, period, parameters):
            return real.ev(fdefs[fid], population, period, parameters)

        def formula2(population, period):          # the two-argument spelling (`co_argcount == 2`)
            return real.ev(fdefs[fid], population, period, None)

        f = formula2 if two_args(fdefs[fid], fid) else formula
        f._fid = fid
        return f

    def ev(self, e, pop, period, parameters):
        import numpy
        from openfisca_core.periods import DateUnit
        k = e[0]
        if k == "k":
            return numpy.full(pop.count, float(e[1]))
        if k == "m":
            return numpy.full(pop.count, float(period.start.month))
        if k == "p":
            return numpy.full(pop.count, float(getattr(parameters(period), e[1])))
        if k in ("+", "-", "*"):
            a = self.ev(e[1], pop, period, parameters)
            b = self.ev(e[2], pop, period, parameters)
            return a + b if k == "+" else a - b if k == "-" else a * b
        if k in ("v", "w"):
            name, mode = e[1], e[2]
            tbs = pop.simulation.tax_benefit_system
            ref = tbs.get_variable(name, check_existence=True)
            rdp = str(getattr(ref.definition_period, "value", ref.definition_period))
            opts = None
            if rdp == "eternity":
                p2 = period
            elif period.unit == DateUnit.MONTH and rdp == "month":
                p2 = period if mode == "s" else period.this_year.first_month if mode == "j" else period.last_month if mode == "l" else period
            elif period.unit == DateUnit.MONTH and rdp == "year":
                p2 = period.this_year
            elif period.unit == DateUnit.YEAR and rdp == "month":
                if mode == "a":
                    from openfisca_core import populations
                    p2, opts = period, [populations.ADD]
                else:
                    p2 = period.first_month
            elif period.unit == DateUnit.YEAR and rdp == "year":
                p2 = period.last_year if mode == "l" else period
            else:
                p2 = period
            own = pop.entity.key
            rk = ref.entity.key if k == "v" else e[3]       # "w": the entity the formula's author had in mind
            call = (lambda q: q(name, p2, options=opts)) if opts else (lambda q: q(name, p2))
            if rk == own:
                return call(pop).astype(float)
            if pop.entity.is_person:
                return call(getattr(pop, rk)).astype(float)
            return pop.sum(pop.members(name, p2, options=opts) if opts else pop.members(name, p2)).astype(float)
        raise ValueError(f"bad expression {e!r}")

    def make_class(self, cd):
        return type(cd["name"], (self.v.Variable,), self.class_attrs(cd))

    def class_attrs(self, cd):
        import datetime
        from openfisca_core.periods import DateUnit
        attrs = {}
        if cd["vt"] is not None:
            from openfisca_core.indexed_enums import Enum
            attrs["value_type"] = {"float": float, "int": int, "bool": bool, "date": datetime.date, "enum": Enum, "str": str}[cd["vt"]]
            if cd["vt"] == "enum":
                attrs["possible_values"] = ofv_enum()
        if cd["default"] is not None:
            attrs["default_value"] = value_of_tok(cd["default"])
        if cd["entity"] is not None:
            attrs["entity"] = self.protos[cd["entity"]]
        if cd["dp"] is not None:
            attrs["definition_period"] = DateUnit(cd["dp"])
        if cd["end"] is not None:
            attrs["end"] = dt.date.fromordinal(cd["end"]).isoformat() if cd["end"] else ""   # (0: declared empty)
        if cd["si"] is not None:
            attrs["set_input"] = self.si[cd["si"]]
        for an, fid in formula_attr_names(cd["formulas"]):
            attrs[an] = self.make_formula(fid)
        for k, x in (cd.get("meta") or {}).items():       # descriptive and behavioural attributes outside the model
            if k == "set_input_none":
                if cd["si"] is None:
                    attrs["set_input"] = None           # declared, but falsy: inherited all the same
            elif k == "bad":
                pass                                    # (below: it overrides whatever else is declared)
            elif k == "calculate_output":
                attrs[k] = self.co[x] if x else None
            elif isinstance(x, dict):
                attrs[k] = tuple(x["t"]) if "t" in x else x["d"]
            else:
                attrs[k] = x
        if (cd.get("meta") or {}).get("bad"):
            an, val = BAD_DECLARATIONS[cd["meta"]["bad"]]          # a declaration `Variable.__init__` refuses
            attrs[an] = self.make_formula(min(self.fdefs) if self.fdefs else 1) if an.startswith("formula") else val
        return attrs

    # -- operations

    def apply_mod(self, t, m):
        from openfisca_core.periods import Instant
        k, x = m
        if k == "add":
            t.add_variable(self.make_class(x))
        elif k == "upd":
            t.update_variable(self.make_class(x))
        elif k == "rep":
            t.replace_variable(self.make_class(x))
        elif k == "neu":
            t.neutralize_variable(x)
        elif k == "ann":
            t.annualize_variable(x)
        elif k == "ext":
            try:
                t.load_extension(self.ext_package(x[0], x[1], x[2]))
            finally:
                for kk in [kk for kk in sys.modules if _LOADED.match(kk)]:
                    del sys.modules[kk]
        else:
            def inst(o):
                d = dt.date.fromordinal(o)
                return Instant((d.year, d.month, d.day))

            # how the modifier function is written: it updates the tree it is given and returns it, or it returns
            # ANOTHER node — a `clone()` / a deep copy of the tree it was given, updated (the contract is "takes a
            # ParameterNode and returns an object of the same type": the reform's tree is what the modifier returns)
            spelling = zlib.crc32(repr(x).encode()) % 3

            def modifier(p):
                import copy
                q = p if spelling == 0 else p.clone() if spelling == 1 else copy.deepcopy(p)
                for u in x:
                    getattr(q, u["name"]).update(start=inst(u["a"]), stop=None if u["b"] is None else inst(u["b"]),
                                                 value=None if u["v"] is None else value_of_tok(u["v"]))
                return q
            if getattr(t, "baseline", None) is not None:
                t.modify_parameters(modifier)
            else:
                spelling = 0          # (a plain system has no modify_parameters: its own tree is updated in place)
                modifier(t.parameters)

    # -- generated code for the test runner

    def _embed(self) -> str:
        return f"_CTX = _su.Ctx(_su.unhexjson({hexjson({str(k): v for k, v in self.fdefs.items()})!r}), {self.ent_keys!r})\n"

    def reform_path(self, name, mods) -> str:
        """a module defining a Reform whose apply() performs `mods`; its dotted path"""
        payload = hexjson([name, mods])
        mod = "ofvc14r_" + hashlib.sha1((payload + self._embed()).encode()).hexdigest()[:16]
        _publish(mod, {"__module__": (
            "from openfisca_core.reforms import Reform\nfrom ofverif import sysutil as _su\n" + self._embed()
            + f"_MODS = _su.unhexjson({payload!r})[1]\n\n\n"
            "class R(Reform):\n    def apply(self):\n        for m in _MODS:\n            _CTX.apply_mod(self, m)\n")})
        return mod + ".R"

    def ext_package(self, name, cds, params) -> str:
        """an extension package: one file of variable classes, a `parameters` directory"""
        payload = hexjson([name, cds, params])
        pkg = "ofvc14x_" + hashlib.sha1((payload + self._embed()).encode()).hexdigest()[:16]
        src = "from openfisca_core.variables import Variable\nfrom ofverif import sysutil as _su\n" + self._embed()
        for cd in cds:
            src += f"\n\nclass {cd['name']}(Variable):\n    locals().update(_CTX.class_attrs(_su.unhexjson({hexjson(cd)!r})))\n"
        files = {"__init__.py": "", "vars.py": src}
        for pn, items in params:
            files[os.path.join("parameters", pn + ".yaml")] = _yaml_param(items)
        _publish(pkg, files)
        return pkg


class Real(Ctx):
    """the history replayed on the real API"""

    def __init__(self, spec):
        from openfisca_core import taxbenefitsystems
        from openfisca_core.parameters import ParameterNode
        from openfisca_core.tools import test_runner
        Ctx.__init__(self, spec["fdefs"], spec["ents"])
        self.spec = spec
        test_runner._tax_benefit_system_cache.clear()      # keyed by id(baseline): never across cases
        import logging
        logging.getLogger("openfisca_core.taxbenefitsystems.tax_benefit_system").disabled = True   # refused extensions are logged
        base = taxbenefitsystems.TaxBenefitSystem([self.protos[k] for k in spec["ents"]])
        base.ofv_tag = "tag"         # a country-specific attribute: reforms see it through `Reform.__getattr__`
        self.spelling = zlib.crc32(repr((spec["vars"], spec["params"])).encode())
        if self.spelling % 3 == 0 and spec["params"]:
            base.load_parameters(param_dir(spec["params"]))              # from YAML files
        else:
            data = {n: {"values": {dt.date.fromordinal(d).isoformat(): {"value": None if v is None else value_of_tok(v)}
                                   for d, v in items}} for n, items in spec["params"]}
            base.parameters = ParameterNode("", data=data)
        if (self.spelling >> 4) % 2 == 0:
            base.add_variables(*[self.make_class(cd) for cd in spec["vars"]])
        else:
            for cd in spec["vars"]:
                base.add_variable(self.make_class(cd))
        self.systems = [base]

    # -- operations

    def step(self, op) -> bool:
        """True when the call returned normally"""
        from openfisca_core import reforms
        real = self
        try:
            if op[0] == "C":
                self.systems.append(self.systems[op[1]].clone())
            elif op[0] == "R":
                mods = op[2]

                class R(reforms.Reform):
                    def apply(self):
                        for m in mods:
                            real.apply_mod(self, m)
                src = self.systems[op[1]]
                self.systems.append(R(src))
            elif op[0] == "T":
                from openfisca_core.tools import test_runner
                src = self.systems[op[1]]
                paths = [self.reform_path(n, mods) for n, mods in op[2]]
                exts = [self.ext_package(n, cds, ps) for n, cds, ps in op[3]]
                if len(paths) == 1 and (self.spelling >> 6) % 2 == 0:
                    paths = paths[0]            # a YAML test may name one reform / extension as a plain string
                if len(exts) == 1 and (self.spelling >> 7) % 2 == 0:
                    exts = exts[0]
                try:
                    t = test_runner._get_tax_benefit_system(src, paths, exts)
                finally:
                    for k in [k for k in sys.modules if _LOADED.match(k)]:
                        del sys.modules[k]      # `add_variables_from_file` registers one module per file and system
                if not any(t is x for x in self.systems):     # (a cache hit returns the system derived earlier)
                    self.systems.append(t)
            else:
                self.apply_mod(self.systems[op[1]], op[2])
            return True
        except Exception:
            return False

    # -- observations (the driver's `showSnap`)

    def fml_tok(self, fn) -> str:
        fid = getattr(fn, "_fid", None)
        if fid is not None:
            return f"f{fid}"
        if fn.__name__ == "annual_formula":
            cells = dict(zip(fn.__code__.co_freevars, fn.__closure__))
            return "A(" + self.fml_tok(cells["original_formula"].cell_contents) + ")"
        return "?"

    def var_tok(self, k, t, name, qs) -> str:
        import datetime
        from openfisca_core.periods import DateUnit, Instant, Period
        v = t.variables.get(name)
        own = next((str(j) for j in range(k + 1) if self.systems[j].variables.get(name) is v), "?")
        b = v.baseline_variable
        bl = "-" if b is None else next((str(j) for j in range(len(self.systems)) if self.systems[j].variables.get(name) is b), "x")
        bad = [e.key for e in t.entities_by_singular().values() if e.get_variable(name) is not v]
        if t.get_variable(name) is not v or t.get_variable(name, check_existence=True) is not v:
            bad.append("get_variable")          # the system's own look-up, with and without the existence check
        via = "ok" if not bad else "!" + "^".join(bad)
        from openfisca_core.indexed_enums import Enum
        vt = {float: "float", int: "int", bool: "bool", datetime.date: "date", Enum: "enum", str: "str"}.get(v.value_type, "?")
        dp = str(getattr(v.definition_period, "value", v.definition_period))
        end = "-" if v.end is None else str(v.end.toordinal())
        si = "-" if v.set_input is None else next((n for n, f in self.si.items() if f is v.set_input), "?")
        fs = "^".join(f"{dt.date.fromisoformat(d).toordinal()}>{self.fml_tok(f)}" for d, f in v.formulas.items()) or "-"
        f0 = v.get_formula()                    # no period: the oldest formula
        ats = ["-" if f0 is None else self.fml_tok(f0)]
        for i, q in enumerate(qs):
            d = dt.date.fromordinal(q)
            if i % 4 == 1 and d.year >= 1000:
                f = v.get_formula(d.isoformat())                  # a string
            elif i % 4 == 2:
                f = v.get_formula((d.year, d.month, d.day))       # a tuple: an instant, not a period
            elif i % 4 == 3:
                f = v.get_formula(d)                              # a date
            else:
                f = v.get_formula(Period((DateUnit.DAY, Instant((d.year, d.month, d.day)), 1)))
            ats.append("-" if f is None else self.fml_tok(f))
        co = {self.co["add"]: "add", self.co["divide"]: "divide"}
        attrs = []
        for key in META_KEYS:
            x = getattr(v, key, None)
            if key == "calculate_output" and x is not None:
                x = co.get(x, "?")
            attrs.append(attr_tok(x))
        return (f"{name}({own},{bl},{via},{vt},{tok_of_value(v.default_value)},{v.entity.key},{dp},{end},{si},"
                f"{'T' if v.is_neutralized else 'F'},{fs},{'^'.join(ats)},{'T' if v.is_input_variable() else 'F'},"
                f"{label_tok(v.label)},{'~'.join(attrs)})")

    def snap(self, k, qs) -> str:
        t = self.systems[k]
        names = sorted(t.variables)
        earlier = [e for j in range(k) for e in self.systems[j].entities]
        def own(e):
            """bound to this system, and the very object `person_entity` / `group_entities` hand to
            `instantiate_entities` (the populations of a simulation resolve variables through it)"""
            listed = e is t.person_entity if e.is_person else any(e is g for g in t.group_entities)
            return e._tax_benefit_system is t and listed
        ents = [f"{e.key}^{'T' if own(e) else 'F'}^{'F' if any(e is x for x in earlier) else 'T'}"
                f"^{'~'.join(sorted(t.get_variables(entity=e)))}" for e in t.entities]
        if len(t.group_entities) + 1 != len(t.entities):
            ents.append("?entities-miscounted^F^F^")
        assert t.get_variables() is t.variables
        unbound = True
        for proto in self.protos.values():          # the entity objects handed to the constructor stay unbound
            try:
                proto.get_variable("a")
                unbound = False
            except ValueError:
                pass
        root = t.base_tax_benefit_system
        rlabel = next((str(j) for j in range(len(self.systems)) if self.systems[j] is root), "x")
        plabel = next((str(j) for j in range(k + 1) if self.systems[j].parameters is t.parameters), "?")
        reads = []
        for n in sorted(t.parameters.children):
            for q in qs:
                val = t.parameters.children[n].get_at_instant(dt.date.fromordinal(q).isoformat())
                reads.append(f"{n}@{q}={'-' if val is None else tok_of_value(val)}")
        return ("n=" + ",".join(names) + "/e=" + ",".join(ents) + "/P=" + plabel + f"/u={'T' if unbound else 'F'}/r={rlabel}"
                + "/p=" + ",".join(reads)
                + "/v=" + "+".join(self.var_tok(k, t, n, qs) for n in names))

    def snaps(self, qs):
        return [self.snap(k, qs) for k in range(len(self.systems))]

    # -- simulations

    def prepare(self, t, plan, spiral=None):
        """a fresh simulation with the applicable inputs set -> (simulation, what the inputs answered)"""
        import numpy
        from openfisca_core.simulations import SimulationBuilder
        sit = {"persons": {p: {} for p in PERSONS}, "households": {h: {"members": ms} for h, ms in HOUSEHOLDS.items()}}
        if len(self.spec["ents"]) < 2:
            sit = {"persons": {p: {} for p in PERSONS}}
        sim = SimulationBuilder().build_from_entities(t, sit)
        if spiral is not None:
            sim.max_spiral_loops = spiral
        out = []
        for name, y, vals in plan.get("long_inputs", []):        # a yearly amount given to a monthly variable
            v = t.variables.get(name)
            if v is None or str(getattr(v.definition_period, "value", v.definition_period)) != "month" \
                    or len(vals) != COUNT.get(v.entity.key) or v.value_type not in (float, int):
                continue
            try:
                sim.set_input(name, str(y), numpy.array(vals))
            except Exception:
                pass                                             # (no set_input rule: refused)
        for name, kind, y, m, vals in plan["inputs"]:
            v = t.variables.get(name)
            if v is None:
                continue
            dp = str(getattr(v.definition_period, "value", v.definition_period))
            if dp != kind or len(vals) != COUNT.get(v.entity.key) or v.value_type not in (float, int, bool):
                continue
            try:
                sim.set_input(name, f"{y}-{m:02d}" if kind == "month" else str(y), numpy.array(vals))
            except Exception as e:
                out.append(f"input:{name}:ERR:{type(e).__name__}")
        return sim, out

    def simulate(self, t, plan, spiral=None, probe_absent=False, prepared=None):
        """one fresh simulation (or one `prepare`d earlier): the applicable inputs, then the requests in order"""
        sim, out = prepared if prepared is not None else self.prepare(t, plan, spiral)
        out = list(out)
        for name, y, m in plan["requests"]:
            v = t.variables.get(name)
            if v is None and not probe_absent:
                # an unknown name is refused (VariableNotFoundError, whose message costs a package-metadata
                # lookup): asked for real in one pass per system only
                out.append("ERR:VariableNotFoundError")
                continue
            dp = "month" if v is None else str(getattr(v.definition_period, "value", v.definition_period))
            period = str(y) if dp == "year" else f"{y}-{m:02d}"
            try:
                arr = sim.calculate(name, period)            # (an unknown name: VariableNotFoundError)
                if hasattr(arr, "decode"):
                    arr = arr.decode()
                out.append(";".join(tok_of_value(x) for x in arr))
            except Exception as e:
                out.append("ERR:" + type(e).__name__)
        for name, y, m in plan.get("outputs", []):               # Simulation.calculate_output
            v = t.variables.get(name)
            if v is None:
                out.append("ERR:VariableNotFoundError")
                continue
            dp = str(getattr(v.definition_period, "value", v.definition_period))
            rule = "add" if v.calculate_output is self.co["add"] else "divide" if v.calculate_output is self.co["divide"] else None
            period = output_period(rule, dp, y, m)
            try:
                arr = sim.calculate_output(name, period)
                if hasattr(arr, "decode"):
                    arr = arr.decode()
                out.append(";".join(tok_of_value(x) for x in arr))
            except Exception as e:
                out.append("ERR:" + type(e).__name__)
        return out


def label_tok(label) -> str:
    """`-`, the token of the label, or `N(<token of the neutralised variable's label>)`: `get_neutralized_variable`
    stores the 1-tuple `("[Neutralized] <label>",)` (the label of the variable it neutralises is formatted into it, a
    tuple again when that one was neutralised already)"""
    import ast
    pre = "[Neutralized]"
    if isinstance(label, tuple) and len(label) == 1 and isinstance(label[0], str) and label[0].startswith(pre):
        rest = label[0][len(pre):]
        if rest == "":
            return "N(-)"
        inner = rest[1:] if rest.startswith(" ") else None
        if inner is not None and inner.startswith("(") and inner.endswith(",)"):
            try:
                inner = ast.literal_eval(inner)
            except (ValueError, SyntaxError):
                pass
        return "N(" + (label_tok(inner) if inner is not None else "?") + ")"
    return attr_tok(label)


def meta_of(t):
    """the attributes of every variable of a system that the heap model does not carry"""
    from openfisca_core import simulations
    co = {simulations.calculate_output_add: "add", simulations.calculate_output_divide: "divide", None: None}
    return {n: {"label": v.label, "reference": v.reference, "documentation": v.documentation, "unit": v.unit,
                "cerfa_field": v.cerfa_field, "calculate_output": co.get(v.calculate_output, "?"),
                "is_period_size_independent": v.is_period_size_independent, "max_length": getattr(v, "max_length", None)}
            for n, v in t.variables.items()}


def output_period(rule, dp, y, m) -> str:
    """the period a `calculate_output` request is made for: one the variable's rule has to convert"""
    if rule == "add" and dp == "month":
        return str(y)
    if rule == "divide" and dp == "year":
        return f"{y}-{m:02d}"
    return str(y) if dp == "year" else f"{y}-{m:02d}"


def stage_text(flag, prev, cur) -> str:
    out = []
    for i, c in enumerate(cur):
        out.append("=" if i < len(prev) and prev[i] == c else c)
    return flag + ":" + ";".join(out)


# --------------------------------------------------------------------------------------
# the statement, read directly: rules as dictionaries + a naive evaluator


class Skip(Exception):
    """the statement does not decide this request (or the arithmetic leaves the exact range)"""


class CalcErr(Exception):
    pass


def first_day(period):
    return dt.date(period[1], period[2] if period[0] == "month" else 1, 1).toordinal()


def formula_in_force(var, d):
    if var["end"] is not None and d > var["end"]:
        return None
    best = None
    for s, f in var["formulas"]:
        if s <= d and (best is None or s >= best[0]):
            best = (s, f)
    return None if best is None else best[1]


class Evaluator:
    """value of (variable, period) under the rules: input wins, neutralised = default, annualised
    = the January value, formula in force at the start of the period, else default."""

    def __init__(self, rules, params, fdefs, inputs):
        self.rules, self.params, self.fdefs, self.inputs = rules, params, fdefs, inputs
        self.affected = False     # met an annualised formula outside January (open finding F-C14c)
        self.depth = 0

    def cast(self, var, vals):
        if var["vt"] == "bool":
            return [x != 0 for x in vals]
        if var["vt"] == "int":
            return [int(x) for x in vals]
        return list(vals)

    def default(self, var):
        v = value_of_tok(var["default"])
        if var["vt"] in ("int", "bool", "float") and not isinstance(v, (dt.date, str)) and not hasattr(v, "name"):
            v = self.cast(var, [v])[0]          # `default_array` is built with the variable's dtype
        return [v] * COUNT[var["entity"]]

    def value(self, name, period):
        var = self.rules.get(name)
        if var is None:
            raise CalcErr("unknown variable")
        if var["entity"] not in COUNT:
            raise Skip()
        dp = var["dp"]
        if dp != "eternity" and dp != period[0]:
            raise CalcErr("period mismatch")
        if var["vt"] == "str" and (var.get("meta") or {}).get("max_length"):
            raise Skip()              # fixed-width byte strings: what the engine makes of them is not C14's
        if var["neutralized"]:
            return self.default(var)
        key = (name, "eternity") if dp == "eternity" else (name,) + tuple(period)
        if key in self.inputs:
            return self.cast(var, self.inputs[key])
        f = formula_in_force(var, first_day(period))
        if f is None:
            return self.default(var)
        self.depth += 1
        if self.depth > 60:
            raise Skip()
        try:
            while f[0] == "A":
                if period[0] == "month" and period[2] != 1:
                    jan = ("month", period[1], 1)
                    if (name,) + jan not in self.inputs:
                        self.affected = True
                    return self.value(name, jan)
                f = f[1]
            vals = self.ev(self.fdefs[f[1]], var["entity"], period)
        finally:
            self.depth -= 1
        for x in vals:
            if abs(x) >= BIG:
                raise Skip()
        return self.cast(var, vals)

    def ev(self, e, ent, period):
        n = COUNT[ent]
        k = e[0]
        if k == "k":
            return [e[1]] * n
        if k == "m":
            return [period[2] if period[0] == "month" else 1] * n
        if k == "p":
            fn = self.params.get(e[1])
            val = None if fn is None else fn(first_day(period))
            if val is None:
                raise CalcErr("parameter undefined")
            return [value_of_tok(val)] * n
        if k in ("+", "-", "*"):
            a, b = self.ev(e[1], ent, period), self.ev(e[2], ent, period)
            return [x + y if k == "+" else x - y if k == "-" else x * y for x, y in zip(a, b)]
        if k in ("v", "w"):
            name, mode = e[1], e[2]
            ref = self.rules.get(name)
            if ref is None:
                raise CalcErr("unknown variable")
            if k == "w" and ref["entity"] != e[3]:
                raise CalcErr("defined for another entity")    # the formula asks the wrong population
            rdp = ref["dp"]
            y = period[1]
            if rdp == "eternity":
                vals = self.value(name, period)
            elif period[0] == "month" and rdp == "month":
                m = period[2]
                p2 = period if mode == "s" else ("month", y, 1) if mode == "j" else \
                    (("month", y, m - 1) if m > 1 else ("month", y - 1, 12)) if mode == "l" else period
                vals = self.value(name, p2)
            elif period[0] == "month" and rdp == "year":
                vals = self.value(name, ("year", y, 1))
            elif period[0] == "year" and rdp == "month":
                if mode == "a":
                    cols = [self.value(name, ("month", y, m)) for m in range(1, 13)]
                    vals = [sum(int(c[i]) if isinstance(c[i], bool) else c[i] for c in cols) for i in range(len(cols[0]))]
                else:
                    vals = self.value(name, ("month", y, 1))
            else:
                vals = self.value(name, ("year", y - 1, 1) if mode == "l" else period)
            vals = [int(x) if isinstance(x, bool) else x for x in vals]
            if ref["entity"] == ent:
                return vals
            if ent == "person":
                return [vals[MEMBER_OF[i]] for i in range(n)]
            out = [0] * n
            for i, h in enumerate(MEMBER_OF):
                out[h] += vals[i]
            return out
        raise ValueError(f"bad expression {e!r}")


def evaluate(rules, params, fdefs, plan):
    """-> list of (tokens | 'absent' | 'ERR' | None (not decided), affected)"""
    inputs = {}
    for name, y, vals in plan.get("long_inputs", []):
        var = rules.get(name)
        if var is None or var["dp"] != "month" or len(vals) != COUNT.get(var["entity"]) or var["vt"] not in ("float", "int"):
            continue
        if var["neutralized"] or var["si"] is None:
            continue                  # ignored / refused: a monthly variable takes a year only through its rule
        if var["end"] is not None and dt.date(y, 1, 1).toordinal() > var["end"]:
            continue
        for mm in range(1, 13):       # dispatch: the amount for every month; divide: an equal share
            inputs[(name, "month", y, mm)] = list(vals) if var["si"] == "dispatch" else [Fraction(x, 12) for x in vals]
    for name, kind, y, m, vals in plan["inputs"]:
        var = rules.get(name)
        if var is None or var["dp"] != kind or len(vals) != COUNT.get(var["entity"]) or var["vt"] not in ("float", "int", "bool"):
            continue
        if var["neutralized"]:
            continue
        if var["end"] is not None and dt.date(y, m if kind == "month" else 1, 1).toordinal() > var["end"]:
            continue               # `Simulation.set_input` drops inputs dated after the variable's end
        inputs[(name, kind, y, m if kind == "month" else 1)] = vals
    out = []
    for name, y, m in plan["requests"]:
        var = rules.get(name)
        if var is None:
            out.append(("ERR", False))          # an unknown name is refused
            continue
        period = ("year", y, 1) if var["dp"] == "year" else ("month", y, m)
        ev = Evaluator(rules, params, fdefs, inputs)
        try:
            vals = ev.value(name, period)
            out.append((";".join(tok_of_value(x) for x in vals), ev.affected))
        except CalcErr:
            out.append(("ERR", ev.affected))
        except Skip:
            out.append((None, ev.affected))
    for name, y, m in plan.get("outputs", []):
        var = rules.get(name)
        if var is None:
            out.append(("ERR", False))
            continue
        rule = (var.get("meta") or {}).get("calculate_output")
        ev = Evaluator(rules, params, fdefs, inputs)
        try:
            if var["vt"] not in ("float", "int", "bool") or (rule and var["vt"] == "bool"):
                raise Skip()
            if rule and var["dp"] == "eternity":
                raise CalcErr("a constant variable is neither added nor divided")
            if rule == "add" and var["dp"] == "month":
                cols = [ev.value(name, ("month", y, mm)) for mm in range(1, 13)]
                vals = [sum(c[i] for c in cols) for i in range(len(cols[0]))]
            elif rule == "divide" and var["dp"] == "year":
                import numpy
                base = ev.value(name, ("year", y, 1))
                vals = [Fraction(float(numpy.float32(float(x)) / numpy.float32(12))) if var["vt"] == "float"
                        else Fraction(float(numpy.float64(int(x)) / 12)) for x in base]
            else:
                vals = ev.value(name, ("year", y, 1) if var["dp"] == "year" else ("month", y, m))
            out.append((";".join(tok_of_value(x) for x in vals), ev.affected))
        except CalcErr:
            out.append(("ERR", ev.affected))
        except Skip:
            out.append((None, ev.affected))
    return out
