"""An extension package a YAML test can designate with `extensions: ofverif.apiext` (property C20)."""
