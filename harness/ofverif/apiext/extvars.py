"""The variable added by the extension: p_ext = p_int + 100 (person, month)."""
from openfisca_core import variables
from openfisca_core.periods import DateUnit

from ofverif import apiutil

person, _household = apiutil.entities_()


class p_ext(variables.Variable):
    value_type = int
    entity = person
    definition_period = DateUnit.MONTH
    label = "label of p_ext"

    def formula(pop, period):
        return pop("p_int", period) + 100
