"""Shared helpers for the group domain (C10, C11): role tables, real entities / populations
built programmatically the way the simulation builder does, canonical printing of numpy results.

Role table token (protocol field): top-level roles separated by `,`; each is `<max|->:<nsubs>`.
    `-:2,-:0,1:0`  = role r0 with two sub-roles (its max becomes 2), role r1 without max,
                     role r2 with max 1.
Flattened roles (what a person can hold) are numbered in declaration order, a role with
sub-roles being replaced by its sub-roles.  Role argument token: `-` (no role), `?` (an object
that is not a Role), `t<k>` (k-th top-level role), `f<k>` (k-th flattened role).
Members token: `g.r` per person joined by `,` (group index . flattened role index), `-` if none.
A second group entity (`family`, roles q<k>) uses the same tokens; its role arguments are written
`T<k>` / `F<k>`.
"""
from __future__ import annotations

import functools
from fractions import Fraction

DEFAULT_ROLES = "-:2,-:0,1:0"


def parse_roles(tok: str):
    """-> list of (max|None, nsubs)"""
    out = []
    for part in tok.split(","):
        mx, ns = part.split(":")
        out.append((None if mx == "-" else int(mx), int(ns)))
    return out


def role_descriptions(tok: str, prefix: str = "r"):
    descs = []
    for k, (mx, ns) in enumerate(parse_roles(tok)):
        d = {"key": f"{prefix}{k}", "plural": f"{prefix}{k}s"}
        if mx is not None:
            d["max"] = mx
        if ns:
            d["subroles"] = [f"{prefix}{k}s{j}" for j in range(ns)]
        descs.append(d)
    return descs


def flat_count(tok: str) -> int:
    return sum(ns if ns else 1 for _, ns in parse_roles(tok))


def role_table(tok: str):
    """Pure description used by generators and oracles (no openfisca import).
    -> (top, flat): top[k] = {"flat": [flattened ids matched by has_role], "max": effective max};
    flat[j] = {"top": k, "max": effective max of the flattened role}"""
    top, flat = [], []
    for k, (mx, ns) in enumerate(parse_roles(tok)):
        if ns:
            ids = list(range(len(flat), len(flat) + ns))
            for _ in range(ns):
                flat.append({"top": k, "max": 1})
            top.append({"flat": ids, "max": ns})
        else:
            top.append({"flat": [len(flat)], "max": mx})
            flat.append({"top": k, "max": mx})
    return top, flat


def role_matches(tok: str, rtok: str):
    """set of flattened ids a member must hold to satisfy role argument `rtok` (None = no filter)"""
    if rtok == "-":
        return None
    top, flat = role_table(tok)
    k = int(rtok[1:])
    if rtok[0] == "t":
        return set(top[k]["flat"])
    return {k}


def role_max(tok: str, rtok: str):
    top, flat = role_table(tok)
    k = int(rtok[1:])
    return top[k]["max"] if rtok[0] == "t" else flat[k]["max"]


PERIOD = "2020-01"


@functools.lru_cache(maxsize=None)
def system_for(tok: str, tok2: str = None, contain: str = "c0"):
    """(tax-benefit system, person entity, group entity[, second group entity]) with the role table
    `tok` for `household` (roles r<k>) and, when `tok2` is given, a second group entity `family`
    (roles q<k>).  `contain`: c1 = household declares family in containing_entities, c2 = family
    declares household, c3 = both.  Every entity carries one float variable (pv / gv / kv, monthly)
    so that populations and projectors can be *called*."""
    from openfisca_core import entities, periods, taxbenefitsystems, variables
    person = entities.build_entity("person", "persons", "", is_person=True)
    group = entities.build_entity("household", "households", "", roles=role_descriptions(tok),
                                  containing_entities=("family",) if contain in ("c1", "c3") and tok2 else ())
    ents = [person, group]
    if tok2 is not None:
        ents.append(entities.build_entity("family", "families", "", roles=role_descriptions(tok2, "q"),
                                          containing_entities=("household",) if contain in ("c2", "c3") else ()))
    tbs = taxbenefitsystems.TaxBenefitSystem(ents)
    for name, ent in zip(("pv", "gv", "kv"), ents):
        tbs.add_variable(type(name, (variables.Variable,), {
            "value_type": float, "entity": ent, "definition_period": periods.DateUnit.MONTH}))
    return (tbs, *ents)


def role_of(group_entity, rtok: str):
    """the real Role object of a group entity for `t<k>` / `f<k>` (any letter case)"""
    k = int(rtok[1:])
    return group_entity.roles[k] if rtok[0] in "tT" else group_entity.flattened_roles[k]


def role_object(tok: str, rtok: str):
    """the real Role object (or None / a non-Role object) for a role argument token"""
    if rtok == "-":
        return None
    if rtok == "?":
        return "not-a-role"
    return role_of(system_for(tok)[2], rtok)


def parse_members(tok: str):
    if tok == "-":
        return []
    out = []
    for x in tok.split(","):
        g, r = x.split(".")
        out.append((int(g), int(r)))
    return out


def fmt_members(ms) -> str:
    return ",".join(f"{g}.{r}" for g, r in ms) if ms else "-"


def _set_group(gp, group_entity, count, members, prefix, roles_unset=False, positions=None):
    import numpy
    gp.ids = numpy.array([f"{prefix}{j}" for j in range(count)])
    gp.count = count
    gp.members_entity_id = numpy.array([g for g, _ in members], dtype=numpy.int64)
    if not roles_unset:
        flattened = numpy.empty(len(group_entity.flattened_roles), dtype=object)
        flattened[:] = list(group_entity.flattened_roles)
        gp.members_role = flattened[numpy.array([r for _, r in members], dtype=numpy.int64)]
    if positions is not None:
        gp.members_position = numpy.array(positions, dtype=numpy.int64)


def build_population(tok: str, count: int, members, tok2: str = None, count2: int = 0, members2=None,
                     contain: str = "c0", roles_unset: bool = False, positions=None):
    """A real Simulation with a Population of len(members) persons and a GroupPopulation of
    `count` groups, memberships set as `SimulationBuilder.join_with_persons` does
    (members_entity_id = integer array, members_role = object array of flattened Role objects;
    members_position and ordered_members_map are left to the lazy properties unless `positions`
    is given, which is then assigned through the setter).  `roles_unset` leaves members_role to its
    default (every member holds the first flattened role).  With `tok2` a second GroupPopulation
    `family` over the same persons is set as well.
    -> (simulation, persons, group_population[, second group population])"""
    import numpy
    from openfisca_core import simulations
    tbs, person, group, *rest = system_for(tok, tok2, contain)
    sim = simulations.Simulation(tbs, tbs.instantiate_entities())
    persons = sim.persons
    n = len(members)
    persons.ids = numpy.array([f"p{i}" for i in range(n)])
    persons.count = n
    gp = sim.populations[group.key]
    _set_group(gp, group, count, members, "h", roles_unset, positions)
    out = [sim, persons, gp]
    if rest:
        kp = sim.populations[rest[0].key]
        _set_group(kp, rest[0], count2, members2, "k")
        out.append(kp)
    return tuple(out)


# ---- canonical text ---------------------------------------------------------------------


def fmt_num(x) -> str:
    import numpy
    if isinstance(x, (bool, numpy.bool_)):
        return "T" if x else "F"
    f = float(x)
    if f == float("inf"):
        return "inf"
    if f == float("-inf"):
        return "-inf"
    if f != f:
        return "nan"
    fr = Fraction(f)
    return str(fr.numerator) if fr.denominator == 1 else f"{fr.numerator}/{fr.denominator}"


def fmt_array(a) -> str:
    import numpy
    a = numpy.asarray(a)
    if a.ndim != 1:
        return "SHAPE" + "x".join(map(str, a.shape))
    if a.size == 0:
        return "[]"
    return ",".join(fmt_num(x) for x in a)


def fmt_int_array(a) -> str:
    """booleans printed as 0/1 (used where numpy promotes / where the chain mixes types)"""
    import numpy
    a = numpy.asarray(a)
    if a.dtype == bool:
        a = a.astype(numpy.int64)
    return fmt_array(a)


def parse_vals(tok: str):
    """`i:1,-2,3` -> ("i", [1,-2,3]);  `b:TFT` -> ("b", [True, False, True]); `i:` / `b:` empty"""
    kind, body = tok.split(":", 1)
    if kind == "b":
        return "b", [c == "T" for c in body]
    return "i", [int(x) for x in body.split(",")] if body else []


def fmt_vals(kind: str, vals) -> str:
    if kind == "b":
        return "b:" + "".join("T" if v else "F" for v in vals)
    return "i:" + ",".join(str(int(v)) for v in vals)


def np_vals(kind: str, vals, dtype=None):
    import numpy
    if kind == "b":
        return numpy.array(vals, dtype=bool)
    return numpy.array(vals, dtype=dtype or numpy.float64)
