"""Shared machinery of every check: build + audit the Lean side, run the correspondence
(model driver vs. implementation), apply the property oracle, search for a failing input when
a proof or the correspondence breaks, and write evidence / replay files.

See DESIGN.md section 3 for the verdict logic.
"""
from __future__ import annotations

import fcntl
import hashlib
import importlib
import json
import multiprocessing as mp
import os
import random
import re
import subprocess
import sys
import time
import traceback
from dataclasses import dataclass, field
from typing import Any, Callable, Iterable, Optional

VERIF = os.path.dirname(os.path.dirname(os.path.dirname(os.path.abspath(__file__))))
LEAN_ROOT = os.path.join(VERIF, "lean", "OFCore")
BIN = os.path.join(LEAN_ROOT, ".lake", "build", "bin")
REPO = os.environ.get("OFV_REPO", "/repo")
SEARCH_SECONDS = {"quick": 180, "thorough": 1800}    # time budget of the failing-input search
ESCALATE_SECONDS = {"quick": int(os.environ.get("OFV_ESCALATE_SECONDS", "150")), "thorough": 1200}   # extra budget when the
                                                       # anchored source no longer reads as recorded (srcmap.py)
ALLOWED_AXIOMS = {"propext", "Classical.choice", "Quot.sound"}
FORBIDDEN = re.compile(r"\bsorry\b|\badmit\b|^\s*axiom\s|native_decide|bv_decide|implemented_by|\bunsafe\s|maxHeartbeats\s+0\b|reduceBool|ofReduceBool")
NPROC = int(os.environ.get("OFV_NPROC", "16"))
SEARCH_CAP = int(os.environ.get("OFV_SEARCH_CAP", "300000"))

TRUSTED_BASE = [
    "Lean 4.33.0 kernel (thorough tier: leanchecker replay of the compiled modules)",
    "axioms allowed: propext, Classical.choice, Quot.sound (audited with #print axioms on every property theorem)",
    "Mathlib single modules in proof files only (Tactic.Ring/Linarith/...), no axioms of ours, no sorry/native_decide/bv_decide",
    "correspondence harness (generators, adapters, canonicalisation, line protocol) and the Lean driver's parsing glue",
    "AST extractor that regenerates OFCore/Generated.lean from the tree under test",
]


def setup_repo_path() -> None:
    """Make `import openfisca_core` resolve to the tree under test."""
    if REPO not in sys.path:
        sys.path.insert(0, REPO)
    import warnings
    warnings.simplefilter("ignore")


# --------------------------------------------------------------------------------------
# cases and results


@dataclass
class Case:
    line: str                      # the protocol line sent to the model driver
    payload: Any = None            # whatever the implementation adapter needs (picklable)
    claimed: bool = True           # inside the property's claim domain (Appendix A)
    tags: tuple = ()               # for the input histogram
    origin: str = "gen"            # gen | corpus | enum | search


@dataclass
class Outcome:
    case: Case
    impl: str = ""
    model: str = ""
    oracle: Optional[tuple] = None   # None = ok, else (signature: str, message: str)
    nontrivial: bool = False


@dataclass
class Prop:
    """What a property module provides."""
    pid: str
    lean_targets: list                      # lake targets holding the theorems
    generate: Callable[[random.Random, str], Iterable[Case]]
    impl: Callable[[Case], str]             # canonical observation of the implementation
    oracle: Callable[[Case, str], Optional[tuple]]
    nontrivial: Callable[[Case, str], bool]
    rule: str
    assumptions: list
    level_text: str = ""
    corpus: Callable[[], Iterable[Case]] = lambda: []
    enumerate_thorough: Optional[Callable[[], Iterable[Case]]] = None
    neighbours: Optional[Callable[[Case], Iterable[Case]]] = None
    partial_theorems: list = field(default_factory=list)
    extra_lean_files: list = field(default_factory=list)   # model files audited syntactically
    init_worker: Optional[Callable[[], None]] = None
    exhaustive_note: str = ""
    canon_equal: Optional[Callable[[Case, str, str], bool]] = None  # impl vs model comparison
    search_budget_factor: int = 10
    case_timeout: int = 120                           # seconds per case on the implementation side
    known_diffs_binding: bool = False                 # model/impl differences stay binding inside an open finding
    unclaimed_diffs_binding: bool = False             # the model mirrors the code outside the claim domain too: `claimed`
                                                      # then only silences the ORACLE, the correspondence stays binding
    driver: str = "ofdrv_per"               # lean_exe target serving this property's protocol lines


# --------------------------------------------------------------------------------------
# Lean side


_HELD = [0]     # the run holds the lock across regenerate + build + audit, so that a concurrent run against ANOTHER tree
                # (OFV_REPO) cannot swap the generated files in between


class _Held:
    def close(self):
        pass


def _lock():
    if _HELD[0]:
        return _Held()
    os.makedirs(os.path.join(LEAN_ROOT, ".lake"), exist_ok=True)
    f = open(os.path.join(LEAN_ROOT, ".lake", "ofverif.lock"), "w")
    fcntl.flock(f, fcntl.LOCK_EX)
    return f


def lake_build(targets: list, timeout: int = 1500) -> tuple[bool, str]:
    lock = _lock()
    try:
        p = subprocess.run(["lake", "build", *targets], cwd=LEAN_ROOT, capture_output=True, text=True, timeout=timeout)
        return p.returncode == 0, (p.stdout + p.stderr)[-6000:]
    finally:
        lock.close()


TRANSLATION: dict = {}     # function -> "translated" | "fallback: reason" (translate.py), filled by regenerate_tables


def regenerate_tables() -> tuple[bool, str]:
    from . import extract, translate
    lock = _lock()
    try:
        try:
            changed, _ = extract.regenerate(REPO, LEAN_ROOT)
            changed2, status = translate.regenerate(REPO, LEAN_ROOT)
            TRANSLATION.clear()
            TRANSLATION.update(status)
            return True, "changed" if (changed or changed2) else "unchanged"
        except Exception as e:  # the source lost the shape the extractor expects
            return False, f"{type(e).__name__}: {e}"
    finally:
        lock.close()


def tie_module(pid: str) -> Optional[str]:
    """Props/<pid>Tie.lean: theorems tying the hand-written model to the decision code translated from the source"""
    return f"OFCore.Props.{pid}Tie" if os.path.exists(os.path.join(LEAN_ROOT, "OFCore", "Props", f"{pid}Tie.lean")) else None


def strip_comments(src: str) -> str:
    src = re.sub(r"/-.*?-/", "", src, flags=re.S)
    return "\n".join(l.split("--")[0] for l in src.splitlines())


def _module_path(mod: str) -> str:
    return os.path.join(LEAN_ROOT, *mod.split(".")) + ".lean"


def lean_sources(roots: list) -> list:
    """The project files the given modules transitively import (plus themselves)."""
    seen: dict = {}
    todo = list(roots)
    while todo:
        mod = todo.pop()
        path = _module_path(mod)
        if mod in seen or not os.path.exists(path):
            continue
        seen[mod] = path
        for m in re.finditer(r"^import\s+((?:OFCore|Drivers)[\w.]*)", open(path).read(), flags=re.M):
            todo.append(m.group(1))
    return sorted(seen.values())


def syntactic_audit(roots: list) -> list:
    hits = []
    for path in lean_sources(roots):
        for i, l in enumerate(strip_comments(open(path).read()).splitlines(), 1):
            if FORBIDDEN.search(l):
                hits.append(f"{os.path.relpath(path, LEAN_ROOT)}:{i}: {l.strip()[:100]}")
    return hits


def qualified_theorems(pid: str) -> dict:
    """short name -> fully qualified name (the innermost `namespace` open at the theorem) of every property theorem"""
    out: dict = {}
    for name in (f"{pid}.lean", f"{pid}Tie.lean"):
        path = os.path.join(LEAN_ROOT, "OFCore", "Props", name)
        if not os.path.exists(path):
            continue
        ns: list = []
        for line in strip_comments(open(path).read()).splitlines():
            m = re.match(r"^namespace\s+(\S+)", line)
            if m:
                ns.append(m.group(1))
                continue
            m = re.match(r"^end\s+(\S+)", line)
            if m and ns and ns[-1].split(".")[-1] == m.group(1).split(".")[-1]:
                ns.pop()
                continue
            m = re.match(r"^theorem\s+(" + pid + r"_[A-Za-z0-9_']+)", line)
            if m:
                out[m.group(1)] = ".".join([*ns, m.group(1)])
    return out


def theorems_of(pid: str) -> list:
    return list(qualified_theorems(pid))


def axiom_audit(pid: str) -> tuple[dict, str]:
    """`#print axioms` on every theorem of Props/<pid>.lean. Returns {theorem: [axioms] | None}."""
    thms = theorems_of(pid)
    res: dict = {t: None for t in thms}
    if not thms:
        return res, "no theorems"
    d = os.path.join(LEAN_ROOT, ".lake", "audit")
    os.makedirs(d, exist_ok=True)
    path = os.path.join(d, f"Audit_{pid}.lean")
    with open(path, "w") as f:
        f.write(f"import OFCore.Props.{pid}\n" + (f"import {tie_module(pid)}\n" if tie_module(pid) else "") + "open OFCore\n")
        full = qualified_theorems(pid)
        for t in thms:
            f.write(f"#print axioms {full.get(t, t)}\n")
    p = subprocess.run(["lake", "env", "lean", path], cwd=LEAN_ROOT, capture_output=True, text=True, timeout=900)
    out = p.stdout + p.stderr
    # "'X' depends on axioms: [a, b]"   or  "'X' does not depend on any axioms"
    for m in re.finditer(r"'([^']+)' depends on axioms: \[([^\]]*)\]", out.replace("\n ", " ").replace("\n", " ")):
        name = m.group(1).split(".")[-1]
        if name in res:
            res[name] = [a.strip() for a in m.group(2).split(",") if a.strip()]
    for m in re.finditer(r"'([^']+)' does not depend on any axioms", out):
        name = m.group(1).split(".")[-1]
        if name in res:
            res[name] = []
    return res, out[-3000:]


def run_driver(lines: list, driver: str = "ofdrv_per", nproc: int = NPROC) -> list:
    """Send lines to the compiled model driver (several processes), return one answer per line."""
    if not lines:
        return []
    n = max(1, min(nproc, len(lines) // 200 + 1))
    chunks = [lines[i::n] for i in range(n)]
    procs = []
    for ch in chunks:
        p = subprocess.Popen([os.path.join(BIN, driver)], stdin=subprocess.PIPE, stdout=subprocess.PIPE, text=True)
        procs.append(p)
    outs = []
    import threading
    results = [None] * n

    def feed(i):
        o, _ = procs[i].communicate("\n".join(chunks[i]) + "\n")
        results[i] = o.split("\n")
        if results[i] and results[i][-1] == "":
            results[i].pop()

    ths = [threading.Thread(target=feed, args=(i,)) for i in range(n)]
    for t in ths:
        t.start()
    for t in ths:
        t.join()
    for i in range(n):
        if procs[i].returncode != 0 or len(results[i]) != len(chunks[i]):
            raise RuntimeError(f"model driver failed (rc={procs[i].returncode}, {len(results[i])} answers for {len(chunks[i])} lines)")
    out = [None] * len(lines)
    for i in range(n):
        out[i::n] = results[i]
    return out


# --------------------------------------------------------------------------------------
# implementation side (process pool)

_PROP: Optional[Prop] = None


def _pool_init(modname: str):
    global _PROP
    setup_repo_path()
    mod = importlib.import_module(modname)
    _PROP = mod.PROP
    if _PROP.init_worker:
        _PROP.init_worker()


class _CaseTimeout(BaseException):
    pass


def _alarm(signum, frame):
    raise _CaseTimeout()


def _raised_in_implementation(exc: BaseException) -> bool:
    """is the deepest frame that belongs either to the harness or to the tree under test a frame of the tree?"""
    here = os.path.dirname(os.path.abspath(__file__))
    repo = os.path.abspath(REPO)
    last = None
    tb = exc.__traceback__
    while tb is not None:
        f = os.path.abspath(tb.tb_frame.f_code.co_filename)
        if f.startswith(here + os.sep):
            last = "harness"
        elif f.startswith(repo + os.sep):
            last = "impl"
        tb = tb.tb_next
    return last == "impl"


def _pool_run(batch):
    import signal
    res = []
    signal.signal(signal.SIGALRM, _alarm)
    for case in batch:
        forced = None
        try:
            signal.alarm(_PROP.case_timeout)
            out = _PROP.impl(case)
        except _CaseTimeout:
            # the implementation did not answer: a failing input (cases take milliseconds)
            out = f"IMPL-TIMEOUT no result after {_PROP.case_timeout}s"
            forced = ("no-result-within-timeout", out)
        except Exception as exc:
            tb = traceback.format_exc()[-800:].replace("\n", " | ")
            if _raised_in_implementation(exc):
                # an exception class the adapter does not expect, raised by the code under test
                # (AttributeError, NotImplementedError, UnboundLocalError ...): the code crashed on this input
                out = f"IMPL-EXCEPTION {type(exc).__name__}: {str(exc)[:200]}".replace("\n", " ")
                forced = ("unexpected-exception:" + type(exc).__name__, out + " || " + tb)
            else:
                # raised in adapter code (typically: the adapter looked at an attribute, a key or an output format
                # that the tree under test no longer provides).  The adapters never raise on the unchanged tree
                # (that would be exit 2 on every run), so on a changed tree this is a failing input too.
                out = f"ADAPTER-EXCEPTION {type(exc).__name__}: {str(exc)[:200]}".replace("\n", " ")
                forced = ("adapter-exception:" + type(exc).__name__, out + " || " + tb)
        finally:
            signal.alarm(0)
        if forced is not None:
            res.append((out, forced if case.claimed else None, False))   # outside the claim domain: not binding
            continue
        try:
            orc = _PROP.oracle(case, out)
        except Exception as exc:
            tb = traceback.format_exc()[-800:].replace("\n", " | ")
            if _raised_in_implementation(exc) and case.claimed:
                # the oracle's own reference run of the real code (a control history, a fresh simulation ...) crashed
                # inside the tree under test: the code fails on an input derived from this case
                orc = ("unexpected-exception:" + type(exc).__name__, "in the oracle's reference run of the code: " + tb)
            elif case.claimed:
                orc = ("adapter-exception:oracle:" + type(exc).__name__, "the oracle could not read the answer: " + tb)
            else:
                orc = None
        try:
            nt = bool(_PROP.nontrivial(case, out))
        except Exception:
            nt = False
        res.append((out, orc, nt))
    return res


def run_impl(modname: str, cases: list, nproc: int = NPROC) -> list:
    if not cases:
        return []
    bs = max(1, min(500, len(cases) // (nproc * 4) + 1))
    batches = [cases[i:i + bs] for i in range(0, len(cases), bs)]
    ctx = mp.get_context("fork")
    with ctx.Pool(min(nproc, len(batches)), initializer=_pool_init, initargs=(modname,)) as pool:
        parts = pool.map(_pool_run, batches)
    return [x for part in parts for x in part]


# --------------------------------------------------------------------------------------
# known findings


def load_known() -> list:
    path = os.path.join(VERIF, "known_findings.json")
    if not os.path.exists(path):
        return []
    return json.load(open(path))


def match_known(pid: str, signature: str, known: list) -> Optional[dict]:
    """An oracle failure is matched to an OPEN finding by its signature string (exact or prefix
    pattern ending with '*')."""
    for k in known:
        if k.get("property") != pid or k.get("status") != "open":
            continue
        sig = k.get("signature", "")
        if sig == signature or (sig.endswith("*") and signature.startswith(sig[:-1])):
            return k
    return None


# --------------------------------------------------------------------------------------
# the check


def _sample_iter(it, k: int, rng: random.Random, seconds: float) -> list:
    """reservoir sample of at most k items of an iterator, reading it for at most `seconds` (enumerations can hold millions)"""
    out: list = []
    t0 = time.time()
    for i, x in enumerate(it):
        if len(out) < k:
            out.append(x)
        else:
            j = rng.randrange(i + 1)
            if j < k:
                out[j] = x
        if i % 4096 == 0 and time.time() - t0 > seconds:
            break
    return out


def _sha(s: str) -> str:
    return hashlib.sha1(s.encode()).hexdigest()[:12]


def write_replay(pid: str, kind: str, seed: int, body: dict) -> str:
    d = os.path.join(VERIF, "replays", pid)
    os.makedirs(d, exist_ok=True)
    body = dict(body, property=pid, kind=kind, seed=seed,
                how_to_replay=f"./check {pid} --replay <this file>")
    txt = json.dumps(body, indent=1, default=str, sort_keys=True)
    path = os.path.join(d, f"{kind}-{_sha(txt)}.json")
    with open(path, "w") as f:
        f.write(txt)
    return os.path.relpath(path, VERIF)


def evaluate(prop: Prop, modname: str, cases: list) -> list:
    impl = run_impl(modname, cases)
    try:
        model = run_driver([c.line for c in cases], prop.driver)
    except Exception as e:
        model = [f"DRIVER-FAIL {e}"] * len(cases)
    outs = []
    for c, (io, orc, nt), mo in zip(cases, impl, model):
        outs.append(Outcome(c, io, mo, orc, nt))
    return outs


def run_check(modname: str, tier: str, seed: int, replay: Optional[str] = None) -> int:
    """every temporary file of the run (the code under test makes `openfisca_*` directories of its own when a simulation keeps
    values on disk) goes to a directory of this run, removed when the run ends"""
    import shutil
    import tempfile
    base = "/var/tmp" if os.path.isdir("/var/tmp") else None
    run_tmp = tempfile.mkdtemp(prefix="ofv_run_", dir=base)
    old_env, old_tmp = os.environ.get("TMPDIR"), tempfile.tempdir
    os.environ["TMPDIR"] = run_tmp
    tempfile.tempdir = run_tmp          # inherited by the forked workers
    try:
        return _run_check(modname, tier, seed, replay)
    finally:
        tempfile.tempdir = old_tmp
        if old_env is None:
            os.environ.pop("TMPDIR", None)
        else:
            os.environ["TMPDIR"] = old_env
        shutil.rmtree(run_tmp, ignore_errors=True)


def _run_check(modname: str, tier: str, seed: int, replay: Optional[str] = None) -> int:
    t0 = time.time()
    setup_repo_path()
    mod = importlib.import_module(modname)
    prop: Prop = mod.PROP
    pid = prop.pid
    known = load_known()
    log = lambda *a: print(f"[{pid}]", *a, flush=True)
    log(f"tier={tier} seed={seed} repo={REPO}")

    # 1. tables regenerated from the source, 2. build, 3. audits
    outer = _lock()
    _HELD[0] = 1
    gen_ok, gen_msg = regenerate_tables()
    log(f"Generated.lean: {gen_msg}")
    drv_ok, drv_log = lake_build([prop.driver])
    if not drv_ok:
        log("driver build FAILED\n" + drv_log[-1500:])
    if tie_module(pid) and tie_module(pid) not in prop.lean_targets:
        prop.lean_targets = [*prop.lean_targets, tie_module(pid)]
    build_ok, build_log = lake_build(prop.lean_targets)
    if not build_ok:
        log("proof build FAILED\n" + build_log[-2500:])
    driver_mod = "Drivers." + {"heap": "Heap", "pview": "PView"}.get(prop.driver.split("_")[1], prop.driver.split("_")[1].capitalize())
    audit_roots = [t for t in prop.lean_targets if t.startswith("OFCore.")] + [driver_mod]
    syn = syntactic_audit(audit_roots)
    ax, ax_log = axiom_audit(pid) if build_ok else ({t: None for t in theorems_of(pid)}, "")
    bad_ax = {t: a for t, a in ax.items() if a is None or not set(a) <= ALLOWED_AXIOMS}
    obligations = len(ax)
    discharged = obligations - len(bad_ax) if build_ok and not syn else 0
    proof_ok = gen_ok and build_ok and not syn and not bad_ax and obligations > 0
    log(f"theorems={obligations} discharged={discharged} syntactic_hits={len(syn)} proof_ok={proof_ok}")
    if syn:
        log("forbidden constructs: " + "; ".join(syn[:5]))
    if bad_ax and build_ok:
        log("axiom audit: " + json.dumps(bad_ax)[:600] + "\n" + ax_log[-600:])
    _HELD[0] = 0
    outer.close()
    leanchecker = None
    if tier == "thorough" and build_ok:
        mods = [t for t in prop.lean_targets if t.startswith("OFCore.")]
        p = subprocess.run(["lake", "env", "leanchecker", *mods], cwd=LEAN_ROOT, capture_output=True, text=True, timeout=3000)
        leanchecker = {"cmd": "lake env leanchecker " + " ".join(mods), "rc": p.returncode, "tail": (p.stdout + p.stderr)[-400:]}
        log(f"leanchecker rc={p.returncode}")
        if p.returncode != 0:
            proof_ok = False

    # 3b. does the anchored source still read as it did when the models were written?
    from . import srcmap
    try:
        fp = srcmap.compare(pid, REPO)
    except Exception as e:
        fp = {"status": "no-baseline", "changed": [], "error": f"{type(e).__name__}: {e}"}
    from . import translate as _tr
    mine = {k: v for k, v in TRANSLATION.items() if k in _tr.functions_for(pid)}
    if mine:
        fell = {k: v for k, v in mine.items() if v != "translated"}
        fp["translated_decision_code"] = mine
        if fell:
            # the translator no longer understands a function: its tie theorems are vacuous on this run (they are
            # stated against the model's own decision); the correspondence remains the tie -> explore further
            fp["status"] = "changed"
            fp["changed"] = [*fp["changed"], *[f"<not translatable> {k}: {v}" for k, v in fell.items()]]
    log(f"anchored source: {fp['status']}" + (" (" + ", ".join(fp["changed"][:8]) + (" ..." if len(fp["changed"]) > 8 else "") + ")" if fp["changed"] else ""))

    # 4. cases
    rng = random.Random(seed)
    if replay:
        body = json.load(open(replay))
        cases = [Case(**c) for c in body.get("cases", [])]
        for c in cases:
            c.tags = tuple(c.tags)
    else:
        cases = [*prop.corpus()]
        for c in cases:
            c.origin = "corpus"
        cases += list(prop.generate(rng, tier))
        if tier == "thorough" and prop.enumerate_thorough:
            enum = list(prop.enumerate_thorough())
            for c in enum:
                c.origin = "enum"
            cases += enum
    log(f"cases={len(cases)}")
    outs = evaluate(prop, modname, cases) if drv_ok else [
        Outcome(c, io, "DRIVER-UNAVAILABLE", orc, nt) for c, (io, orc, nt) in zip(cases, run_impl(modname, cases))]

    eq = prop.canon_equal or (lambda c, a, b: a == b)

    def classify(os_):
        violations, known_seen, diffs, unclaimed = [], {}, [], []
        for o in os_:
            in_known = None
            if o.oracle is not None:
                in_known = match_known(pid, o.oracle[0], known)
                if in_known is None:
                    violations.append(o)
                else:
                    known_seen.setdefault(in_known["id"], []).append(o)
            if drv_ok and not eq(o.case, o.impl, o.model):
                if in_known is not None and not prop.known_diffs_binding:
                    continue           # inside an open finding only the oracle speaks (the model states the
                                       # intended behaviour there); a model that mirrors the code stays binding
                (diffs if (o.case.claimed or prop.unclaimed_diffs_binding) else unclaimed).append(o)
        return violations, known_seen, diffs, unclaimed

    # 4b. the anchored source changed since the models were written: explore further before concluding
    escalation = {"rounds": 0, "extra_cases": 0}
    if fp["status"] == "changed" and not replay and drv_ok and os.environ.get("OFV_NO_ESCALATE") != "1":
        def quiet(os_):
            v, _, d, _ = classify(os_)
            return not v and not d
        t_esc = time.time()
        seen_lines = {o.case.line for o in outs}
        k = 0
        while quiet(outs) and time.time() - t_esc < ESCALATE_SECONDS[tier] and k < 12:
            k += 1
            more = [c for c in prop.generate(random.Random(seed + 7919 * k), tier) if c.line not in seen_lines]
            if k == 1 and tier != "thorough" and prop.enumerate_thorough:
                enum = [c for c in _sample_iter(prop.enumerate_thorough(), 40000, random.Random(seed), 40) if c.line not in seen_lines]
                for c in enum:
                    c.origin = "enum"
                more += enum
            if not more:
                break
            seen_lines.update(c.line for c in more)
            outs += evaluate(prop, modname, more)
            escalation["rounds"] = k
            escalation["extra_cases"] += len(more)
        log(f"source changed: {escalation['rounds']} further generator rounds, {escalation['extra_cases']} more cases in {time.time() - t_esc:.0f}s")

    crashes = [o for o in outs if o.impl.startswith("HARNESS-CRASH")]
    if crashes:
        log("harness crash: " + crashes[0].impl[:1500] + "\n  on " + crashes[0].case.line[:300])
        return 2

    violations, known_seen, diffs, unclaimed = classify(outs)
    corr_ok = drv_ok and not diffs

    def case_json(o: Outcome) -> dict:
        return {"line": o.case.line, "payload": o.case.payload, "claimed": o.case.claimed,
                "tags": list(o.case.tags), "origin": o.case.origin}

    status = 0
    printed = []
    # 5. verdict
    if violations:
        # group by signature, report each signature once with the smallest case
        by_sig: dict = {}
        for o in violations:
            by_sig.setdefault(o.oracle[0], []).append(o)
        for sig, os_ in by_sig.items():
            o = min(os_, key=lambda x: len(x.case.line))
            path = write_replay(pid, "impl-violation", seed, {
                "signature": sig, "oracle_message": o.oracle[1], "cases": [case_json(o)],
                "impl": o.impl, "model": o.model, "count_in_run": len(os_)})
            printed.append(f"VIOLATION property={pid} replay={path}")
        status = 1
    if (not proof_ok or not corr_ok) and not violations:
        # search for a failing input on the real code before reporting
        found = None
        if not replay:
            seeds_cases = [o.case for o in diffs[:50]]
            extra: list = []
            if prop.neighbours:
                for c in seeds_cases:
                    extra += list(prop.neighbours(c))
            r2 = random.Random(seed + 1)
            cap = SEARCH_CAP if tier == "thorough" else min(SEARCH_CAP, 60000)
            for _ in range(prop.search_budget_factor):
                extra += list(prop.generate(r2, tier))
                if len(extra) > cap:
                    break
            if prop.enumerate_thorough and tier != "thorough":
                extra += _sample_iter(prop.enumerate_thorough(), cap, r2, 40)
            for c in extra:
                c.origin = "search"
            log(f"proof_ok={proof_ok} corr_ok={corr_ok}: searching {len(extra)} further inputs with the oracle")
            # in chunks: stop at the first chunk that contains a failing input, or when the time budget is spent
            t_search = time.time()
            budget = SEARCH_SECONDS[tier]
            chunk = max(200, NPROC * 100)
            searched = 0
            for i in range(0, len(extra), chunk):
                part = extra[i:i + chunk]
                for (io, orc, nt), c in zip(run_impl(modname, part), part):
                    if orc is not None and match_known(pid, orc[0], known) is None and not io.startswith("HARNESS-CRASH"):
                        cand = Outcome(c, io, "", orc, nt)
                        if found is None or len(c.line) < len(found.case.line):
                            found = cand
                searched += len(part)
                if found is not None or time.time() - t_search > budget:
                    break
            log(f"search: {searched} inputs in {time.time() - t_search:.0f}s, failing input {'found' if found else 'not found'}")
        if found is not None:
            path = write_replay(pid, "impl-violation", seed, {
                "signature": found.oracle[0], "oracle_message": found.oracle[1],
                "cases": [case_json(found)], "impl": found.impl,
                "found_by": "failing-input search after a broken proof/correspondence"})
            printed.append(f"VIOLATION property={pid} replay={path}")
        else:
            broken = {}
            if not proof_ok:
                broken["theorem"] = {"build_ok": build_ok, "generated_tables": gen_msg, "syntactic_hits": syn[:10],
                                     "axiom_audit_failures": bad_ax, "build_log_tail": build_log[-1500:] if not build_ok else "",
                                     "leanchecker": leanchecker}
            if not corr_ok:
                broken["correspondence"] = {
                    "diverging_lines": len(diffs),
                    "first": [{"line": o.case.line, "impl": o.impl[:400], "model": o.model[:400]} for o in diffs[:5]],
                    "driver_build_ok": drv_ok, "driver_log_tail": "" if drv_ok else drv_log[-1500:]}
            path = write_replay(pid, "proof-break" if not proof_ok else "correspondence-break", seed, {
                "broken": broken, "cases": [case_json(o) for o in diffs[:20]]})
            printed.append(f"VIOLATION property={pid} replay={path} no-failing-input-found")
        status = 1
    for kid, os_ in known_seen.items():
        k = next(k for k in known if k["id"] == kid)
        printed.append(f"KNOWN-FINDING: property={pid} {kid} {k['description']} (seen on {len(os_)} inputs, e.g. {os_[0].case.line[:120]})")

    # 6. evidence
    distinct = len({o.case.line for o in outs if o.nontrivial})
    hist: dict = {}
    for o in outs:
        for t in o.case.tags:
            hist[t] = hist.get(t, 0) + 1
    outcome_hist: dict = {}
    for o in outs:
        k = "ERR" if o.impl.startswith("ERR") else "value"
        outcome_hist[k] = outcome_hist.get(k, 0) + 1
    samples = []
    step = max(1, len(outs) // 4)
    for o in outs[::step][:4]:
        samples.append({"line": o.case.line[:600], "impl": o.impl[:300], "model": o.model[:300]})
    ev = {
        "property_id": pid, "tier": tier, "seed": seed, "level": "proof",
        "coverage": {
            "obligations": obligations, "discharged": discharged,
            "checker_cmd": f"cd lean/OFCore && lake build {' '.join(prop.lean_targets)} && lake env lean .lake/audit/Audit_{pid}.lean  # #print axioms on every theorem"
                           + (" && " + leanchecker["cmd"] if leanchecker else ""),
            "trusted_base": TRUSTED_BASE,
            "theorems": {t: a for t, a in ax.items()},
            "audited_files": [os.path.relpath(p, LEAN_ROOT) for p in lean_sources(audit_roots)],
            "partial_theorems": prop.partial_theorems,
            "evaluations": len(outs), "distinct_nontrivial": distinct, "rule": prop.rule,
            "samples": samples, "input_histogram": hist, "impl_outcomes": outcome_hist,
            "correspondence": {"lines_compared": len(outs) if drv_ok else 0, "claimed_diffs": len(diffs),
                               "unclaimed_diffs": len(unclaimed),
                               "cases_outside_claim_domain": sum(1 for o in outs if not o.case.claimed),
                               "binding_outside_claim_domain": bool(prop.unclaimed_diffs_binding),
                               "unclaimed_examples": [{"line": o.case.line[:200], "impl": o.impl[:120], "model": o.model[:120]} for o in unclaimed[:3]]},
            "known_findings_seen": {k: len(v) for k, v in known_seen.items()},
            "exhaustive": bool(tier == "thorough" and prop.enumerate_thorough is not None),
            "exhaustive_note": prop.exhaustive_note,
            "generated_tables": gen_msg, "leanchecker": leanchecker,
            "source_fingerprint": dict(fp, changed=fp["changed"][:40], escalation=escalation),
            "explanation": prop.level_text,
        },
        "assumptions": prop.assumptions,
        "wall_s": round(time.time() - t0, 2),
        "violations": sum(1 for p in printed if p.startswith("VIOLATION")),
    }
    if not replay:
        os.makedirs(os.path.join(VERIF, "evidence"), exist_ok=True)
        with open(os.path.join(VERIF, "evidence", f"{pid}.json"), "w") as f:
            json.dump(ev, f, indent=1, default=str)
    for l in printed:
        print(l, flush=True)
    log(f"done in {ev['wall_s']}s: evaluations={len(outs)} nontrivial={distinct} diffs={len(diffs)} unclaimed_diffs={len(unclaimed)} violations={ev['violations']} exit={status}")
    return status
