"""A reform a YAML test can designate with `reforms: ofverif.apireform.OfvReform` (property C20):
p_f_int = 3 * p_int + 1 instead of 2 * p_int + 1. The independent engine run does not go through
it (`apiutil.system(None, "reform")` is built directly with the other formula)."""
from openfisca_core import variables
from openfisca_core.reforms import Reform


class OfvReform(Reform):
    def apply(self):
        base = self.baseline.get_variable("p_f_int")

        class p_f_int(variables.Variable):
            value_type = int
            entity = base.entity
            definition_period = base.definition_period
            label = "label of p_f_int"

            def formula(pop, period):
                return pop("p_int", period) * 3 + 1

        self.update_variable(p_f_int)
