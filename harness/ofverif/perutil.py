"""Shared adapters / generators for the calendar and period domains (C03, C04, C05, C16, C19)."""
from __future__ import annotations

import calendar
import datetime as dt
import random

UNITS = ["weekday", "week", "day", "month", "year", "eternity"]
DATED = ["weekday", "week", "day", "month", "year"]
FAMILY = {"year": "c", "month": "c", "day": "c", "week": "w", "weekday": "w"}


def fmt_date(t) -> str:
    return f"{t[0]},{t[1]},{t[2]}"


def fmt_period(p) -> str:
    u, s, n = p
    return f"{str(u)}/{fmt_date(tuple(s))}/{n}"


def parse_date(s: str):
    y, m, d = s.split(",")
    return (int(y), int(m), int(d))


def parse_period_token(tok: str):
    """token -> real Period object"""
    from openfisca_core.periods import DateUnit, Instant, Period
    u, d, n = tok.split("/")
    return Period((DateUnit(u), Instant(parse_date(d)), int(n)))


def _leap(y):
    return y % 4 == 0 and (y % 100 != 0 or y % 400 == 0)


_DBM = [0, 31, 59, 90, 120, 151, 181, 212, 243, 273, 304, 334]
_DIM = [31, 28, 31, 30, 31, 30, 31, 31, 30, 31, 30, 31]


def _dim(y, m):
    return 29 if (m == 2 and _leap(y)) else _DIM[m - 1]


def O(t) -> int:
    """proleptic Gregorian ordinal for any year >= 1 (datetime stops at 9999); validated against datetime in range"""
    y, m, d = t
    if not (1 <= m <= 12 and 1 <= d <= _dim(y, m) and y >= 1):
        raise ValueError(f"invalid date {t}")
    y1 = y - 1
    return y1 * 365 + y1 // 4 - y1 // 100 + y1 // 400 + _DBM[m - 1] + (1 if m > 2 and _leap(y) else 0) + d


def _addm_t(t, n):
    y, m = divmod(t[0] * 12 + t[1] - 1 + n, 12)
    m += 1
    return (y, m, min(t[2], _dim(y, m)))


def addm(d: dt.date, n: int) -> dt.date:
    y, m = divmod(d.year * 12 + d.month - 1 + n, 12)
    m += 1
    return dt.date(y, m, min(d.day, calendar.monthrange(y, m)[1]))


def end_ord(u: str, s, n: int) -> int:
    """ordinal of the last day of (u, s, n), computed with datetime only"""
    s = tuple(s)
    if u == "year":
        return O(_addm_t(s, 12 * n)) - 1
    if u == "month":
        return O(_addm_t(s, n)) - 1
    if u == "week":
        return O(s) + 7 * n - 1
    return O(s) + n - 1


BOUNDARY_YEARS = [1999, 2000, 2001, 2004, 2015, 2016, 2019, 2020, 2021, 2026, 2100, 1900, 2400, 1000, 1001, 9000, 4, 100, 400]


def boundary_date(rng: random.Random):
    y = rng.choice(BOUNDARY_YEARS)
    m = rng.choice([1, 2, 2, 3, 4, 6, 11, 12, 12, rng.randint(1, 12)])
    d = min(rng.choice([1, 1, 2, 27, 28, 29, 30, 31]), calendar.monthrange(y, m)[1])
    return (y, m, d)


def uniform_date(rng: random.Random, lo_year=1, hi_year=9900):
    o = rng.randint(dt.date(lo_year, 1, 1).toordinal(), dt.date(hi_year, 12, 31).toordinal())
    x = dt.date.fromordinal(o)
    return (x.year, x.month, x.day)


def some_date(rng: random.Random, lo_year=1, hi_year=9900):
    while True:
        t = boundary_date(rng) if rng.random() < 0.6 else uniform_date(rng, lo_year, hi_year)
        if lo_year <= t[0] <= hi_year:
            return t


def align(u: str, t, rng: random.Random | None = None):
    """start aligned to its own unit: first of month for month/year, Monday for week"""
    if u in ("month", "year"):
        return (t[0], t[1], 1)
    if u == "week":
        x = dt.date(*t)
        if x.toordinal() - x.weekday() < 1:
            x = x + dt.timedelta(days=7)
        x = x - dt.timedelta(days=x.weekday())
        return (x.year, x.month, x.day)
    return t


# years whose ISO year has 53 weeks, years beginning on every weekday, leap / century years, the ends of the calendar
EDGE_YEARS = [1992, 1998, 2004, 2009, 2015, 2020, 2026, 2032, 2037, 2043, 2048, 2017, 2018, 2019, 2021, 2022, 2023, 2024, 2012,
              1900, 2000, 2100, 2200, 2300, 2400, 1600, 1004, 1000, 1001, 5, 8, 9996, 9000, 2, 400, 404]


def edge_date(rng: random.Random):
    """dates around the edges the period algebra turns on: the turn of the year (inside an ISO week that belongs to the
    other year, week 53), the end of February, month ends, the two ends of the calendar"""
    k = rng.random()
    y = rng.choice(EDGE_YEARS)
    if k < 0.40:
        return rng.choice([(y, 12, 28), (y, 12, 29), (y, 12, 30), (y, 12, 31), (y, 1, 1), (y, 1, 2), (y, 1, 3), (y, 1, 4), (y, 1, 5)])
    if k < 0.60:
        return rng.choice([(y, 2, 27), (y, 2, 28), (y, 2, _dim(y, 2)), (y, 3, 1), (y, 1, 29), (y, 1, 30), (y, 1, 31), (y, 3, 31)])
    if k < 0.85:
        m = rng.randint(1, 12)
        return rng.choice([(y, m, 1), (y, m, _dim(y, m)), (y, m, max(1, _dim(y, m) - 1)), (y, m, 28), (y, m, 15)])
    if k < 0.93:
        return rng.choice([(1, 1, 1), (1, 1, 2), (1, 1, 7), (1, 1, 8), (1, 2, 1), (1, 12, 31), (2, 1, 1), (1, 3, 1)])
    return rng.choice([(9999, 12, 31), (9999, 12, 1), (9999, 1, 1), (9998, 12, 31), (9999, 12, 27), (9999, 11, 30), (9990, 1, 1)])
