"""Which source the models transcribe, and whether it still reads as it did when they were written.

`source_fingerprints.json` (committed, written by `tools/fingerprint.py` on the unchanged tree) holds, for every
function / method / class body / module body of every file a property is anchored in, a hash of its AST with
docstrings removed (comments and layout do not count).  On every run the same hashes are recomputed from the
tree under test.  A difference is NOT an alarm (a harmless rewrite changes the hash too): it is the signal
that the hand-written model may no longer transcribe what the code says, so the run

  * names the changed functions in its log and evidence (`coverage.source_fingerprint`), and
  * spends a larger budget on the correspondence and the oracle (`core.run_check`: further generator rounds
    with fresh PRNG streams and a sample of the thorough enumeration, until a time budget is spent or
    something fails).

Only an input on which the code's behaviour differs from the model's, or on which the oracle fails, is ever
reported.  On the unchanged tree all hashes match and the run is exactly the registered budget.
"""
from __future__ import annotations

import ast
import hashlib
import json
import os

VERIF = os.path.dirname(os.path.dirname(os.path.dirname(os.path.abspath(__file__))))
BASELINE = os.path.join(VERIF, "source_fingerprints.json")

# files every engine-level property depends on although only some list them as anchors
COMMON = {
    "C01": ["openfisca_core/periods/period_.py", "openfisca_core/periods/helpers.py", "openfisca_core/data_storage/in_memory_storage.py",
            "openfisca_core/populations/population.py", "openfisca_core/populations/group_population.py", "openfisca_core/tracers/simple_tracer.py"],
    "C02": ["openfisca_core/holders/holder.py", "openfisca_core/tracers/simple_tracer.py", "openfisca_core/populations/_core_population.py"],
    "C03": ["openfisca_core/periods/helpers.py", "openfisca_core/periods/date_unit.py"],
    "C04": ["openfisca_core/periods/date_unit.py"],
    "C05": ["openfisca_core/periods/date_unit.py"],
    "C11": ["openfisca_core/populations/population.py", "openfisca_core/populations/group_population.py", "openfisca_core/projectors/projector.py"],
    "C17": ["openfisca_core/tracers/simple_tracer.py", "openfisca_core/tracers/trace_node.py", "openfisca_core/tracers/computation_log.py"],
    "C18": ["openfisca_core/tracers/simple_tracer.py", "openfisca_core/holders/holder.py"],
    "C20": ["openfisca_core/tools/__init__.py"],
}


def _strip_docstrings(node: ast.AST) -> ast.AST:
    for n in ast.walk(node):
        body = getattr(n, "body", None)
        if isinstance(body, list) and body and isinstance(body[0], ast.Expr) and isinstance(getattr(body[0], "value", None), ast.Constant) \
                and isinstance(body[0].value.value, str) and isinstance(n, (ast.FunctionDef, ast.AsyncFunctionDef, ast.ClassDef, ast.Module)):
            n.body = body[1:] or [ast.Pass()]
    return node


def _h(node: ast.AST) -> str:
    return hashlib.sha1(ast.dump(node, annotate_fields=False, include_attributes=False).encode()).hexdigest()[:16]


def file_fingerprints(path: str) -> dict:
    """qualified name -> hash, for every function/method; '<class X>' and '<module>' cover what is outside functions."""
    try:
        tree = _strip_docstrings(ast.parse(open(path).read()))
    except (OSError, SyntaxError) as e:
        return {"<unreadable>": type(e).__name__}
    out: dict = {}

    def visit(body, prefix):
        rest = []
        for n in body:
            if isinstance(n, (ast.FunctionDef, ast.AsyncFunctionDef)):
                name = prefix + n.name
                k, i = name, 1
                while k in out:               # property + setter, overloads
                    i += 1
                    k = f"{name}#{i}"
                out[k] = _h(n)
            elif isinstance(n, ast.ClassDef):
                visit(n.body, prefix + n.name + ".")
                rest.append(ast.ClassDef(n.name, n.bases, n.keywords, [], n.decorator_list))
            else:
                rest.append(n)
        out[(prefix[:-1] and f"<class {prefix[:-1]}>") or "<module>"] = _h(ast.Module(rest, []))

    visit(tree.body, "")
    return out


def anchored_files(pid: str) -> list:
    files: list = []
    for l in open(os.path.join(VERIF, "properties.jsonl")):
        d = json.loads(l)
        if d["id"] == pid:
            files = list(d["anchors"]["files"])
    for f in COMMON.get(pid, []):
        if f not in files:
            files.append(f)
    return files


def snapshot(repo: str, files: list) -> dict:
    return {f: file_fingerprints(os.path.join(repo, f)) for f in files}


def load_baseline() -> dict:
    if not os.path.exists(BASELINE):
        return {}
    return json.load(open(BASELINE))


def compare(pid: str, repo: str) -> dict:
    """{'status': 'match' | 'changed' | 'no-baseline', 'changed': ['file::qualname', ...], 'files': n, 'functions': n}"""
    base = load_baseline()
    files = anchored_files(pid)
    if not base:
        return {"status": "no-baseline", "changed": [], "files": len(files), "functions": 0}
    now = snapshot(repo, files)
    changed = []
    n = 0
    for f in files:
        b = base.get("files", {}).get(f)
        if b is None:
            changed.append(f + "::<not in baseline>")
            continue
        n += len(b)
        for q in sorted(set(b) | set(now[f])):
            if b.get(q) != now[f].get(q):
                changed.append(f"{f}::{q}")
    return {"status": "changed" if changed else "match", "changed": changed, "files": len(files), "functions": n,
            "baseline_commit": base.get("repo_commit")}
