"""Declarative rule systems for the engine properties (C01, C02, C17, C18, C11).

One description, two interpreters: `to_line` serialises it for the Lean model driver
(`ofdrv_sim`, protocol in lean/OFCore/OFCore/Drv/Sim.lean); `build` turns it into a REAL
openfisca tax-benefit system (Variable classes whose formulas are closures over the public
`population(...)`, `household.sum(...)`, `person.household(...)` API) and a real Simulation.
"""
from __future__ import annotations

import datetime as dt
import random
from dataclasses import dataclass, field

import numpy as np

from .perutil import fmt_date, fmt_period, parse_period_token

# expression tuples: ("c", k) | ("v", w, pt, add) | ("o1", o, a) | ("o2", o, a, b) | ("f", id, a)
# pt: "same" | "this_year" | "first_month" | "last_month" | "last_year" | "off:<n>:<unit>" | "fx:<period token>"
# reserved forms (extended language, only generated when asked for through `features`):
#   ("o1", 900, ("v", w, pt, False))   floor(population(w, pt(period), options=[DIVIDE]))
#   ("o1", 901, ("v", i, pt, False))   parameters(pt(period)).<parameter i>
#   ("o2", 99, a, ("f", id, ("c", 0))) `a` is evaluated, THEN fault `id` raises (a failure after the dependencies completed);
#                                      at the root of a formula the failure is the ENGINE's: the formula returns an array of
#                                      the wrong length / of strings, refused when the result is cast or stored
OP_DIVIDE = 900
OP_PARAM = 901
OP_FIRST = 99          # binary code: the first operand (the second one is evaluated for its effect)

ENUM_SIZE = 5


@dataclass
class Var:
    entity: int = 0            # 0 person, 1 household
    vtype: str = "int"         # int float bool enum date
    unit: str = "month"
    dflt: int = 0
    neutralized: bool = False
    end: int | None = None     # ordinal
    no_store: bool = False
    formulas: list = field(default_factory=list)   # [(start_ordinal, expr)]


@dataclass
class SysCase:
    nP: int
    nG: int
    mem: list
    msl: int
    vars: list
    inputs: list               # [(v, period_token, [values])]
    reqs: list                 # [("calc"|"add", v, token) | ("arm"|"disarm", id)]
    config: dict = field(default_factory=dict)   # trace, memory, priority, drop, blacklist ... (implementation side only)
    roles: list = field(default_factory=list)    # role index of each person in its household (empty = everybody role 0); see ROLES
    role_variant: int = 0                        # which role table the household entity is built with (ROLE_VARIANTS); role
                                                 # indices always refer to the entity's FLATTENED roles
    params: list = field(default_factory=list)   # dated parameters: params[i] = [(start ordinal, value), ...]
    pnames: list = field(default_factory=list)   # names of the parameters (default: p<i> / g.p<i>)
    outputs: list = field(default_factory=list)  # `calculate_output` attribute of each variable: 0 none, 1 calculate_output_add, 2 ..._divide


def derive(c: "SysCase", **changes) -> "SysCase":
    """a copy of the case with some fields replaced (population, roles and everything else kept)"""
    import dataclasses
    return dataclasses.replace(c, **changes)


def expr_tokens(e) -> list:
    k = e[0]
    if k == "c":
        return ["c", str(e[1])]
    if k == "v":
        return ["v", str(e[1]), e[2], "1" if e[3] else "0"]
    if k == "o1":
        return ["o1", str(e[1])] + expr_tokens(e[2])
    if k == "o2":
        return ["o2", str(e[1])] + expr_tokens(e[2]) + expr_tokens(e[3])
    if k == "f":
        return ["f", str(e[1])] + expr_tokens(e[2])
    raise ValueError(e)


def var_tokens(v: "Var", ns: bool) -> list:
    t = [str(v.entity), v.vtype, v.unit, str(v.dflt), "1" if v.neutralized else "0",
         "-" if v.end is None else str(v.end), "1" if ns else "0", "F", str(len(v.formulas))]
    for start, e in v.formulas:
        t += [str(start)] + expr_tokens(e)
    return t


def to_line(c: SysCase, no_store_override=None) -> str:
    roles = list(getattr(c, "roles", None) or [])
    t = (["sim", "P", str(c.nP), "G", str(c.nG), "M"] + [str(m) for m in c.mem]
         + (["RL"] + [str(r) for r in roles] if roles else [])          # optional field: absent = everybody role 0
         + ["MSL", str(c.msl)])
    params = list(getattr(c, "params", None) or [])
    if params:                                                           # optional field
        t += ["PAR", str(len(params))]
        for tbl in params:
            t += [str(len(tbl))] + [str(x) for sv in tbl for x in sv]
    outputs = list(getattr(c, "outputs", None) or [])
    if outputs:                                                          # optional field
        t += ["OUT", str(len(outputs))] + [str(k) for k in outputs]
    t += ["V", str(len(c.vars))]
    for i, v in enumerate(c.vars):
        t += var_tokens(v, v.no_store if no_store_override is None else no_store_override(i, v))
    t += ["I", str(len(c.inputs))]
    for v, tok, vals in c.inputs:
        t += [str(v), tok] + [str(x) for x in vals]
    t += ["R", str(len(c.reqs))]
    for r in c.reqs:
        if r[0] == "set":
            t += ["set", str(r[1]), r[2]] + [str(x) for x in r[3]]
        elif r[0] == "repl":
            ns = r[2].no_store if no_store_override is None else no_store_override(r[1], r[2])
            t += ["repl", str(r[1])] + var_tokens(r[2], ns)
        else:
            t += [r[0]] + [str(x) for x in r[1:]]
    return " ".join(t)


# --------------------------------------------------------------------------------------
# real system


def _transform(pt: str, period):
    from openfisca_core.periods import DateUnit
    if pt == "same":
        return period
    if pt == "this_year":
        return period.this_year
    if pt == "first_month":
        return period.first_month
    if pt == "last_month":
        return period.last_month
    if pt == "last_year":
        return period.last_year
    if pt.startswith("fx:"):
        return parse_period_token(pt[3:])
    _, n, u = pt.split(":")
    return period.offset(int(n), DateUnit(u))


def _to_int_array(x):
    """what a formula sees of a variable, as integers (bool -> 0/1, enum -> index, date -> ordinal)"""
    from openfisca_core.indexed_enums import EnumArray
    if isinstance(x, EnumArray):
        return np.asarray(x.view(np.ndarray)).astype(np.int64)
    if x.dtype.kind in ("O", "U", "S"):          # str variables: "s<n>" <-> n
        return np.array([int((v.decode() if isinstance(v, bytes) else str(v))[1:]) for v in x.tolist()], dtype=np.int64)
    if x.dtype.kind == "M":
        return (x.astype("datetime64[D]") - np.datetime64("0001-01-01")).astype(np.int64) + 1
    if x.dtype.kind == "b":
        return x.astype(np.int64)
    if x.dtype.kind == "f":
        return x.astype(np.float64)
    return x.astype(np.int64)


# roles of the household entity, by index: 0 plain member (no maximum), 1 parent (at most 2), 2 head (unique)
ROLES = [{"key": "member", "plural": "members"}, {"key": "parent", "plural": "parents", "max": 2},
         {"key": "head", "plural": "heads", "max": 1}]
UNIQUE_ROLE = 2
# variant 1: the FIRST role has sub-roles; flattened roles: 0 first_parent, 1 second_parent (each unique), 2 member, 3 head (unique)
ROLES_SUB = [{"key": "parent", "plural": "parents", "subroles": ["first_parent", "second_parent"]},
             {"key": "member", "plural": "members"}, {"key": "head", "plural": "heads", "max": 1}]
ROLE_VARIANTS = [ROLES, ROLES_SUB]
NO_ROLE = 9          # role digit of the reductions 50-79 meaning "no role filter"


def is_role_op(o: int) -> bool:
    """role operations: 10+r sum(x, role), 20+r value_from_person(x, role), 30+r nb_persons(role), 40+r any(x, role),
    50+r max(x, role), 60+r min(x, role), 70+r all(x, role); for 50-79 r = 9 means no role filter; max / min of a
    household without holder are 0 (instead of -inf / +inf), all is 1"""
    return 10 <= o < 80


TOP_ROLE = 8         # role digit meaning "the entity's first top-level role" (with sub-roles: matches the holders of any of them)


def is_proj_op(o: int) -> bool:
    """80+r: household.project(x, role): a household vector onto the members holding role r, 0 for the others"""
    return 80 <= o < 90


def _role_of(entity, digit: int):
    """role digit -> role object: a flattened role; 9 = no filter (None); 8 = the first top-level role"""
    if digit == NO_ROLE:
        return None
    if digit == TOP_ROLE:
        return entity.roles[0]
    return entity.flattened_roles[digit]


def _role_op(o, x, grp):
    """`grp`: the household population, or (person formula) the projector `person.household`, whose
    results are projected back onto the persons"""
    role = _role_of(grp.entity, o % 10)
    if o < 20:
        return grp.sum(x, role=role)
    if o < 30:
        return grp.value_from_person(x, role)            # raises unless the role is unique
    if o < 40:
        return grp.nb_persons(role=role)
    if o < 50:
        return np.where(grp.any(x, role=role), 1, 0)
    if o < 70:
        # the -inf / +inf of a household without holder never reaches an integer cast
        red = grp.max(x, role=role) if o < 60 else grp.min(x, role=role)
        return np.where(grp.nb_persons(role=role) > 0, red, 0)
    return np.where(grp.all(x, role=role), 1, 0)


def _f1(o, x, pop, E):
    if o == 0:
        return -x
    if o == 1:
        return (pop if E == 1 else pop.simulation.household).sum(x)
    if is_role_op(o):
        # in a person formula `pop.household` is a projector (its results come back projected onto persons):
        # the household population itself is taken from the simulation
        return _role_op(o, x, pop if E == 1 else pop.simulation.household)
    if o == 2:
        return pop.project(x) if E == 1 else pop.household.project(x)
    if is_proj_op(o):
        grp = pop if E == 1 else pop.simulation.household
        return grp.project(x, role=_role_of(grp.entity, o % 10))
    if o == 3:
        return np.where(x != 0, 1, 0)
    if o >= 100:
        return x * (o - 150)
    return x


def _f2(o, x, y):
    if o == 0:
        return x + y
    if o == 1:
        return x - y
    if o == 2:
        return np.minimum(x, y)
    if o == 3:
        return np.maximum(x, y)
    if o == 4:
        return np.where(x < y, 1, 0)
    if o == 5:
        return np.where(x <= y, 1, 0)
    if o == 6:
        return np.where(x == y, 1, 0)
    if o == 7:
        return np.where(x != 0, y, 0)
    if o == 8:
        return np.where(x != 0, 0, y)
    return x          # OP_FIRST and unknown codes: the first operand


class _Ctx:
    def __init__(self, case):
        self.case = case
        self.armed = set()
        self.parameters_at = None      # the `parameters` callable handed to the formula being run


def param_name(i: int, case=None) -> str:
    """parameter i: the name the case gives it (`pnames`), else top-level `p<i>`, or (odd i) `g.p<i>` inside a node"""
    names = list(getattr(case, "pnames", None) or [])
    if i < len(names):
        return names[i]
    return f"g.p{i}" if i % 2 else f"p{i}"


# keys that are also attributes of objects standing in for a parameter node (the tracing proxy keeps `tracer` and
# `parameter_node_at_instant`; a change that gives it `name` / `period` would shadow these keys when read by attribute)
PARAM_KEYS = ["g.period", "period", "g.key", "g.value", "g.tracer", "g.parameter_node_at_instant"]      # (a key `name` clobbers ParameterNode.name at HEAD: reported, not generated)


def _read_param(ctx: "_Ctx", i: int, q):
    """parameters(q).<parameter i>, with the spellings a formula may use for the instant and the access"""
    h = (i + len(ctx.case.vars)) % 3
    arg = q if h == 0 else (q.start if h == 1 else str(q.start))
    node = ctx.parameters_at(arg)
    for part in param_name(i, ctx.case).split("."):
        node = getattr(node, part) if (i + h) % 2 == 0 else node[part]
    return node


def _compile(e, E: int, ent: int, ctx: _Ctx):
    """returns f(pop, period) -> integer-valued numpy array living on entity `ent`; `pop` is the
    population of the formula's own entity E"""
    from openfisca_core.populations import ADD
    k = e[0]
    if k == "c":
        val = e[1]

        def f(pop, period, val=val):
            n = pop.count if ent == E else (pop.members.count if ent == 0 else pop.simulation.household.count)
            return np.full(n, val, dtype=np.int64)
        return f
    if k == "v":
        _, w, pt, add = e
        name = f"v{w}"

        def f(pop, period, name=name, pt=pt, add=add):
            q = _transform(pt, period)
            kw = {"options": [ADD]} if add else {}
            if ent == E:
                return _to_int_array(pop(name, q, **kw))
            if E == 1 and ent == 0:
                return _to_int_array(pop.members(name, q, **kw))
            if E == 0 and ent == 1:
                # a household variable read from a person formula under a projection with a role filter
                # (`household.project(x, role)`): the household population is taken from the simulation
                return _to_int_array(pop.simulation.household(name, q, **kw))
            raise RuntimeError("group variable read from a person formula outside a projection")
        return f
    if k == "o1" and e[1] == OP_DIVIDE and e[2][0] == "v":
        _, w, pt, _add = e[2]
        name = f"v{w}"

        def f(pop, period, name=name, pt=pt):
            from openfisca_core.populations import DIVIDE
            q = _transform(pt, period)
            if ent == E:
                x = pop(name, q, options=[DIVIDE])
            elif E == 1 and ent == 0:
                x = pop.members(name, q, options=[DIVIDE])
            elif E == 0 and ent == 1:
                x = pop.simulation.household(name, q, options=[DIVIDE])
            else:
                raise RuntimeError("group variable read from a person formula outside a projection")
            return np.floor(np.asarray(x, dtype=np.float64) if x.dtype.kind in "bi" else x).astype(np.int64)
        return f
    if k == "o1" and e[1] == OP_PARAM and e[2][0] == "v":
        _, i, pt, _add = e[2]

        def f(pop, period, i=i, pt=pt):
            val = _read_param(ctx, i, _transform(pt, period))
            n = pop.count if ent == E else (pop.members.count if ent == 0 else pop.simulation.household.count)
            return np.full(n, val, dtype=np.int64)
        return f
    if k == "o1":
        _, o, a = e
        if o == 2 and E == 0 and ent == 0 and a[0] == "o1" and a[1] == OP_DIVIDE and a[2][0] == "v":
            _, w, pt, _add = a[2]
            name = f"v{w}"

            def f(pop, period, name=name, pt=pt):
                from openfisca_core.populations import DIVIDE
                x = pop.household(name, _transform(pt, period), options=[DIVIDE])
                return np.floor(np.asarray(x, dtype=np.float64) if x.dtype.kind in "bi" else x).astype(np.int64)
            return f
        if o == 2 and E == 0 and ent == 0 and a[0] == "v":
            _, w, pt, add = a
            name = f"v{w}"

            def f(pop, period, name=name, pt=pt, add=add):
                q = _transform(pt, period)
                kw = {"options": [ADD]} if add else {}
                return _to_int_array(pop.household(name, q, **kw))
            return f
        if o == 2 and E == 0 and ent == 0 and a[0] == "o1" and is_role_op(a[1]):
            # person.household.<role operation>(...): the projector chain does the projection itself
            ro = a[1]
            fx = _compile(a[2], E, 0, ctx)

            def f(pop, period, ro=ro, fx=fx):
                return _to_int_array(np.asarray(_role_op(ro, fx(pop, period), pop.household)))
            return f
        if (20 <= o < 30 and E == 1 and a[0] == "v" and not a[3] and a[1] < len(ctx.case.vars)
                and ctx.case.vars[a[1]].vtype == "enum" and ctx.case.vars[a[1]].entity == 0):
            # household.value_from_person(<enum variable of the members>, role): the EnumArray itself goes through the
            # operation (result re-wrapped as an EnumArray, default = first item), as in `household.head("status", period)`
            _, w, pt, _add = a
            name = f"v{w}"

            def f(pop, period, o=o, name=name, pt=pt):
                raw = pop.members(name, _transform(pt, period))
                return _to_int_array(pop.value_from_person(raw, pop.entity.flattened_roles[o % 10]))
            return f
        inner_ent = 0 if (o == 1 or is_role_op(o)) else (1 if (o == 2 or is_proj_op(o)) else ent)
        fa = _compile(a, E, inner_ent, ctx)

        def f(pop, period, o=o, fa=fa):
            return _f1(o, fa(pop, period), pop, E)
        return f
    if k == "o2":
        _, o, a, b = e
        fa = _compile(a, E, ent, ctx)
        fb = _compile(b, E, ent, ctx)

        def f(pop, period, o=o, fa=fa, fb=fb):
            x = fa(pop, period)      # numpy evaluates both operands, in order
            y = fb(pop, period)
            return _f2(o, x, y)
        return f
    if k == "f":
        _, fid, a = e
        fa = _compile(a, E, ent, ctx)

        def f(pop, period, fid=fid, fa=fa):
            if fid in ctx.armed:
                raise RuntimeError(f"injected fault {fid}")
            return fa(pop, period)
        return f
    raise ValueError(e)


_RET_DTYPES = [np.float64, np.int64, np.float32, np.int32]


def build_system(case: SysCase, ctx: _Ctx | None = None):
    """-> (tbs, ctx, enum class)"""
    from openfisca_core import entities, taxbenefitsystems, variables
    from openfisca_core.indexed_enums import Enum
    from openfisca_core.periods import DateUnit
    ctx = ctx or _Ctx(case)
    person = entities.Entity("person", "persons", "", "")
    household = entities.GroupEntity("household", "households", "", "",
                                     roles=[dict(r) for r in ROLE_VARIANTS[getattr(case, "role_variant", 0)]])
    tbs = taxbenefitsystems.TaxBenefitSystem([person, household])
    E5 = Enum("E5", {f"m{i}": f"m{i}" for i in range(ENUM_SIZE)})
    vt = {"int": int, "float": float, "bool": bool, "enum": Enum, "date": dt.date, "str": str}
    def make_class(i, v):
        """the Variable class of declaration `v` for variable number i (also used to REPLACE a variable in the live system)"""
        attrs = dict(value_type=vt[v.vtype], entity=person if v.entity == 0 else household,
                     definition_period=DateUnit(v.unit))
        if v.vtype == "enum":
            attrs["possible_values"] = E5
            attrs["default_value"] = list(E5)[v.dflt]
        elif v.vtype == "date":
            attrs["default_value"] = dt.date.fromordinal(v.dflt)
        elif v.vtype == "str":
            attrs["default_value"] = f"s{v.dflt}"
        elif v.vtype == "bool":
            attrs["default_value"] = bool(v.dflt)
        elif v.vtype == "float":
            attrs["default_value"] = float(v.dflt)
        else:
            attrs["default_value"] = int(v.dflt)
        if v.end is not None:
            attrs["end"] = dt.date.fromordinal(v.end).isoformat()
        out_kind = (list(getattr(case, "outputs", None) or []) + [0] * len(case.vars))[i]
        if out_kind:
            from openfisca_core import simulations as _sims
            attrs["calculate_output"] = _sims.calculate_output_add if out_kind == 1 else _sims.calculate_output_divide
        for j, (start, e) in enumerate(v.formulas):
            engine_fault = None
            if _is_post_fail(e) and e[3][1] % 3 != 0:
                # the failure is the engine's: the formula returns a result it must refuse
                engine_fault = e[3][1]
                fe = _compile(e[2], v.entity, v.entity, ctx)
            else:
                fe = _compile(e, v.entity, v.entity, ctx)
            ret = _RET_DTYPES[(i + j) % len(_RET_DTYPES)]
            variant = (3 * i + 5 * j + len(case.vars)) % 4
            if uses_params(e) and variant % 2 == 0:
                variant += 1                          # `parameters` is the third positional argument

            def make(fe=fe, ret=ret, vtype=v.vtype, variant=variant, const=(e[1] if e[0] == "c" else None), engine_fault=engine_fault):
                def result(pop, period):
                    x = fe(pop, period)
                    if engine_fault is not None and engine_fault in ctx.armed:
                        if engine_fault % 3 == 2 and vtype in ("int", "float"):
                            return np.array(["abc"] * len(x))          # cannot be cast to the declared dtype
                        return x[:-1].astype(ret)                         # one value short
                    if vtype == "enum":            # integer indices: Simulation._cast_formula_result encodes them
                        return x.astype(np.int64)
                    if vtype == "date":            # ordinals -> dates
                        return np.datetime64("0001-01-01") + (x.astype(np.int64) - 1).astype("timedelta64[D]")
                    if vtype == "str":
                        return np.array([f"s{int(n)}" for n in x.tolist()], dtype=object)
                    if const is not None and variant == 2:
                        return ret(const)          # a scalar: _cast_formula_result fills the array
                    # results whose dtype is not the variable's: a boolean array (a comparison written in the
                    # formula of an int / float variable), a narrow integer array
                    if vtype in ("int", "float") and variant == 0 and x.size and bool(((x == 0) | (x == 1)).all()):
                        return x.astype(bool)
                    if vtype in ("int", "float") and variant == 3 and x.size and bool((abs(x) < 100).all()):
                        return x.astype(np.int8)
                    return x.astype(ret)
                if variant % 2 == 1:
                    def formula(pop, period, parameters):      # three positional arguments
                        ctx.parameters_at = parameters
                        return result(pop, period)
                else:
                    def formula(pop, period):                  # exactly two positional arguments
                        return result(pop, period)
                return formula
            formula = make()
            if start <= 1:
                fname = "formula"
            else:
                d = dt.date.fromordinal(start)
                fname = f"formula_{d.year}_{d.month:02d}_{d.day:02d}"
                # the shorter spellings of the same date: formula_YYYY, formula_YYYY_MM
                if d.day == 1 and d.month == 1 and (i + j) % 3 == 0:
                    fname = f"formula_{d.year}"
                elif d.day == 1 and (i + j) % 3 == 1:
                    fname = f"formula_{d.year}_{d.month:02d}"
            attrs[fname] = formula
        return type(f"v{i}", (variables.Variable,), attrs)
    ctx.make_class = make_class
    for i, v in enumerate(case.vars):
        tbs.add_variable(make_class(i, v))
    for i, v in enumerate(case.vars):
        if v.neutralized:
            tbs.neutralize_variable(f"v{i}")
    params = list(getattr(case, "params", None) or [])
    if params:
        from openfisca_core.parameters import ParameterNode
        data: dict = {}
        for i, tbl in enumerate(params):
            leaf = {"values": {dt.date.fromordinal(st).isoformat(): {"value": val} for st, val in tbl}}
            node = data
            parts = param_name(i, case).split(".")
            for part in parts[:-1]:
                node = node.setdefault(part, {})
            node[parts[-1]] = leaf
        tbs.parameters = ParameterNode("", data=data)
    return tbs, ctx, E5


def _is_post_fail(e) -> bool:
    return e[0] == "o2" and e[1] == OP_FIRST and e[3][0] == "f" and e[3][2] == ("c", 0)


def uses_params(e) -> bool:
    k = e[0]
    if k == "o1":
        return (e[1] == OP_PARAM and e[2][0] == "v") or uses_params(e[2])
    if k == "o2":
        return uses_params(e[2]) or uses_params(e[3])
    if k == "f":
        return uses_params(e[2])
    return False


def build_simulation(case: SysCase, tbs, E5, configure=None):
    from openfisca_core import simulations
    sim = simulations.Simulation(tbs, tbs.instantiate_entities())
    P, H = sim.persons, sim.household
    P.count = case.nP
    P.ids = [f"p{i}" for i in range(case.nP)]
    H.count = case.nG
    H.ids = [f"h{j}" for j in range(case.nG)]
    H.members_entity_id = np.array(case.mem, dtype=np.int64)
    roles = list(getattr(case, "roles", None) or [0] * case.nP)
    H.members_role = np.array([H.entity.flattened_roles[r] for r in roles], dtype=object)
    sim.max_spiral_loops = case.msl
    if configure:
        configure(sim)
    rewrite = set((getattr(case, "config", None) or {}).get("rewrite", []))
    mc = getattr(sim, "memory_config", None)
    for idx, (v, tok, vals) in enumerate(case.inputs):
        var = case.vars[v]
        if idx in rewrite:
            # the input is written twice, the LATEST value counts; under a memory configuration the first
            # write happens while memory occupation is below the threshold (it stays in memory), the
            # second one under pressure
            decoy = [(1 - x) if var.vtype == "bool" else ((x + 1) % ENUM_SIZE if var.vtype == "enum" else x + 1) for x in vals]
            saved = getattr(mc, "max_memory_occupation_pc", None)
            if mc is not None:
                mc.max_memory_occupation_pc = 101
            sim.set_input(f"v{v}", parse_period_token(tok), _input_array(var, decoy, E5))
            if mc is not None:
                mc.max_memory_occupation_pc = saved
        sim.set_input(f"v{v}", parse_period_token(tok), _input_array(var, vals, E5))
    return sim


def _input_array(var: Var, vals, E5):
    if var.vtype == "enum":
        return np.array([list(E5)[x] for x in vals], dtype=object)
    if var.vtype == "date":
        return np.array([np.datetime64(dt.date.fromordinal(x)) for x in vals], dtype="datetime64[D]")
    if var.vtype == "str":
        return np.array([f"s{x}" for x in vals], dtype=object)
    if var.vtype == "bool":
        return np.array([bool(x) for x in vals])
    if var.vtype == "float":
        return np.array([float(x) for x in vals], dtype=np.float32)
    return np.array([int(x) for x in vals], dtype=np.int32)


def canon_array(x) -> str:
    """integers as the model prints them; raises ValueError when a value is not integral"""
    ints = _to_int_array(np.asarray(x) if not hasattr(x, "dtype") else x)
    out = []
    for a in np.asarray(ints).tolist():
        if float(a) != int(a):
            raise ValueError(f"non-integral value {a}")
        out.append(str(int(a)))
    return ",".join(out)


EXACT_LIMIT = 2 ** 22


def values_too_large(out: str) -> bool:
    """some returned value is too large to be exact in float32 / int32 arithmetic (numeric policy,
    DESIGN section 4): such cases are not compared"""
    res = out.split("|")[0]
    for r in res.split(";"):
        if r.startswith("ok:") and not r.startswith("ok:~"):
            if any(abs(int(x)) >= EXACT_LIMIT for x in r[3:].split("#")[0].split("/")[0].split(",") if x):
                return True
    return False


def classify(exc: BaseException) -> str:
    from openfisca_core import errors
    if isinstance(exc, errors.CycleError):
        return "CYCLE"
    return "ERR"


def known_entries(case: SysCase, sim) -> list:
    out = []
    for i, v in enumerate(case.vars):
        if v.neutralized:
            continue
        holder = sim.get_holder(f"v{i}")
        for p in holder.get_known_periods():
            arr = holder.get_array(p)
            out.append((f"{i}@{fmt_period(p)}", canon_array(arr)))
    return sorted(set(out))


# period arguments no entry point accepts: unparsable texts, and objects of a kind that is not a period at all
BAD_PERIOD_TEXTS = ["2020-13", "2018-02-30", "month:2018-01:x", "fortnight:2018-01", "2018-W54", "month:2018-01:1:1", "", "2018-1",
                    2018.5, [2018], (1, 2), b"2018-01"]


def request_period(case: SysCase, idx: int, tok: str):
    """the period argument of the idx-th top-level request: a Period object, or (a third of the requests) the
    text a user would write -- `Simulation.calculate` accepts both -- or the year as an int"""
    p = parse_period_token(tok)
    h = (idx * 7 + len(case.vars) * 3 + case.nP) % 3
    if h == 0 and tok.startswith(("month/", "year/", "day/", "eternity/")):
        if tok.startswith("year/") and tok.endswith(",1,1/1") and idx % 2:
            return int(tok.split("/")[1].split(",")[0])
        return str(p)
    return p


UNIT_WEIGHT = {"weekday": 100, "week": 200, "day": 100, "month": 200, "year": 300, "eternity": 400}


def div_target(var: Var, tok: str):
    """DIVIDE, from the documentation of `calculate_divide` and the calendar (independent of the code): the token of
    the definition-period-long period around the start of `tok` and the number of `tok`-units it is made of; None
    when the request is not allowed (variable shorter than the period, eternal side, size other than 1)"""
    import calendar
    u, d, n = tok.split("/")
    if var.unit == "eternity" or u == "eternity" or int(n) != 1 or UNIT_WEIGHT[var.unit] < UNIT_WEIGHT[u]:
        return None
    y, m, dd = (int(x) for x in d.split(","))
    # a year is made of 52 whole weeks (365 // 7), hence of 364 weekdays; a month of 4 whole weeks, and of as many
    # weekdays as days
    if var.unit == "year":
        c = f"year/{y},1,1/1"
        den = {"year": 1, "month": 12, "day": 366 if calendar.isleap(y) else 365, "week": 52, "weekday": 364}[u]
    elif var.unit == "month":
        c = f"month/{y},{m},1/1"
        den = {"month": 1, "day": calendar.monthrange(y, m)[1], "week": 4, "weekday": calendar.monthrange(y, m)[1]}[u]
    else:
        c = f"day/{y},{m},{dd}/1"
        den = 1
    return c, den


def canon_share(res, den: int) -> str:
    """a DIVIDE result as exact numerators over the denominator: every element must be EXACTLY the quotient numpy
    computes for an integer numerator (float32 / int for a float variable, int32 / int -> float64 otherwise);
    anything else is printed as it is (and differs from the model's answer)"""
    res = np.asarray(res)
    nums = []
    for r in res.tolist():
        x = int(round(float(r) * den))
        want = (np.float32(x) / den) if res.dtype == np.float32 else (np.float64(x) / den)
        if res.dtype.type(want) != res.dtype.type(r):
            return "~" + ",".join(repr(float(v)) for v in res.tolist()) + f"/{den}"
        nums.append(str(x))
    return ",".join(nums) + f"/{den}"


def trace_log(case: SysCase, roots) -> str:
    """the calculations recorded under the given roots of the real FullTracer, chronologically (a calculation before the
    ones it opens): `<v>@<period>=<values | E>><read>+<read>...` joined by `&`.  A read the engine refuses before it
    starts (unknown variable, a period that is not one definition period long) is an `Expr.bad` in the model, which has
    no node: such leaves are left out below the root (the root itself is always listed)"""
    items = []

    def key(node):
        return f"{node.name[1:]}@{fmt_period(node.period)}"

    def refused(node):
        v = int(node.name[1:])
        if v >= len(case.vars):
            return True
        var = case.vars[v]
        return var.unit != "eternity" and (str(node.period.unit) != var.unit and getattr(node.period.unit, "value", None) != var.unit
                                           or node.period.size != 1)

    def walk(node):
        kids = [ch for ch in node.children if not (ch.value is None and not ch.children and refused(ch))]
        val = "E" if node.value is None else canon_array(node.value)
        items.append(f"{key(node)}={val}>" + "+".join(key(ch) for ch in kids))
        for ch in kids:
            walk(ch)
    for root in roots:
        walk(root)
    return "&".join(items)


def run_real(case: SysCase, configure=None, after_request=None, on_reads=None, system=None):
    """-> (protocol answer, sim, per-request dtype problems); `on_reads(sim)` answers a `reads` request; `system` is an
    already built (tbs, ctx, E5)"""
    tbs, ctx, E5 = system or build_system(case)
    sim = build_simulation(case, tbs, E5, configure)
    outs = []
    problems = []
    held = []        # (request index, the array handed out by calculate / get_array, its values at that moment)

    def rewritten():
        """an array already handed out keeps its values whatever is written to the store afterwards (a later set_input or
        computed value REPLACES the stored array, it does not overwrite the buffer earlier results and trace values share)"""
        for (idx, arr, text) in held:
            try:
                now = canon_array(arr)
            except Exception:
                now = "?"
            if now != text:
                return idx
        return None
    for r in case.reqs:
        if r[0] == "arm":
            ctx.armed.add(r[1])
            outs.append("-")
            continue
        if r[0] == "disarm":
            ctx.armed.discard(r[1])
            outs.append("-")
            continue
        if r[0] == "reads":
            outs.append(on_reads(sim) if on_reads else "T:?")
            continue
        if r[0] == "repl":
            # the declaration of a variable is replaced in the LIVE system (the cause of a failure is removed by
            # correcting the formula); values already stored stay
            tbs.replace_variable(ctx.make_class(r[1], r[2]))
            case = derive(case, vars=[(r[2] if j == r[1] else w) for j, w in enumerate(case.vars)])
            ctx.case = case
            outs.append("-")
            continue
        if r[0] == "badp":
            # a period text that cannot be parsed: an error, and the simulation is as before
            try:
                txt = BAD_PERIOD_TEXTS[(len(outs) + r[1]) % len(BAD_PERIOD_TEXTS)]
                entry = [sim.calculate_add, sim.calculate, sim.calculate_divide, sim.calculate_output][len(outs) % 4]
                res = entry(f"v{r[1]}", txt)
                o = "ok:" + canon_array(res)
            except Exception:
                o = "ERR"
            if sim.tracer.stack or sim.invalidated_caches:
                o += "#STATE"
            outs.append(o)
            continue
        if r[0] in ("get", "del", "set"):
            import warnings
            try:
                with warnings.catch_warnings():
                    warnings.simplefilter("ignore")
                    if r[0] == "get":
                        a = sim.get_array(f"v{r[1]}", request_period(case, len(outs), r[2]))
                        o = "g:none" if a is None else "g:" + canon_array(a)
                        if a is not None:
                            held.append((len(outs), a, canon_array(a)))
                    elif r[0] == "del":
                        sim.delete_arrays(f"v{r[1]}", None if r[2] == "*" else request_period(case, len(outs), r[2]))
                        o = "-"
                    else:
                        var = case.vars[r[1]] if r[1] < len(case.vars) else Var()
                        sim.set_input(f"v{r[1]}", request_period(case, len(outs), r[2]), _input_array(var, r[3], E5))
                        o = "-"
            except Exception as exc:
                o = classify(exc)
            if sim.tracer.stack or sim.invalidated_caches:
                o += "#STATE"
            if r[0] == "set" and rewritten() is not None:
                o += f"#ALIAS:{rewritten()}"
            outs.append(o)
            if after_request:
                after_request(sim, r, o)
            continue
        kind, v, tok = r
        want_log = kind == "tcalc"
        if want_log:
            kind = "calc"
            roots_before = len(sim.tracer.trees) if hasattr(sim.tracer, "trees") else None
        try:
            p = request_period(case, len(outs), tok)
            okind = (list(getattr(case, "outputs", None) or []) + [0] * (v + 1))[v] if kind == "out" else None
            if kind == "div" or okind == 2:
                res = sim.calculate_divide(f"v{v}", p) if kind == "div" else sim.calculate_output(f"v{v}", p)
                tgt = div_target(case.vars[v], tok) if v < len(case.vars) else None
                o = "ok:" + (canon_share(res, tgt[1]) if tgt else "~unexpected")
            elif kind == "out":
                res = sim.calculate_output(f"v{v}", p)
                o = "ok:" + canon_array(res)
                kind = "add" if okind == 1 else "calc"
            else:
                res = sim.calculate(f"v{v}", p) if kind == "calc" else sim.calculate_add(f"v{v}", p)
                o = "ok:" + canon_array(res)
                if kind == "calc":
                    held.append((len(outs), res, canon_array(res)))
            if (kind in ("add", "div") or okind == 2) and isinstance(res, np.ndarray) and res.dtype.kind in "iuf":
                # the array handed out by calculate_add / calculate_divide is the caller's (a sum, a quotient): overwriting
                # it must not reach any stored value (a total accumulated INTO the first sub-period's cached array, a
                # quotient computed in place, would show in the later answers and in the final store)
                res[...] = 77
            if v < len(case.vars) and kind != "div" and okind != 2:
                want = tbs.get_variable(f"v{v}").dtype
                if case.vars[v].vtype == "enum":
                    # the declared type is the enumeration; the integer width of the index array is not
                    # binding (uint8 from Enum.encode, int16 from default_array: DESIGN section 8, observations)
                    from openfisca_core.indexed_enums import EnumArray
                    if not (isinstance(res, EnumArray) and res.possible_values is E5 and res.dtype.kind in "iu") and kind != "add":
                        problems.append(f"request {r}: {type(res).__name__} of dtype {getattr(res, 'dtype', None)} is not an EnumArray of the declared enumeration")
                elif getattr(res, "dtype", None) != want and not (kind == "add"):
                    problems.append(f"request {r}: dtype {getattr(res, 'dtype', None)} != declared {want}")
        except Exception as exc:  # the implementation's error, classified
            o = classify(exc)
        if sim.tracer.stack or sim.invalidated_caches:
            o += "#STATE"
        if want_log:
            o += "#L:" + (trace_log(case, sim.tracer.trees[roots_before:]) if roots_before is not None else "?")
        outs.append(o)
        if after_request:
            after_request(sim, r, o)
    if outs and rewritten() is not None and not any("#ALIAS" in o for o in outs):
        outs[-1] += f"#ALIAS:{rewritten()}"
    try:
        known = ",".join(f"{k}={v}" for k, v in known_entries(case, sim))
    except Exception as exc:     # a stored value that cannot be read back
        known = f"#UNREADABLE:{type(exc).__name__}: {str(exc)[:120]}"
    return ";".join(outs) + "|" + known, sim, problems


# --------------------------------------------------------------------------------------
# generators

MONTHS = ["month/2017,12,1/1", "month/2018,1,1/1", "month/2018,2,1/1", "month/2018,3,1/1", "month/2018,4,1/1"]
YEARS = ["year/2017,1,1/1", "year/2018,1,1/1"]
DAYS = ["day/2018,1,1/1", "day/2018,1,31/1", "day/2018,2,1/1", "day/2017,12,31/1"]
WEEKS = ["weekday/2018,1,31/1", "weekday/2017,12,31/1", "week/2018,1,1/1", "week/2018,1,29/1"]     # DIVIDE requests only
POOL = {"month": MONTHS, "year": YEARS, "day": DAYS, "eternity": ["eternity/-1,-1,-1/-1"]}
REQ_POOL = {"month": MONTHS, "year": YEARS, "day": DAYS, "eternity": MONTHS[:2] + YEARS[:1] + DAYS[:1]}
STARTS = [1, 1, 1, dt.date(2017, 1, 1).toordinal(), dt.date(2018, 1, 1).toordinal(), dt.date(2018, 2, 1).toordinal(),
          dt.date(2018, 1, 15).toordinal(), dt.date(2018, 3, 1).toordinal()]
ENDS = [None, None, None, dt.date(2017, 12, 31).toordinal(), dt.date(2018, 1, 31).toordinal(), dt.date(2018, 2, 15).toordinal(),
        # an end that IS the first day of a requested period (the variable is still in force on that day)
        dt.date(2018, 2, 1).toordinal(), dt.date(2018, 1, 1).toordinal()]


CLAMP = {"enum": (0, ENUM_SIZE - 1), "date": (1, 400), "str": (0, 9)}


def compatible(target_unit: str, caller_unit: str) -> list:
    """(transform, add) pairs producing a valid request for a variable of `target_unit` from a
    formula running for a period of `caller_unit`"""
    if caller_unit == "eternity":
        # an eternal variable's formula must not depend on the period it happens to be requested for:
        # it reads other eternal variables, or dated variables at FIXED periods
        if target_unit == "eternity":
            return [("same", False)]
        out = [("fx:" + tok, False) for tok in POOL.get(target_unit, [])[:3]]
        if target_unit == "month":
            out.append(("fx:year/2017,1,1/1", True))
        return out
    out = []
    if target_unit in ("month", "year", "day"):
        out.append(("fx:" + POOL[target_unit][0], False))
    if target_unit == "eternity":
        out += [("same", False), ("this_year", False)]
    if target_unit == "year":
        out += [("this_year", False), ("last_year", False)] + ([("same", False)] if caller_unit == "year" else [])
    if target_unit == "month":
        if caller_unit == "year":
            out += [("first_month", False), ("same", True), ("last_month", False)]
        if caller_unit == "month":
            out += [("same", False), ("first_month", False), ("last_month", False), ("off:-2:month", False), ("off:1:month", False)]
        if caller_unit == "day":
            out += [("first_month", False), ("last_month", False)]
    if target_unit == "day":
        if caller_unit == "day":
            out += [("same", False), ("off:-1:day", False)]
        if caller_unit == "month":
            out += [("same", True)]
    return out


def _compat(var, caller_unit):
    """enum and date variables are never summed over time (their values are not amounts)"""
    cs = compatible(var.unit, caller_unit)
    if var.vtype in ("enum", "date", "str"):
        cs = [c for c in cs if not c[1]]
    return cs


def population(rng):
    nP = rng.randint(1, 6)
    nG = rng.randint(1, min(3, nP))
    mem = list(range(nG)) + [rng.randrange(nG) for _ in range(nP - nG)]   # every group has a member
    rng.shuffle(mem)
    return nP, nG, mem


def gen_roles(rng, nP, nG, mem) -> list:
    """roles respecting their maxima: at most one head (unique role) and two parents per household"""
    roles = [0] * nP
    for g in range(nG):
        ms = [i for i in range(nP) if mem[i] == g]
        rng.shuffle(ms)
        if ms and rng.random() < 0.65:
            roles[ms.pop()] = UNIQUE_ROLE
        for _ in range(rng.randint(0, 2)):
            if ms and rng.random() < 0.6:
                roles[ms.pop()] = 1
    return roles


ROLE_OPS = [10, 11, 12, 20 + UNIQUE_ROLE, 30, 31, 32, 40, 41, 42,
            50, 51, 52, 50 + NO_ROLE, 60, 61, 62, 60 + NO_ROLE, 70, 71, 72, 70 + NO_ROLE]
ROLE_OPS_ON = [True]     # spiral systems keep to the plain operations (gen_case switches it)


def _role_wrap(o, a):
    """`any` is defined on boolean arrays: its operand is made 0/1 first"""
    return ("o1", o, ("o1", 3, a)) if 40 <= o < 50 else ("o1", o, a)


def compatible_divide(target_unit: str, caller_unit: str) -> list:
    """period transforms under which `population(w, pt(period), options=[DIVIDE])` is a valid request for a variable of
    `target_unit` from a formula running for a period of `caller_unit` (the requested period is one unit long and not
    longer than the variable's definition period)"""
    if caller_unit == "eternity":
        if target_unit == "year":
            return ["fx:" + t for t in (MONTHS[1], YEARS[1], DAYS[0])]
        if target_unit == "month":
            return ["fx:" + t for t in (MONTHS[1], DAYS[1])]
        return ["fx:" + DAYS[0]] if target_unit == "day" else []
    if target_unit == "year":
        return {"year": ["same", "last_year", "this_year"], "month": ["same", "last_month", "first_month", "off:-2:month", "this_year"],
                "day": ["same", "off:-1:day", "first_month", "this_year"]}[caller_unit]
    if target_unit == "month":
        return {"year": ["first_month", "last_month"], "month": ["same", "last_month", "off:1:month"], "day": ["same", "first_month", "off:-1:day"]}[caller_unit]
    if target_unit == "day":
        return ["same", "off:-1:day"] if caller_unit == "day" else []
    return []


# what the extended generator may add (`features`): "divide" DIVIDE reads, "params" parameter reads,
# "post_fail" failures after the dependencies completed (needs fault_ids)
FEATURES = [None]      # set by gen_case for the duration of one generation (None = the plain language)


def _feature_atom(rng, vars_, ent, caller_unit, allowed, fault_ids, nparams):
    """a DIVIDE read or a parameter read, or None"""
    feat = FEATURES[0]
    u = rng.random()
    if "divide" in feat and u < 0.12:
        cands = [j for j in range(len(vars_)) if allowed(j) and vars_[j].vtype in ("int", "float", "bool")
                 and compatible_divide(vars_[j].unit, caller_unit)]
        same = [j for j in cands if vars_[j].entity == ent]
        if rng.random() < 0.04:
            # a DIVIDE request the code refuses: a variable shorter than the requested period, or an eternal one
            bad = [j for j in range(len(vars_)) if allowed(j) and vars_[j].entity == ent
                   and (UNIT_WEIGHT[vars_[j].unit] < UNIT_WEIGHT.get(caller_unit, 0) or vars_[j].unit == "eternity")]
            if bad and caller_unit != "eternity":
                return ("o1", OP_DIVIDE, ("v", rng.choice(bad), "same", False))
            # ... or an ADD request the code refuses: a variable longer than the requested period, or an eternal one
            bad = [j for j in range(len(vars_)) if allowed(j) and vars_[j].entity == ent
                   and (UNIT_WEIGHT[vars_[j].unit] > UNIT_WEIGHT.get(caller_unit, 999) or vars_[j].unit == "eternity")]
            if bad and caller_unit != "eternity":
                return ("v", rng.choice(bad), "same", True)
        if same and rng.random() < 0.75:
            j = rng.choice(same)
            return ("o1", OP_DIVIDE, ("v", j, rng.choice(compatible_divide(vars_[j].unit, caller_unit)), False))
        other = [j for j in cands if vars_[j].entity != ent]
        if other:
            j = rng.choice(other)
            inner = ("o1", OP_DIVIDE, ("v", j, rng.choice(compatible_divide(vars_[j].unit, caller_unit)), False))
            return ("o1", 2, inner) if ent == 0 else ("o1", 1, inner)
        return None
    if "params" in feat and nparams and 0.12 <= u < 0.24:
        i = rng.randrange(nparams)
        if caller_unit == "eternity":
            pt = "fx:" + rng.choice(MONTHS + YEARS)
        else:
            pt = rng.choice(["same", "same", "same", "this_year", "last_year", "first_month", "last_month"])
        if rng.random() < 0.02:
            i = nparams + 2                       # a parameter that does not exist
        return ("o1", OP_PARAM, ("v", i, pt, False))
    return None


def rand_expr(rng, vars_, i, depth, ent, caller_unit, allowed, fault_ids=None, bad_rate=0.0):
    """expression on entity `ent` for variable i; `allowed(j)` says whether variable j may be read"""
    def atom():
        if FEATURES[0]:
            fa = _feature_atom(rng, vars_, ent, caller_unit, allowed, fault_ids, FEATURES[0].get("nparams", 0))
            if fa is not None:
                return fa
        cands = [j for j in range(len(vars_)) if allowed(j) and vars_[j].entity == ent and _compat(vars_[j], caller_unit)]
        if bad_rate and rng.random() < bad_rate:
            if rng.random() < 0.5:
                return ("v", len(vars_) + 3, "same", False)                   # unknown variable
            js = [j for j in range(len(vars_)) if allowed(j) and vars_[j].entity == ent and vars_[j].unit in ("month", "year")]
            if js and caller_unit in ("month", "year"):
                j = rng.choice(js)
                return ("v", j, "this_year" if vars_[j].unit == "month" else "first_month", False)   # wrong unit
        if cands and rng.random() < 0.75:
            j = rng.choice(cands)
            pt, add = rng.choice(_compat(vars_[j], caller_unit))
            return ("v", j, pt, add)
        # cross-entity atoms
        other = [j for j in range(len(vars_)) if allowed(j) and vars_[j].entity != ent and _compat(vars_[j], caller_unit)]
        if other and rng.random() < 0.6:
            j = rng.choice(other)
            pt, add = rng.choice(_compat(vars_[j], caller_unit))
            if ent == 0:
                return ("o1", 2, ("v", j, pt, add))           # person.household(var)
            return ("o1", 1, ("v", j, pt, add))               # household.sum(members(var))
        return ("c", rng.randint(-9, 9))
    if depth <= 0 or rng.random() < 0.25:
        e = atom()
    else:
        k = rng.random()
        if k < 0.55:
            e = ("o2", rng.choice([0, 0, 1, 2, 3, 4, 5, 6]), rand_expr(rng, vars_, i, depth - 1, ent, caller_unit, allowed, fault_ids, bad_rate),
                 rand_expr(rng, vars_, i, depth - 1, ent, caller_unit, allowed, fault_ids, bad_rate))
        elif k < 0.7:
            c = rand_expr(rng, vars_, i, depth - 1, ent, caller_unit, allowed, fault_ids, bad_rate)
            a = rand_expr(rng, vars_, i, depth - 1, ent, caller_unit, allowed, fault_ids, bad_rate)
            b = rand_expr(rng, vars_, i, depth - 1, ent, caller_unit, allowed, fault_ids, bad_rate)
            e = ("o2", 0, ("o2", 7, c, a), ("o2", 8, c, b))      # where(c, a, b); c evaluated twice (pure)
        elif k < 0.85:
            e = ("o1", rng.choice([0, 3, 150 + rng.choice([-2, 2, 3])]), rand_expr(rng, vars_, i, depth - 1, ent, caller_unit, allowed, fault_ids, bad_rate))
        elif ent == 1:
            # sum over members, or a role operation (role-filtered sum, the head's value, count, any)
            o = 1 if rng.random() < 0.5 or not ROLE_OPS_ON[0] else rng.choice(ROLE_OPS)
            e = _role_wrap(o, rand_expr(rng, vars_, i, depth - 1, 0, caller_unit, allowed, fault_ids, bad_rate))
        elif ROLE_OPS_ON[0] and rng.random() < 0.5:
            # person.household.<role operation>(...): the household's answer projected back onto its members
            e = ("o1", 2, _role_wrap(rng.choice(ROLE_OPS), rand_expr(rng, vars_, i, depth - 1, 0, caller_unit, allowed, fault_ids, bad_rate)))
        else:
            e = atom()
    if fault_ids is not None and rng.random() < 0.15:
        fid = len(fault_ids)
        fault_ids.append(fid)
        if FEATURES[0] and "post_fail" in FEATURES[0] and rng.random() < 0.4:
            e = ("o2", OP_FIRST, e, ("f", fid, ("c", 0)))       # the failure comes AFTER the dependencies completed
        else:
            e = ("f", fid, e)
    return e


def gen_vars(rng, n, spiral=False, cycle=False, fault_ids=None, bad_rate=0.0, units=None):
    vars_: list = []
    for i in range(n):
        unit = rng.choice(units or ["month", "month", "month", "year", "year", "day", "eternity"])
        ent = 0 if rng.random() < 0.7 else 1
        vtype = rng.choice(["int", "float", "float", "bool", "enum", "date", "str"]) if not spiral else rng.choice(["int", "float"])
        dflt = {"int": rng.randint(-3, 5), "float": rng.randint(-3, 5), "bool": rng.randint(0, 1), "enum": rng.randrange(ENUM_SIZE),
                "date": rng.randint(1, 60), "str": rng.randint(0, 9)}[vtype]
        v = Var(entity=ent, vtype=vtype, unit=unit, dflt=dflt)
        vars_.append(v)
    for i, v in enumerate(vars_):
        if v.vtype in ("enum", "date", "str"):
            # inputs / defaults, or one undated formula whose integer result is clamped into the type's range
            # (enum index, date ordinal, number of the string "s<n>")
            if i > 0 and rng.random() < 0.5:
                lo, hi = CLAMP[v.vtype]
                e = rand_expr(rng, vars_, i, rng.randint(0, 2), v.entity, v.unit, (lambda j, i=i: j < i), fault_ids, bad_rate)
                v.formulas.append((1, ("o2", 2, ("o2", 3, e, ("c", lo)), ("c", hi))))
            continue
        nf = rng.choice([0, 1, 1, 1, 2, 3]) if i > 0 or spiral else 0
        if v.unit == "eternity":
            nf = min(nf, 1)
        starts = sorted(rng.sample(STARTS[2:], min(nf, len(STARTS) - 2))) if nf else []
        if nf and (rng.random() < 0.6 or v.unit == "eternity"):
            starts[0] = 1
        if spiral:
            allowed = (lambda j: True)
        else:
            allowed = (lambda j, i=i: j < i)
        for s in starts:
            e = rand_expr(rng, vars_, i, rng.randint(0, 3), v.entity, v.unit, allowed, fault_ids, bad_rate)
            v.formulas.append((s, e))
        if v.unit != "eternity" and v.formulas and rng.random() < 0.3:
            v.end = rng.choice(ENDS)
            if v.end is not None and max(s for s, _ in v.formulas) > v.end:
                v.end = None
        v.neutralized = rng.random() < 0.06 and not spiral
    if spiral:
        # force cross-period self-dependencies: month variables reading each other at last_month / offsets,
        # and (40%) one eternal variable E = c + k * X@<fixed month> that month variables read back
        for i, v in enumerate(vars_):
            v.unit = "month"
            v.end = None
        eternal_idx = rng.randrange(len(vars_)) if len(vars_) >= 2 and rng.random() < 0.4 else None
        if eternal_idx is not None:
            vars_[eternal_idx].unit = "eternity"
        for i, v in enumerate(vars_):
            v.formulas = []
            terms = []
            if v.unit == "eternity":
                js = [j for j in range(len(vars_)) if vars_[j].entity == v.entity and vars_[j].unit == "month"]
                for j in rng.sample(js, min(len(js), rng.randint(1, 2))):
                    terms.append(("v", j, "fx:" + rng.choice(MONTHS[:3]), False))
            else:
              for _ in range(rng.randint(1, 3)):
                if eternal_idx is not None and vars_[eternal_idx].entity == v.entity and rng.random() < 0.35:
                    terms.append(("v", eternal_idx, "same", False))
                    continue
                if i > 0 and rng.random() < 0.5:
                    j = rng.randrange(0, i)
                    if vars_[j].entity == v.entity and vars_[j].unit == "month":
                        terms.append(("v", j, "same", False))
                        continue
                js = [j for j in range(len(vars_)) if vars_[j].entity == v.entity and vars_[j].unit == "month"]
                if not js:
                    continue
                j = rng.choice(js)
                # mostly backwards in time (a quasi-circular definition); sometimes forwards, which can close a
                # TRUE cycle through another period of the same variable (v@03 -> v@02 -> w@02 -> v@03)
                terms.append(("v", j, rng.choice(["last_month", "last_month", "off:-2:month", "last_month", "off:-2:month", "off:1:month"]), False))
            e = ("c", rng.randint(1, 7))
            for t in terms:
                if fault_ids is not None and FEATURES[0] and "spiral_faults" in FEATURES[0] and rng.random() < 0.25:
                    # a failure point inside the spiral: before the read, or after it completed
                    fid = len(fault_ids)
                    fault_ids.append(fid)
                    t = ("f", fid, t) if rng.random() < 0.5 else ("o2", OP_FIRST, t, ("f", fid, ("c", 0)))
                e = ("o2", 0, e, ("o1", 150 + rng.choice([1, 1, 1, 2]), t))
            v.formulas.append((1, e))
    if cycle:
        # inject one true cycle between two same-unit, same-entity variables
        pairs = [(a, b) for a in range(len(vars_)) for b in range(len(vars_)) if a <= b and vars_[a].unit == vars_[b].unit
                 and vars_[a].entity == vars_[b].entity and vars_[a].unit != "eternity" and vars_[a].vtype in ("int", "float", "bool")
                 and vars_[b].vtype in ("int", "float", "bool")]
        if pairs:
            a, b = rng.choice(pairs)
            vars_[a].formulas = [(1, ("o2", 0, ("c", 1), ("v", b, "same", False)))]
            vars_[a].neutralized = False
            vars_[a].end = None
            if a != b:
                vars_[b].formulas = [(1, ("o2", 1, ("v", a, "same", False), ("c", 2)))]
                vars_[b].neutralized = False
                vars_[b].end = None
    return vars_


def gen_inputs(rng, vars_, nP, nG, rate=0.25):
    inputs = []
    for i, v in enumerate(vars_):
        for tok in POOL[v.unit]:
            if rng.random() < rate:
                n = nP if v.entity == 0 else nG
                if v.vtype == "bool":
                    vals = [rng.randint(0, 1) for _ in range(n)]
                elif v.vtype == "enum":
                    vals = [rng.randrange(ENUM_SIZE) for _ in range(n)]
                elif v.vtype == "date":
                    vals = [rng.randint(1, 400) for _ in range(n)]      # dates of year 1-2: small ordinals stay exact in float32 sums
                elif v.vtype == "str":
                    vals = [rng.randint(0, 30) for _ in range(n)]
                else:
                    vals = [rng.randint(-5, 40) for _ in range(n)]
                inputs.append((i, tok, vals))
    return inputs


def gen_requests(rng, vars_, k, wrong=0.08, add=0.12):
    reqs = []
    for _ in range(k):
        i = rng.randrange(len(vars_))
        v = vars_[i]
        r = rng.random()
        if r < wrong:
            other = rng.choice([u for u in ("month", "year", "day") if u != v.unit])
            tok = rng.choice(POOL[other])
            if rng.random() < 0.3 and v.unit != "eternity":
                tok = rng.choice(POOL[v.unit])[:-1] + "2"      # size 2
            reqs.append(("calc", i, tok))
        elif r < wrong + add and v.unit in ("month", "day") and v.vtype not in ("enum", "date", "str"):
            tok = rng.choice(["year/2018,1,1/1", "month/2018,1,1/3", "month/2017,12,1/2"] if v.unit == "month" else ["month/2018,1,1/1", "day/2018,1,30/3"])
            reqs.append(("add", i, tok))
        else:
            reqs.append(("calc", i, rng.choice(REQ_POOL[v.unit])))
    return reqs


PARAM_STARTS = [dt.date(2015, 1, 1).toordinal(), dt.date(2017, 1, 1).toordinal(), dt.date(2017, 7, 1).toordinal(), dt.date(2018, 1, 1).toordinal(),
                dt.date(2018, 1, 15).toordinal(), dt.date(2018, 2, 1).toordinal(), dt.date(2018, 3, 1).toordinal()]


def gen_params(rng) -> list:
    """1-4 dated parameters, each with 1-3 values; most are defined from 2015 on, some only from a date inside the
    requested range (reading them earlier raises ParameterNotFoundError)"""
    out = []
    for _ in range(rng.randint(1, 4)):
        starts = sorted(rng.sample(PARAM_STARTS[1:], rng.randint(1, 3)))
        if rng.random() < 0.7:
            starts[0] = PARAM_STARTS[0]
        tbl = [(st, rng.randint(-4, 9)) for st in starts]
        rng.shuffle(tbl)
        out.append(tbl)
    return out


def gen_case(rng, kind="ranked", msl=1, nreq=None, fault_ids=None, bad_rate=0.0, features=None) -> SysCase:
    """`features` (a set of names, see FEATURES) switches the extended language on; without it the generator
    draws exactly what it always drew (C11 and the older streams depend on it)"""
    nP, nG, mem = population(rng)
    n = rng.randint(3, 9) if kind != "spiral" else rng.randint(2, 5)
    params = gen_params(rng) if features and "params" in features else []
    ROLE_OPS_ON[0] = kind != "spiral"
    FEATURES[0] = dict({f: 1 for f in features}, nparams=len(params)) if features else None
    try:
        vars_ = gen_vars(rng, n, spiral=(kind == "spiral"), cycle=(kind == "cycle"), fault_ids=fault_ids, bad_rate=bad_rate)
    finally:
        ROLE_OPS_ON[0] = True
        FEATURES[0] = None
    inputs = gen_inputs(rng, vars_, nP, nG, rate=0.12 if kind == "spiral" else 0.25)
    reqs = gen_requests(rng, vars_, nreq or rng.randint(3, 8), wrong=0.0 if kind == "spiral" else 0.08)
    if features and "requests" in features:
        reqs = extend_requests(rng, vars_, reqs, nP, nG, inputs, mutate="mutate" in features)
    roles = gen_roles(rng, nP, nG, mem) if kind != "spiral" and rng.random() < 0.8 else []
    outputs = []
    if features and "requests" in features:
        outputs = [(rng.choice([0, 0, 1, 2]) if v.vtype in ("int", "float", "bool") and v.unit != "eternity" else 0) for v in vars_]
    pnames = []
    if params and rng.random() < 0.5:
        # half of the parameter trees use keys that collide with attribute names of node-like objects
        first = rng.choice(["g.period", "period"])
        keys = ([first] + rng.sample([k for k in PARAM_KEYS if k != first], len(PARAM_KEYS) - 1))[:len(params)]
        rng.shuffle(keys)
        pnames = [(keys[i] if rng.random() < 0.7 else param_name(i)) for i in range(len(params))]
    return SysCase(nP, nG, mem, msl, vars_, inputs, reqs, roles=roles, params=params, outputs=outputs, pnames=pnames)


def gen_values(rng, v: Var, n: int) -> list:
    if v.vtype == "bool":
        return [rng.randint(0, 1) for _ in range(n)]
    if v.vtype == "enum":
        return [rng.randrange(ENUM_SIZE) for _ in range(n)]
    if v.vtype == "date":
        return [rng.randint(1, 400) for _ in range(n)]
    if v.vtype == "str":
        return [rng.randint(0, 30) for _ in range(n)]
    return [rng.randint(-5, 40) for _ in range(n)]


def extend_requests(rng, vars_, reqs, nP, nG, inputs=(), mutate=False):
    """the other top-level entry points mixed into a request sequence: calculate_divide (valid and refused), requests for
    a variable that does not exist, get_array (never computes), delete_arrays of COMPUTED values (they are recomputed);
    with `mutate`: set_input and delete_arrays of inputs between requests (the inputs are no longer fixed)"""
    out = []
    with_input = {iv for (iv, _, _) in inputs}
    has_formula = [i for i, v in enumerate(vars_) if v.formulas and not v.neutralized and i not in with_input]
    for r in reqs:
        out.append(r)
        u = rng.random()
        i = rng.randrange(len(vars_))
        v = vars_[i]
        if u < 0.18 and v.vtype in ("int", "float", "bool"):
            pool = {"year": MONTHS + YEARS + DAYS + WEEKS, "month": MONTHS + DAYS + WEEKS, "day": DAYS + WEEKS[:2], "eternity": MONTHS}[v.unit]
            tok = rng.choice(pool)
            if rng.random() < 0.08:
                tok = rng.choice(YEARS + ["month/2018,1,1/2", "eternity/-1,-1,-1/-1"])     # mostly refused
            out.append(("div", i, tok))
        elif u < 0.24:
            out.append((rng.choice(["calc", "add", "div", "get", "out"]), len(vars_) + rng.randint(0, 3), rng.choice(MONTHS)))
        elif u < 0.30:
            # calculate_add the guards refuse (a period shorter than the definition period, an eternal variable, the
            # eternal period), or calculate_output (it forwards to calculate / calculate_add / calculate_divide)
            if rng.random() < 0.5:
                out.append(("add", i, rng.choice({"year": MONTHS + DAYS, "month": DAYS, "day": ["eternity/-1,-1,-1/-1"],
                                                  "eternity": MONTHS + YEARS}[v.unit] + ["eternity/-1,-1,-1/-1"])))
            else:
                out.append(("out", i, rng.choice(REQ_POOL[v.unit] + YEARS + MONTHS[:2] + DAYS[:1])))
        elif u < 0.40:
            out.append(("get", i, rng.choice(REQ_POOL[v.unit] if rng.random() < 0.8 else MONTHS + YEARS)))
        elif u < 0.50 and has_formula:
            j = rng.choice(has_formula)
            w = vars_[j]
            tok = rng.choice(REQ_POOL[w.unit] + (YEARS if w.unit in ("month", "day") else []) + ["*"])
            out.append(("del", j, tok))
        elif mutate and u < 0.62:
            n = nP if v.entity == 0 else nG
            tok = rng.choice(POOL[v.unit] if rng.random() < 0.85 else YEARS + MONTHS[:1] + DAYS[:1] + POOL["eternity"])
            out.append(("set", i, tok, gen_values(rng, v, n)))
        elif mutate and u < 0.68:
            out.append(("del", i, rng.choice(POOL[v.unit] + ["*"])))
    return out
