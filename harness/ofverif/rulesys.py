"""Declarative rule systems for the engine properties (C01, C02, C17, C18, C11).

One description, two interpreters: `to_line` serialises it for the Lean model driver
(`ofdrv_sim`, protocol in lean/OFCore/OFCore/Drv/Sim.lean); `build` turns it into a REAL
openfisca tax-benefit system (Variable classes whose formulas are closures over the public
`population(...)`, `household.sum(...)`, `person.household(...)` API) and a real Simulation.
"""
from __future__ import annotations

import datetime as dt
import random
from dataclasses import dataclass, field

import numpy as np

from .perutil import fmt_date, fmt_period, parse_period_token

# expression tuples: ("c", k) | ("v", w, pt, add) | ("o1", o, a) | ("o2", o, a, b) | ("f", id, a)
# pt: "same" | "this_year" | "first_month" | "last_month" | "last_year" | "off:<n>:<unit>"

ENUM_SIZE = 5


@dataclass
class Var:
    entity: int = 0            # 0 person, 1 household
    vtype: str = "int"         # int float bool enum date
    unit: str = "month"
    dflt: int = 0
    neutralized: bool = False
    end: int | None = None     # ordinal
    no_store: bool = False
    formulas: list = field(default_factory=list)   # [(start_ordinal, expr)]


@dataclass
class SysCase:
    nP: int
    nG: int
    mem: list
    msl: int
    vars: list
    inputs: list               # [(v, period_token, [values])]
    reqs: list                 # [("calc"|"add", v, token) | ("arm"|"disarm", id)]
    config: dict = field(default_factory=dict)   # trace, memory, priority, drop, blacklist ... (implementation side only)
    roles: list = field(default_factory=list)    # role index of each person in its household (empty = everybody role 0); see ROLES
    role_variant: int = 0                        # which role table the household entity is built with (ROLE_VARIANTS); role
                                                 # indices always refer to the entity's FLATTENED roles


def derive(c: "SysCase", **changes) -> "SysCase":
    """a copy of the case with some fields replaced (population, roles and everything else kept)"""
    import dataclasses
    return dataclasses.replace(c, **changes)


def expr_tokens(e) -> list:
    k = e[0]
    if k == "c":
        return ["c", str(e[1])]
    if k == "v":
        return ["v", str(e[1]), e[2], "1" if e[3] else "0"]
    if k == "o1":
        return ["o1", str(e[1])] + expr_tokens(e[2])
    if k == "o2":
        return ["o2", str(e[1])] + expr_tokens(e[2]) + expr_tokens(e[3])
    if k == "f":
        return ["f", str(e[1])] + expr_tokens(e[2])
    raise ValueError(e)


def to_line(c: SysCase, no_store_override=None) -> str:
    roles = list(getattr(c, "roles", None) or [])
    t = (["sim", "P", str(c.nP), "G", str(c.nG), "M"] + [str(m) for m in c.mem]
         + (["RL"] + [str(r) for r in roles] if roles else [])          # optional field: absent = everybody role 0
         + ["MSL", str(c.msl), "V", str(len(c.vars))])
    for i, v in enumerate(c.vars):
        ns = v.no_store if no_store_override is None else no_store_override(i, v)
        t += [str(v.entity), v.vtype, v.unit, str(v.dflt), "1" if v.neutralized else "0",
              "-" if v.end is None else str(v.end), "1" if ns else "0", "F", str(len(v.formulas))]
        for start, e in v.formulas:
            t += [str(start)] + expr_tokens(e)
    t += ["I", str(len(c.inputs))]
    for v, tok, vals in c.inputs:
        t += [str(v), tok] + [str(x) for x in vals]
    t += ["R", str(len(c.reqs))]
    for r in c.reqs:
        t += [r[0]] + [str(x) for x in r[1:]]
    return " ".join(t)


# --------------------------------------------------------------------------------------
# real system


def _transform(pt: str, period):
    from openfisca_core.periods import DateUnit
    if pt == "same":
        return period
    if pt == "this_year":
        return period.this_year
    if pt == "first_month":
        return period.first_month
    if pt == "last_month":
        return period.last_month
    if pt == "last_year":
        return period.last_year
    if pt.startswith("fx:"):
        return parse_period_token(pt[3:])
    _, n, u = pt.split(":")
    return period.offset(int(n), DateUnit(u))


def _to_int_array(x):
    """what a formula sees of a variable, as integers (bool -> 0/1, enum -> index, date -> ordinal)"""
    from openfisca_core.indexed_enums import EnumArray
    if isinstance(x, EnumArray):
        return np.asarray(x.view(np.ndarray)).astype(np.int64)
    if x.dtype.kind in ("O", "U", "S"):          # str variables: "s<n>" <-> n
        return np.array([int((v.decode() if isinstance(v, bytes) else str(v))[1:]) for v in x.tolist()], dtype=np.int64)
    if x.dtype.kind == "M":
        return (x.astype("datetime64[D]") - np.datetime64("0001-01-01")).astype(np.int64) + 1
    if x.dtype.kind == "b":
        return x.astype(np.int64)
    if x.dtype.kind == "f":
        return x.astype(np.float64)
    return x.astype(np.int64)


# roles of the household entity, by index: 0 plain member (no maximum), 1 parent (at most 2), 2 head (unique)
ROLES = [{"key": "member", "plural": "members"}, {"key": "parent", "plural": "parents", "max": 2},
         {"key": "head", "plural": "heads", "max": 1}]
UNIQUE_ROLE = 2
# variant 1: the FIRST role has sub-roles; flattened roles: 0 first_parent, 1 second_parent (each unique), 2 member, 3 head (unique)
ROLES_SUB = [{"key": "parent", "plural": "parents", "subroles": ["first_parent", "second_parent"]},
             {"key": "member", "plural": "members"}, {"key": "head", "plural": "heads", "max": 1}]
ROLE_VARIANTS = [ROLES, ROLES_SUB]
NO_ROLE = 9          # role digit of the reductions 50-79 meaning "no role filter"


def is_role_op(o: int) -> bool:
    """role operations: 10+r sum(x, role), 20+r value_from_person(x, role), 30+r nb_persons(role), 40+r any(x, role),
    50+r max(x, role), 60+r min(x, role), 70+r all(x, role); for 50-79 r = 9 means no role filter; max / min of a
    household without holder are 0 (instead of -inf / +inf), all is 1"""
    return 10 <= o < 80


TOP_ROLE = 8         # role digit meaning "the entity's first top-level role" (with sub-roles: matches the holders of any of them)


def is_proj_op(o: int) -> bool:
    """80+r: household.project(x, role): a household vector onto the members holding role r, 0 for the others"""
    return 80 <= o < 90


def _role_of(entity, digit: int):
    """role digit -> role object: a flattened role; 9 = no filter (None); 8 = the first top-level role"""
    if digit == NO_ROLE:
        return None
    if digit == TOP_ROLE:
        return entity.roles[0]
    return entity.flattened_roles[digit]


def _role_op(o, x, grp):
    """`grp`: the household population, or (person formula) the projector `person.household`, whose
    results are projected back onto the persons"""
    role = _role_of(grp.entity, o % 10)
    if o < 20:
        return grp.sum(x, role=role)
    if o < 30:
        return grp.value_from_person(x, role)            # raises unless the role is unique
    if o < 40:
        return grp.nb_persons(role=role)
    if o < 50:
        return np.where(grp.any(x, role=role), 1, 0)
    if o < 70:
        # the -inf / +inf of a household without holder never reaches an integer cast
        red = grp.max(x, role=role) if o < 60 else grp.min(x, role=role)
        return np.where(grp.nb_persons(role=role) > 0, red, 0)
    return np.where(grp.all(x, role=role), 1, 0)


def _f1(o, x, pop, E):
    if o == 0:
        return -x
    if o == 1:
        return (pop if E == 1 else pop.simulation.household).sum(x)
    if is_role_op(o):
        # in a person formula `pop.household` is a projector (its results come back projected onto persons):
        # the household population itself is taken from the simulation
        return _role_op(o, x, pop if E == 1 else pop.simulation.household)
    if o == 2:
        return pop.project(x) if E == 1 else pop.household.project(x)
    if is_proj_op(o):
        grp = pop if E == 1 else pop.simulation.household
        return grp.project(x, role=_role_of(grp.entity, o % 10))
    if o == 3:
        return np.where(x != 0, 1, 0)
    if o >= 100:
        return x * (o - 150)
    return x


def _f2(o, x, y):
    if o == 0:
        return x + y
    if o == 1:
        return x - y
    if o == 2:
        return np.minimum(x, y)
    if o == 3:
        return np.maximum(x, y)
    if o == 4:
        return np.where(x < y, 1, 0)
    if o == 5:
        return np.where(x <= y, 1, 0)
    if o == 6:
        return np.where(x == y, 1, 0)
    if o == 7:
        return np.where(x != 0, y, 0)
    if o == 8:
        return np.where(x != 0, 0, y)
    return x


class _Ctx:
    def __init__(self, case):
        self.case = case
        self.armed = set()


def _compile(e, E: int, ent: int, ctx: _Ctx):
    """returns f(pop, period) -> integer-valued numpy array living on entity `ent`; `pop` is the
    population of the formula's own entity E"""
    from openfisca_core.populations import ADD
    k = e[0]
    if k == "c":
        val = e[1]

        def f(pop, period, val=val):
            n = pop.count if ent == E else (pop.members.count if ent == 0 else pop.simulation.household.count)
            return np.full(n, val, dtype=np.int64)
        return f
    if k == "v":
        _, w, pt, add = e
        name = f"v{w}"

        def f(pop, period, name=name, pt=pt, add=add):
            q = _transform(pt, period)
            kw = {"options": [ADD]} if add else {}
            if ent == E:
                return _to_int_array(pop(name, q, **kw))
            if E == 1 and ent == 0:
                return _to_int_array(pop.members(name, q, **kw))
            if E == 0 and ent == 1:
                # a household variable read from a person formula under a projection with a role filter
                # (`household.project(x, role)`): the household population is taken from the simulation
                return _to_int_array(pop.simulation.household(name, q, **kw))
            raise RuntimeError("group variable read from a person formula outside a projection")
        return f
    if k == "o1":
        _, o, a = e
        if o == 2 and E == 0 and ent == 0 and a[0] == "v":
            _, w, pt, add = a
            name = f"v{w}"

            def f(pop, period, name=name, pt=pt, add=add):
                q = _transform(pt, period)
                kw = {"options": [ADD]} if add else {}
                return _to_int_array(pop.household(name, q, **kw))
            return f
        if o == 2 and E == 0 and ent == 0 and a[0] == "o1" and is_role_op(a[1]):
            # person.household.<role operation>(...): the projector chain does the projection itself
            ro = a[1]
            fx = _compile(a[2], E, 0, ctx)

            def f(pop, period, ro=ro, fx=fx):
                return _to_int_array(np.asarray(_role_op(ro, fx(pop, period), pop.household)))
            return f
        if (20 <= o < 30 and E == 1 and a[0] == "v" and not a[3] and a[1] < len(ctx.case.vars)
                and ctx.case.vars[a[1]].vtype == "enum" and ctx.case.vars[a[1]].entity == 0):
            # household.value_from_person(<enum variable of the members>, role): the EnumArray itself goes through the
            # operation (result re-wrapped as an EnumArray, default = first item), as in `household.head("status", period)`
            _, w, pt, _add = a
            name = f"v{w}"

            def f(pop, period, o=o, name=name, pt=pt):
                raw = pop.members(name, _transform(pt, period))
                return _to_int_array(pop.value_from_person(raw, pop.entity.flattened_roles[o % 10]))
            return f
        inner_ent = 0 if (o == 1 or is_role_op(o)) else (1 if (o == 2 or is_proj_op(o)) else ent)
        fa = _compile(a, E, inner_ent, ctx)

        def f(pop, period, o=o, fa=fa):
            return _f1(o, fa(pop, period), pop, E)
        return f
    if k == "o2":
        _, o, a, b = e
        fa = _compile(a, E, ent, ctx)
        fb = _compile(b, E, ent, ctx)

        def f(pop, period, o=o, fa=fa, fb=fb):
            x = fa(pop, period)      # numpy evaluates both operands, in order
            y = fb(pop, period)
            return _f2(o, x, y)
        return f
    if k == "f":
        _, fid, a = e
        fa = _compile(a, E, ent, ctx)

        def f(pop, period, fid=fid, fa=fa):
            if fid in ctx.armed:
                raise RuntimeError(f"injected fault {fid}")
            return fa(pop, period)
        return f
    raise ValueError(e)


_RET_DTYPES = [np.float64, np.int64, np.float32, np.int32]


def build_system(case: SysCase, ctx: _Ctx | None = None):
    """-> (tbs, ctx, enum class)"""
    from openfisca_core import entities, taxbenefitsystems, variables
    from openfisca_core.indexed_enums import Enum
    from openfisca_core.periods import DateUnit
    ctx = ctx or _Ctx(case)
    person = entities.Entity("person", "persons", "", "")
    household = entities.GroupEntity("household", "households", "", "",
                                     roles=[dict(r) for r in ROLE_VARIANTS[getattr(case, "role_variant", 0)]])
    tbs = taxbenefitsystems.TaxBenefitSystem([person, household])
    E5 = Enum("E5", {f"m{i}": f"m{i}" for i in range(ENUM_SIZE)})
    vt = {"int": int, "float": float, "bool": bool, "enum": Enum, "date": dt.date, "str": str}
    for i, v in enumerate(case.vars):
        attrs = dict(value_type=vt[v.vtype], entity=person if v.entity == 0 else household,
                     definition_period=DateUnit(v.unit))
        if v.vtype == "enum":
            attrs["possible_values"] = E5
            attrs["default_value"] = list(E5)[v.dflt]
        elif v.vtype == "date":
            attrs["default_value"] = dt.date.fromordinal(v.dflt)
        elif v.vtype == "str":
            attrs["default_value"] = f"s{v.dflt}"
        elif v.vtype == "bool":
            attrs["default_value"] = bool(v.dflt)
        elif v.vtype == "float":
            attrs["default_value"] = float(v.dflt)
        else:
            attrs["default_value"] = int(v.dflt)
        if v.end is not None:
            attrs["end"] = dt.date.fromordinal(v.end).isoformat()
        for j, (start, e) in enumerate(v.formulas):
            fe = _compile(e, v.entity, v.entity, ctx)
            ret = _RET_DTYPES[(i + j) % len(_RET_DTYPES)]
            variant = (3 * i + 5 * j + len(case.vars)) % 4

            def make(fe=fe, ret=ret, vtype=v.vtype, variant=variant, const=(e[1] if e[0] == "c" else None)):
                def result(pop, period):
                    x = fe(pop, period)
                    if vtype == "enum":            # integer indices: Simulation._cast_formula_result encodes them
                        return x.astype(np.int64)
                    if vtype == "date":            # ordinals -> dates
                        return np.datetime64("0001-01-01") + (x.astype(np.int64) - 1).astype("timedelta64[D]")
                    if vtype == "str":
                        return np.array([f"s{int(n)}" for n in x.tolist()], dtype=object)
                    if const is not None and variant == 2:
                        return ret(const)          # a scalar: _cast_formula_result fills the array
                    # results whose dtype is not the variable's: a boolean array (a comparison written in the
                    # formula of an int / float variable), a narrow integer array
                    if vtype in ("int", "float") and variant == 0 and x.size and bool(((x == 0) | (x == 1)).all()):
                        return x.astype(bool)
                    if vtype in ("int", "float") and variant == 3 and x.size and bool((abs(x) < 100).all()):
                        return x.astype(np.int8)
                    return x.astype(ret)
                if variant % 2 == 1:
                    def formula(pop, period, parameters):      # three positional arguments
                        return result(pop, period)
                else:
                    def formula(pop, period):                  # exactly two positional arguments
                        return result(pop, period)
                return formula
            formula = make()
            if start <= 1:
                fname = "formula"
            else:
                d = dt.date.fromordinal(start)
                fname = f"formula_{d.year}_{d.month:02d}_{d.day:02d}"
                # the shorter spellings of the same date: formula_YYYY, formula_YYYY_MM
                if d.day == 1 and d.month == 1 and (i + j) % 3 == 0:
                    fname = f"formula_{d.year}"
                elif d.day == 1 and (i + j) % 3 == 1:
                    fname = f"formula_{d.year}_{d.month:02d}"
            attrs[fname] = formula
        tbs.add_variable(type(f"v{i}", (variables.Variable,), attrs))
    for i, v in enumerate(case.vars):
        if v.neutralized:
            tbs.neutralize_variable(f"v{i}")
    return tbs, ctx, E5


def build_simulation(case: SysCase, tbs, E5, configure=None):
    from openfisca_core import simulations
    sim = simulations.Simulation(tbs, tbs.instantiate_entities())
    P, H = sim.persons, sim.household
    P.count = case.nP
    P.ids = [f"p{i}" for i in range(case.nP)]
    H.count = case.nG
    H.ids = [f"h{j}" for j in range(case.nG)]
    H.members_entity_id = np.array(case.mem, dtype=np.int64)
    roles = list(getattr(case, "roles", None) or [0] * case.nP)
    H.members_role = np.array([H.entity.flattened_roles[r] for r in roles], dtype=object)
    sim.max_spiral_loops = case.msl
    if configure:
        configure(sim)
    rewrite = set((getattr(case, "config", None) or {}).get("rewrite", []))
    mc = getattr(sim, "memory_config", None)
    for idx, (v, tok, vals) in enumerate(case.inputs):
        var = case.vars[v]
        if idx in rewrite:
            # the input is written twice, the LATEST value counts; under a memory configuration the first
            # write happens while memory occupation is below the threshold (it stays in memory), the
            # second one under pressure
            decoy = [(1 - x) if var.vtype == "bool" else ((x + 1) % ENUM_SIZE if var.vtype == "enum" else x + 1) for x in vals]
            saved = getattr(mc, "max_memory_occupation_pc", None)
            if mc is not None:
                mc.max_memory_occupation_pc = 101
            sim.set_input(f"v{v}", parse_period_token(tok), _input_array(var, decoy, E5))
            if mc is not None:
                mc.max_memory_occupation_pc = saved
        sim.set_input(f"v{v}", parse_period_token(tok), _input_array(var, vals, E5))
    return sim


def _input_array(var: Var, vals, E5):
    if var.vtype == "enum":
        return np.array([list(E5)[x] for x in vals], dtype=object)
    if var.vtype == "date":
        return np.array([np.datetime64(dt.date.fromordinal(x)) for x in vals], dtype="datetime64[D]")
    if var.vtype == "str":
        return np.array([f"s{x}" for x in vals], dtype=object)
    if var.vtype == "bool":
        return np.array([bool(x) for x in vals])
    if var.vtype == "float":
        return np.array([float(x) for x in vals], dtype=np.float32)
    return np.array([int(x) for x in vals], dtype=np.int32)


def canon_array(x) -> str:
    """integers as the model prints them; raises ValueError when a value is not integral"""
    ints = _to_int_array(np.asarray(x) if not hasattr(x, "dtype") else x)
    out = []
    for a in np.asarray(ints).tolist():
        if float(a) != int(a):
            raise ValueError(f"non-integral value {a}")
        out.append(str(int(a)))
    return ",".join(out)


EXACT_LIMIT = 2 ** 22


def values_too_large(out: str) -> bool:
    """some returned value is too large to be exact in float32 / int32 arithmetic (numeric policy,
    DESIGN section 4): such cases are not compared"""
    res = out.split("|")[0]
    for r in res.split(";"):
        if r.startswith("ok:"):
            if any(abs(int(x)) >= EXACT_LIMIT for x in r[3:].split("#")[0].split(",") if x):
                return True
    return False


def classify(exc: BaseException) -> str:
    from openfisca_core import errors
    if isinstance(exc, errors.CycleError):
        return "CYCLE"
    return "ERR"


def known_entries(case: SysCase, sim) -> list:
    out = []
    for i, v in enumerate(case.vars):
        if v.neutralized:
            continue
        holder = sim.get_holder(f"v{i}")
        for p in holder.get_known_periods():
            arr = holder.get_array(p)
            out.append((f"{i}@{fmt_period(p)}", canon_array(arr)))
    return sorted(set(out))


BAD_PERIOD_TEXTS = ["2020-13", "2018-02-30", "month:2018-01:x", "fortnight:2018-01", "2018-W54", "month:2018-01:1:1", "", "2018-1"]


def request_period(case: SysCase, idx: int, tok: str):
    """the period argument of the idx-th top-level request: a Period object, or (a third of the requests) the
    text a user would write -- `Simulation.calculate` accepts both -- or the year as an int"""
    p = parse_period_token(tok)
    h = (idx * 7 + len(case.vars) * 3 + case.nP) % 3
    if h == 0 and tok.startswith(("month/", "year/", "day/", "eternity/")):
        if tok.startswith("year/") and tok.endswith(",1,1/1") and idx % 2:
            return int(tok.split("/")[1].split(",")[0])
        return str(p)
    return p


def run_real(case: SysCase, configure=None, after_request=None):
    """-> (protocol answer, sim, per-request dtype problems)"""
    tbs, ctx, E5 = build_system(case)
    sim = build_simulation(case, tbs, E5, configure)
    outs = []
    problems = []
    for r in case.reqs:
        if r[0] == "arm":
            ctx.armed.add(r[1])
            outs.append("-")
            continue
        if r[0] == "disarm":
            ctx.armed.discard(r[1])
            outs.append("-")
            continue
        if r[0] == "reads":
            outs.append("T:?")
            continue
        if r[0] == "badp":
            # a period text that cannot be parsed: an error, and the simulation is as before
            try:
                txt = BAD_PERIOD_TEXTS[(len(outs) + r[1]) % len(BAD_PERIOD_TEXTS)]
                res = sim.calculate(f"v{r[1]}", txt) if len(outs) % 2 else sim.calculate_add(f"v{r[1]}", txt)
                o = "ok:" + canon_array(res)
            except Exception:
                o = "ERR"
            if sim.tracer.stack or sim.invalidated_caches:
                o += "#STATE"
            outs.append(o)
            continue
        kind, v, tok = r
        try:
            p = request_period(case, len(outs), tok)
            res = sim.calculate(f"v{v}", p) if kind == "calc" else sim.calculate_add(f"v{v}", p)
            o = "ok:" + canon_array(res)
            if v < len(case.vars):
                want = tbs.get_variable(f"v{v}").dtype
                if case.vars[v].vtype == "enum":
                    # the declared type is the enumeration; the integer width of the index array is not
                    # binding (uint8 from Enum.encode, int16 from default_array: DESIGN section 8, observations)
                    from openfisca_core.indexed_enums import EnumArray
                    if not (isinstance(res, EnumArray) and res.possible_values is E5 and res.dtype.kind in "iu") and kind != "add":
                        problems.append(f"request {r}: {type(res).__name__} of dtype {getattr(res, 'dtype', None)} is not an EnumArray of the declared enumeration")
                elif getattr(res, "dtype", None) != want and not (kind == "add"):
                    problems.append(f"request {r}: dtype {getattr(res, 'dtype', None)} != declared {want}")
        except Exception as exc:  # the implementation's error, classified
            o = classify(exc)
        if sim.tracer.stack or sim.invalidated_caches:
            o += "#STATE"
        outs.append(o)
        if after_request:
            after_request(sim, r, o)
    known = ",".join(f"{k}={v}" for k, v in known_entries(case, sim))
    return ";".join(outs) + "|" + known, sim, problems


# --------------------------------------------------------------------------------------
# generators

MONTHS = ["month/2017,12,1/1", "month/2018,1,1/1", "month/2018,2,1/1", "month/2018,3,1/1", "month/2018,4,1/1"]
YEARS = ["year/2017,1,1/1", "year/2018,1,1/1"]
DAYS = ["day/2018,1,1/1", "day/2018,1,31/1", "day/2018,2,1/1", "day/2017,12,31/1"]
POOL = {"month": MONTHS, "year": YEARS, "day": DAYS, "eternity": ["eternity/-1,-1,-1/-1"]}
REQ_POOL = {"month": MONTHS, "year": YEARS, "day": DAYS, "eternity": MONTHS[:2] + YEARS[:1] + DAYS[:1]}
STARTS = [1, 1, 1, dt.date(2017, 1, 1).toordinal(), dt.date(2018, 1, 1).toordinal(), dt.date(2018, 2, 1).toordinal(),
          dt.date(2018, 1, 15).toordinal(), dt.date(2018, 3, 1).toordinal()]
ENDS = [None, None, None, dt.date(2017, 12, 31).toordinal(), dt.date(2018, 1, 31).toordinal(), dt.date(2018, 2, 15).toordinal(),
        # an end that IS the first day of a requested period (the variable is still in force on that day)
        dt.date(2018, 2, 1).toordinal(), dt.date(2018, 1, 1).toordinal()]


CLAMP = {"enum": (0, ENUM_SIZE - 1), "date": (1, 400), "str": (0, 9)}


def compatible(target_unit: str, caller_unit: str) -> list:
    """(transform, add) pairs producing a valid request for a variable of `target_unit` from a
    formula running for a period of `caller_unit`"""
    if caller_unit == "eternity":
        # an eternal variable's formula must not depend on the period it happens to be requested for:
        # it reads other eternal variables, or dated variables at FIXED periods
        if target_unit == "eternity":
            return [("same", False)]
        out = [("fx:" + tok, False) for tok in POOL.get(target_unit, [])[:3]]
        if target_unit == "month":
            out.append(("fx:year/2017,1,1/1", True))
        return out
    out = []
    if target_unit in ("month", "year", "day"):
        out.append(("fx:" + POOL[target_unit][0], False))
    if target_unit == "eternity":
        out += [("same", False), ("this_year", False)]
    if target_unit == "year":
        out += [("this_year", False), ("last_year", False)] + ([("same", False)] if caller_unit == "year" else [])
    if target_unit == "month":
        if caller_unit == "year":
            out += [("first_month", False), ("same", True), ("last_month", False)]
        if caller_unit == "month":
            out += [("same", False), ("first_month", False), ("last_month", False), ("off:-2:month", False), ("off:1:month", False)]
        if caller_unit == "day":
            out += [("first_month", False), ("last_month", False)]
    if target_unit == "day":
        if caller_unit == "day":
            out += [("same", False), ("off:-1:day", False)]
        if caller_unit == "month":
            out += [("same", True)]
    return out


def _compat(var, caller_unit):
    """enum and date variables are never summed over time (their values are not amounts)"""
    cs = compatible(var.unit, caller_unit)
    if var.vtype in ("enum", "date", "str"):
        cs = [c for c in cs if not c[1]]
    return cs


def population(rng):
    nP = rng.randint(1, 6)
    nG = rng.randint(1, min(3, nP))
    mem = list(range(nG)) + [rng.randrange(nG) for _ in range(nP - nG)]   # every group has a member
    rng.shuffle(mem)
    return nP, nG, mem


def gen_roles(rng, nP, nG, mem) -> list:
    """roles respecting their maxima: at most one head (unique role) and two parents per household"""
    roles = [0] * nP
    for g in range(nG):
        ms = [i for i in range(nP) if mem[i] == g]
        rng.shuffle(ms)
        if ms and rng.random() < 0.65:
            roles[ms.pop()] = UNIQUE_ROLE
        for _ in range(rng.randint(0, 2)):
            if ms and rng.random() < 0.6:
                roles[ms.pop()] = 1
    return roles


ROLE_OPS = [10, 11, 12, 20 + UNIQUE_ROLE, 30, 31, 32, 40, 41, 42,
            50, 51, 52, 50 + NO_ROLE, 60, 61, 62, 60 + NO_ROLE, 70, 71, 72, 70 + NO_ROLE]
ROLE_OPS_ON = [True]     # spiral systems keep to the plain operations (gen_case switches it)


def _role_wrap(o, a):
    """`any` is defined on boolean arrays: its operand is made 0/1 first"""
    return ("o1", o, ("o1", 3, a)) if 40 <= o < 50 else ("o1", o, a)


def rand_expr(rng, vars_, i, depth, ent, caller_unit, allowed, fault_ids=None, bad_rate=0.0):
    """expression on entity `ent` for variable i; `allowed(j)` says whether variable j may be read"""
    def atom():
        cands = [j for j in range(len(vars_)) if allowed(j) and vars_[j].entity == ent and _compat(vars_[j], caller_unit)]
        if bad_rate and rng.random() < bad_rate:
            if rng.random() < 0.5:
                return ("v", len(vars_) + 3, "same", False)                   # unknown variable
            js = [j for j in range(len(vars_)) if allowed(j) and vars_[j].entity == ent and vars_[j].unit in ("month", "year")]
            if js and caller_unit in ("month", "year"):
                j = rng.choice(js)
                return ("v", j, "this_year" if vars_[j].unit == "month" else "first_month", False)   # wrong unit
        if cands and rng.random() < 0.75:
            j = rng.choice(cands)
            pt, add = rng.choice(_compat(vars_[j], caller_unit))
            return ("v", j, pt, add)
        # cross-entity atoms
        other = [j for j in range(len(vars_)) if allowed(j) and vars_[j].entity != ent and _compat(vars_[j], caller_unit)]
        if other and rng.random() < 0.6:
            j = rng.choice(other)
            pt, add = rng.choice(_compat(vars_[j], caller_unit))
            if ent == 0:
                return ("o1", 2, ("v", j, pt, add))           # person.household(var)
            return ("o1", 1, ("v", j, pt, add))               # household.sum(members(var))
        return ("c", rng.randint(-9, 9))
    if depth <= 0 or rng.random() < 0.25:
        e = atom()
    else:
        k = rng.random()
        if k < 0.55:
            e = ("o2", rng.choice([0, 0, 1, 2, 3, 4, 5, 6]), rand_expr(rng, vars_, i, depth - 1, ent, caller_unit, allowed, fault_ids, bad_rate),
                 rand_expr(rng, vars_, i, depth - 1, ent, caller_unit, allowed, fault_ids, bad_rate))
        elif k < 0.7:
            c = rand_expr(rng, vars_, i, depth - 1, ent, caller_unit, allowed, fault_ids, bad_rate)
            a = rand_expr(rng, vars_, i, depth - 1, ent, caller_unit, allowed, fault_ids, bad_rate)
            b = rand_expr(rng, vars_, i, depth - 1, ent, caller_unit, allowed, fault_ids, bad_rate)
            e = ("o2", 0, ("o2", 7, c, a), ("o2", 8, c, b))      # where(c, a, b); c evaluated twice (pure)
        elif k < 0.85:
            e = ("o1", rng.choice([0, 3, 150 + rng.choice([-2, 2, 3])]), rand_expr(rng, vars_, i, depth - 1, ent, caller_unit, allowed, fault_ids, bad_rate))
        elif ent == 1:
            # sum over members, or a role operation (role-filtered sum, the head's value, count, any)
            o = 1 if rng.random() < 0.5 or not ROLE_OPS_ON[0] else rng.choice(ROLE_OPS)
            e = _role_wrap(o, rand_expr(rng, vars_, i, depth - 1, 0, caller_unit, allowed, fault_ids, bad_rate))
        elif ROLE_OPS_ON[0] and rng.random() < 0.5:
            # person.household.<role operation>(...): the household's answer projected back onto its members
            e = ("o1", 2, _role_wrap(rng.choice(ROLE_OPS), rand_expr(rng, vars_, i, depth - 1, 0, caller_unit, allowed, fault_ids, bad_rate)))
        else:
            e = atom()
    if fault_ids is not None and rng.random() < 0.15:
        fid = len(fault_ids)
        fault_ids.append(fid)
        e = ("f", fid, e)
    return e


def gen_vars(rng, n, spiral=False, cycle=False, fault_ids=None, bad_rate=0.0, units=None):
    vars_: list = []
    for i in range(n):
        unit = rng.choice(units or ["month", "month", "month", "year", "year", "day", "eternity"])
        ent = 0 if rng.random() < 0.7 else 1
        vtype = rng.choice(["int", "float", "float", "bool", "enum", "date", "str"]) if not spiral else rng.choice(["int", "float"])
        dflt = {"int": rng.randint(-3, 5), "float": rng.randint(-3, 5), "bool": rng.randint(0, 1), "enum": rng.randrange(ENUM_SIZE),
                "date": rng.randint(1, 60), "str": rng.randint(0, 9)}[vtype]
        v = Var(entity=ent, vtype=vtype, unit=unit, dflt=dflt)
        vars_.append(v)
    for i, v in enumerate(vars_):
        if v.vtype in ("enum", "date", "str"):
            # inputs / defaults, or one undated formula whose integer result is clamped into the type's range
            # (enum index, date ordinal, number of the string "s<n>")
            if i > 0 and rng.random() < 0.5:
                lo, hi = CLAMP[v.vtype]
                e = rand_expr(rng, vars_, i, rng.randint(0, 2), v.entity, v.unit, (lambda j, i=i: j < i), fault_ids, bad_rate)
                v.formulas.append((1, ("o2", 2, ("o2", 3, e, ("c", lo)), ("c", hi))))
            continue
        nf = rng.choice([0, 1, 1, 1, 2, 3]) if i > 0 or spiral else 0
        if v.unit == "eternity":
            nf = min(nf, 1)
        starts = sorted(rng.sample(STARTS[2:], min(nf, len(STARTS) - 2))) if nf else []
        if nf and (rng.random() < 0.6 or v.unit == "eternity"):
            starts[0] = 1
        if spiral:
            allowed = (lambda j: True)
        else:
            allowed = (lambda j, i=i: j < i)
        for s in starts:
            e = rand_expr(rng, vars_, i, rng.randint(0, 3), v.entity, v.unit, allowed, fault_ids, bad_rate)
            v.formulas.append((s, e))
        if v.unit != "eternity" and v.formulas and rng.random() < 0.3:
            v.end = rng.choice(ENDS)
            if v.end is not None and max(s for s, _ in v.formulas) > v.end:
                v.end = None
        v.neutralized = rng.random() < 0.06 and not spiral
    if spiral:
        # force cross-period self-dependencies: month variables reading each other at last_month / offsets,
        # and (40%) one eternal variable E = c + k * X@<fixed month> that month variables read back
        for i, v in enumerate(vars_):
            v.unit = "month"
            v.end = None
        eternal_idx = rng.randrange(len(vars_)) if len(vars_) >= 2 and rng.random() < 0.4 else None
        if eternal_idx is not None:
            vars_[eternal_idx].unit = "eternity"
        for i, v in enumerate(vars_):
            v.formulas = []
            terms = []
            if v.unit == "eternity":
                js = [j for j in range(len(vars_)) if vars_[j].entity == v.entity and vars_[j].unit == "month"]
                for j in rng.sample(js, min(len(js), rng.randint(1, 2))):
                    terms.append(("v", j, "fx:" + rng.choice(MONTHS[:3]), False))
            else:
              for _ in range(rng.randint(1, 3)):
                if eternal_idx is not None and vars_[eternal_idx].entity == v.entity and rng.random() < 0.35:
                    terms.append(("v", eternal_idx, "same", False))
                    continue
                if i > 0 and rng.random() < 0.5:
                    j = rng.randrange(0, i)
                    if vars_[j].entity == v.entity and vars_[j].unit == "month":
                        terms.append(("v", j, "same", False))
                        continue
                js = [j for j in range(len(vars_)) if vars_[j].entity == v.entity and vars_[j].unit == "month"]
                if not js:
                    continue
                j = rng.choice(js)
                # mostly backwards in time (a quasi-circular definition); sometimes forwards, which can close a
                # TRUE cycle through another period of the same variable (v@03 -> v@02 -> w@02 -> v@03)
                terms.append(("v", j, rng.choice(["last_month", "last_month", "off:-2:month", "last_month", "off:-2:month", "off:1:month"]), False))
            e = ("c", rng.randint(1, 7))
            for t in terms:
                e = ("o2", 0, e, ("o1", 150 + rng.choice([1, 1, 1, 2]), t))
            v.formulas.append((1, e))
    if cycle:
        # inject one true cycle between two same-unit, same-entity variables
        pairs = [(a, b) for a in range(len(vars_)) for b in range(len(vars_)) if a <= b and vars_[a].unit == vars_[b].unit
                 and vars_[a].entity == vars_[b].entity and vars_[a].unit != "eternity" and vars_[a].vtype in ("int", "float", "bool")
                 and vars_[b].vtype in ("int", "float", "bool")]
        if pairs:
            a, b = rng.choice(pairs)
            vars_[a].formulas = [(1, ("o2", 0, ("c", 1), ("v", b, "same", False)))]
            vars_[a].neutralized = False
            vars_[a].end = None
            if a != b:
                vars_[b].formulas = [(1, ("o2", 1, ("v", a, "same", False), ("c", 2)))]
                vars_[b].neutralized = False
                vars_[b].end = None
    return vars_


def gen_inputs(rng, vars_, nP, nG, rate=0.25):
    inputs = []
    for i, v in enumerate(vars_):
        for tok in POOL[v.unit]:
            if rng.random() < rate:
                n = nP if v.entity == 0 else nG
                if v.vtype == "bool":
                    vals = [rng.randint(0, 1) for _ in range(n)]
                elif v.vtype == "enum":
                    vals = [rng.randrange(ENUM_SIZE) for _ in range(n)]
                elif v.vtype == "date":
                    vals = [rng.randint(1, 400) for _ in range(n)]      # dates of year 1-2: small ordinals stay exact in float32 sums
                elif v.vtype == "str":
                    vals = [rng.randint(0, 30) for _ in range(n)]
                else:
                    vals = [rng.randint(-5, 40) for _ in range(n)]
                inputs.append((i, tok, vals))
    return inputs


def gen_requests(rng, vars_, k, wrong=0.08, add=0.12):
    reqs = []
    for _ in range(k):
        i = rng.randrange(len(vars_))
        v = vars_[i]
        r = rng.random()
        if r < wrong:
            other = rng.choice([u for u in ("month", "year", "day") if u != v.unit])
            tok = rng.choice(POOL[other])
            if rng.random() < 0.3 and v.unit != "eternity":
                tok = rng.choice(POOL[v.unit])[:-1] + "2"      # size 2
            reqs.append(("calc", i, tok))
        elif r < wrong + add and v.unit in ("month", "day") and v.vtype not in ("enum", "date", "str"):
            tok = rng.choice(["year/2018,1,1/1", "month/2018,1,1/3", "month/2017,12,1/2"] if v.unit == "month" else ["month/2018,1,1/1", "day/2018,1,30/3"])
            reqs.append(("add", i, tok))
        else:
            reqs.append(("calc", i, rng.choice(REQ_POOL[v.unit])))
    return reqs


def gen_case(rng, kind="ranked", msl=1, nreq=None, fault_ids=None, bad_rate=0.0) -> SysCase:
    nP, nG, mem = population(rng)
    n = rng.randint(3, 9) if kind != "spiral" else rng.randint(2, 5)
    ROLE_OPS_ON[0] = kind != "spiral"
    try:
        vars_ = gen_vars(rng, n, spiral=(kind == "spiral"), cycle=(kind == "cycle"), fault_ids=fault_ids, bad_rate=bad_rate)
    finally:
        ROLE_OPS_ON[0] = True
    inputs = gen_inputs(rng, vars_, nP, nG, rate=0.12 if kind == "spiral" else 0.25)
    reqs = gen_requests(rng, vars_, nreq or rng.randint(3, 8), wrong=0.0 if kind == "spiral" else 0.08)
    roles = gen_roles(rng, nP, nG, mem) if kind != "spiral" and rng.random() < 0.8 else []
    return SysCase(nP, nG, mem, msl, vars_, inputs, reqs, roles=roles)
