"""Shared helpers for the web-API / YAML-test domain (C20): a programmatic tax-benefit system with
variables of every value type on person + household, the independent engine run, the token
serialisation of JSON / expectation trees used on the protocol lines, and per-test outcomes of
`run_tests`.

Nothing here imports openfisca at module import time (the generators' pure parts are usable
without the package); `system()` builds the real objects lazily.
"""
from __future__ import annotations

import datetime
import functools
import os
from fractions import Fraction

ENUM_NAMES = ["owner", "tenant", "free_lodger", "homeless"]
TYPES = ["int", "float", "bool", "str", "strn", "date", "enum"]
MAXLEN = 5

# name -> (entity, value type token, definition period, is_input)
VARS: dict = {}
for _e, _pre in (("person", "p"), ("household", "h")):
    for _t in TYPES:
        VARS[f"{_pre}_{_t}"] = (_e, "str" if _t == "strn" else _t, "eternity" if _t == "date" else "month", True)
    for _t in TYPES:
        VARS[f"{_pre}_f_{_t}"] = (_e, "str" if _t == "strn" else _t, "month", False)
VARS["p_y_float"] = ("person", "float", "year", True)
VARS["p_y_sum"] = ("person", "float", "year", False)
VARS["p_d_int"] = ("person", "int", "day", True)
VARS["h_y_int"] = ("household", "int", "year", True)
VARS["h_e_float"] = ("household", "float", "eternity", True)
VARS["p_dated"] = ("person", "float", "month", False)
VARS["h_f_nb"] = ("household", "int", "month", False)
VARS["h_f_sum"] = ("household", "float", "month", False)
VARS["h_f_par"] = ("household", "float", "month", False)
VARS["p_spiral"] = ("person", "int", "month", False)      # reads itself one month earlier: depends on max_spiral_loops
EXT_VARS = {"p_ext": ("person", "int", "month", False)}   # added by the extension package ofverif.apiext
# non-default default values (household inputs); person inputs keep the defaults of their types
DEFAULTS = {"h_int": 7, "h_float": 1.5, "h_bool": True, "h_str": "dflt", "h_strn": "dfl", "h_date": "2000-01-02", "h_enum": "owner"}
REFORM = "ofverif.apireform.OfvReform"       # p_f_int = 3 * p_int + 1 instead of 2 * p_int + 1
EXTENSION = "ofverif.apiext"
BOUNDED = {"p_strn", "h_strn", "p_f_strn", "h_f_strn"}     # str variables with max_length

PLURAL = {"person": "persons", "household": "households"}
PARAM_DATA = {
    "taxes": {
        "rate": {"description": "a rate", "values": {"2010-01-01": {"value": 0.25}, "2015-01-01": {"value": 0.5},
                                                       "2019-01-01": {"value": None}, "2020-06-01": {"value": 0.125}}},
        "amount": {"values": {"2012-06-01": {"value": 100}, "2017-03-15": {"value": 250}}},
        "flag": {"values": {"2000-01-01": {"value": True}, "2016-01-01": {"value": False}}},
        "scale": {"brackets": [
            {"threshold": {"2010-01-01": {"value": 0}}, "rate": {"2010-01-01": {"value": 0.125}, "2016-01-01": {"value": 0.25}}},
            {"threshold": {"2010-01-01": {"value": 1000}, "2018-01-01": {"value": 2000}}, "rate": {"2010-01-01": {"value": 0.5}}},
        ]},
        "sub": {"description": "a node", "documentation": "  node documentation  ", "metadata": {"unit": "currency"},
                "deep": {"values": {"2011-01-01": {"value": 7}, "2014-01-01": {"expected": 8}, "2016-01-01": "expected"},
                         "documentation": " deep doc ", "metadata": {"unit": "/1", "reference": "https://example.org/deep"}}},
        "stopped": {"brackets": [
            {"threshold": {"2010-01-01": {"value": 0}, "2016-01-01": {"value": None}},
             "amount": {"2010-01-01": {"value": 10}, "2013-01-01": {"value": 12}, "2016-01-01": {"value": None}}},
            {"threshold": {"2012-06-01": {"value": 500}, "2016-01-01": {"value": None}},
             "amount": {"2012-06-01": {"value": 20}, "2016-01-01": {"value": None}}},
        ]},
    },
}


@functools.lru_cache(maxsize=None)
def entities_():
    from openfisca_core import entities
    person = entities.Entity("person", "persons", "A person", "  Documentation of a person.  ")
    household = entities.GroupEntity("household", "households", "A household", "Documentation of a household.", roles=[
        {"key": "adult", "plural": "adults", "doc": "the adults", "max": 2}, {"key": "child", "plural": "children"}])
    return person, household


@functools.lru_cache(maxsize=None)
def system(param_seed: int | None = None, variant: str = ""):
    """The real tax-benefit system (built once per process). `variant` ("", "reform", "ext",
    "reform+ext") builds DIRECTLY the system a YAML test designates with `reforms:` / `extensions:`
    (without Reform / load_extension): the independent engine run uses it."""
    import logging
    logging.disable(logging.CRITICAL)
    import numpy as np
    from openfisca_core import populations, taxbenefitsystems, variables
    from openfisca_core.indexed_enums import Enum
    from openfisca_core.parameters import ParameterNode
    from openfisca_core.periods import DateUnit as U

    person, household = entities_()
    ents = {"person": person, "household": household}

    class Occ(Enum):
        owner = "Owner"
        tenant = "Tenant"
        free_lodger = "Free lodger"
        homeless = "Homeless"

    py = {"int": int, "float": float, "bool": bool, "str": str, "date": datetime.date, "enum": Enum}
    unit = {"month": U.MONTH, "year": U.YEAR, "eternity": U.ETERNITY, "day": U.DAY}
    D1, D2 = np.datetime64("2001-02-03"), np.datetime64("1999-12-31")

    def f_int(pre):
        k = 3 if "reform" in variant and pre == "p" else 2
        return lambda pop, period: pop(f"{pre}_int", period) * k + 1

    def f_float(pre):
        return lambda pop, period: pop(f"{pre}_float", period) * 0.5 + pop(f"{pre}_int", period)

    def f_bool(pre):
        return lambda pop, period: pop(f"{pre}_int", period) > 2

    def f_str(pre):
        return lambda pop, period: np.where(pop(f"{pre}_bool", period), "yes_", "no")

    def f_strn(pre):
        return lambda pop, period: np.where(pop(f"{pre}_int", period) > 0, "pos", "zero")

    def f_date(pre):
        return lambda pop, period: np.where(pop(f"{pre}_bool", period), D1, D2)

    def f_enum(pre):
        def formula(pop, period):
            n = pop(f"{pre}_int", period)
            return np.select([n <= 0, n == 1, n == 2], [Occ.homeless, Occ.free_lodger, Occ.tenant], default=Occ.owner)
        return formula

    formulas = {"int": f_int, "float": f_float, "bool": f_bool, "str": f_str, "strn": f_strn, "date": f_date, "enum": f_enum}

    classes = []
    for name, (ent, vt, dp, is_input) in VARS.items():
        attrs = {"value_type": py[vt], "entity": ents[ent], "definition_period": unit[dp], "label": f"label of {name}"}
        if vt == "enum":
            attrs["possible_values"] = Occ
            attrs["default_value"] = Occ.tenant
        if name in DEFAULTS:
            d = DEFAULTS[name]
            attrs["default_value"] = Occ[d] if vt == "enum" else (datetime.date.fromisoformat(d) if vt == "date" else d)
        if name.endswith("_f_float"):
            attrs["documentation"] = f"  Documentation of {name}.\n  Second line.  "
            attrs["reference"] = [f"https://example.org/{name}", "https://example.org/law"]
        if name in BOUNDED:
            attrs["max_length"] = MAXLEN
        if vt in ("int", "float") and is_input and dp in ("month", "year"):
            from openfisca_core.holders import set_input_divide_by_period
            attrs["set_input"] = set_input_divide_by_period
        parts = name.split("_")
        if len(parts) == 3 and parts[1] == "f" and parts[2] in formulas:
            attrs["formula"] = formulas[parts[2]](parts[0])
        classes.append(type(name, (variables.Variable,), attrs))

    by_name = {c.__name__: c for c in classes}
    by_name["p_f_float"].formula.__doc__ = "Half the float input plus the integer input."

    def spiral(pop, period):
        return pop("p_spiral", period.last_month) + 1
    by_name["p_spiral"].formula = spiral
    if "ext" in variant:
        classes.append(type("p_ext", (variables.Variable,), {
            "value_type": int, "entity": person, "definition_period": U.MONTH, "label": "label of p_ext",
            "formula": lambda pop, period: pop("p_int", period) + 100}))

    def y_sum(pop, period):
        return pop("p_float", period, options=[populations.ADD]) + pop("p_y_float", period)
    by_name["p_y_sum"].formula = y_sum

    def dated_0(pop, period):
        return pop.filled_array(1.0)

    def dated_1(pop, period):
        return pop.filled_array(2.0) + pop("p_float", period)
    by_name["p_dated"].formula = dated_0
    by_name["p_dated"].formula_2015_06 = dated_1
    by_name["p_dated"].end = "2019-12-31"

    def nb(pop, period):
        return pop.nb_persons()
    by_name["h_f_nb"].formula = nb

    def hsum(pop, period):
        return pop.sum(pop.members("p_float", period)) + pop("h_float", period)
    by_name["h_f_sum"].formula = hsum

    def hpar(pop, period, parameters):
        return pop("h_float", period) * parameters(period).taxes.amount
    by_name["h_f_par"].formula = hpar

    for name, (starts, stop) in (dated_variables(param_seed) if param_seed is not None else {}).items():
        attrs = {"value_type": float, "entity": person, "definition_period": U.MONTH, "label": f"label of {name}"}
        for k, d in enumerate(starts):
            fn = (lambda k: (lambda pop, period: pop.filled_array(float(k))))(k)
            attrs["formula" if d == "0001-01-01" else "formula_" + d.replace("-", "_")] = fn
        if stop:
            attrs["end"] = stop
        classes.append(type(name, (variables.Variable,), attrs))

    class Sys(taxbenefitsystems.TaxBenefitSystem):
        def __init__(self):
            super().__init__([person, household])
            self.parameters = ParameterNode("", data=PARAM_DATA if param_seed is None else random_param_tree(param_seed))
            for c in classes:
                self.add_variable(c)

    tbs = Sys()
    tbs.ofv_enum = Occ
    return tbs


BASELINE_VARIANT = {"": "", "reform": "reform", "reformobj": "reform", "ext": "ext"}


@functools.lru_cache(maxsize=None)
def baseline_system(kind: str = ""):
    """A system handed to `run_tests` as its BASELINE.  All of them report the same country-package metadata and are
    different objects: "" the fixed system; "reform" the system built directly with the reform's formula
    (p_f_int = 3 * p_int + 1); "reformobj" a Reform object of the fixed system (a reform reports its baseline's
    metadata); "ext" the system built directly with the extension's variable.  BASELINE_VARIANT gives the variant
    of the independent engine run that tells what each computes."""
    if kind == "reformobj":
        from .apireform import OfvReform
        return OfvReform(system())
    return system(None, BASELINE_VARIANT[kind])


def dated_variables(seed: int) -> dict:
    """{name: ([formula start dates ascending], end | None)} of the extra variables of system(seed)"""
    import random
    rng = random.Random(seed * 7919 + 1)
    pool = ["0001-01-01", "2009-12-31", "2010-01-01", "2012-06-01", "2015-01-01", "2015-01-02", "2017-03-15", "2020-02-29"]
    ends = ["2015-01-01", "2017-03-14", "2017-03-15", "2019-12-31", "2020-02-28", "2020-02-29", "2024-12-31"]
    out = {}
    for i in range(4):
        starts = sorted(rng.sample(pool, rng.randint(1, 4)))
        stop = None
        if rng.random() < 0.6:
            ok = [e for e in ends if e >= starts[-1]]
            stop = rng.choice(ok) if ok else None
        out[f"dv{i}"] = (starts, stop)
    return out


def random_param_tree(seed: int) -> dict:
    """A generated parameter tree: values with nulls, `expected` placeholders, documentation and
    metadata; rate and amount scales whose later brackets may start later and which may be stopped
    (every bracket at the same date), WITHOUT interior null thresholds."""
    import random
    rng = random.Random(seed)
    dates = ["2009-12-31", "2010-01-01", "2012-06-01", "2012-06-02", "2015-01-01", "2017-03-15", "2020-01-01", "2020-02-29"]

    def hist(gen, allow_null=True, lo=1):
        ds = rng.sample(dates, rng.randint(lo, 5))
        out = {}
        for k, d in enumerate(ds):
            r = rng.random()
            if k and r < 0.12:
                out[d] = rng.choice(["expected", {"expected": gen() or 1}])      # a falsy expected value is refused by Parameter
            else:
                out[d] = {"value": (None if allow_null and r < 0.3 else gen())}
        return out

    def meta(node):
        if rng.random() < 0.5:
            node["description"] = f"description {rng.randint(0, 99)}"
        if rng.random() < 0.4:
            node["documentation"] = f"  documentation {rng.randint(0, 99)}\n  second line  "
        if rng.random() < 0.5:
            node["metadata"] = {k: v for k, v in (("unit", rng.choice(["/1", "currency", "year"])),
                                                  ("reference", rng.choice(["https://example.org/ref", ["r1", "r2"]])))
                                if rng.random() < 0.7}
        return node

    t: dict = {}
    for i in range(5):
        kind = rng.choice(["int", "lat", "bool"])
        gen = {"int": lambda: rng.randint(-5, 99), "lat": lambda: rng.randint(-16, 64) / 8, "bool": lambda: rng.random() < 0.5}[kind]
        t[f"p{i}"] = meta({"values": hist(gen)})
    for i in range(3):
        kind = rng.choice(["rate", "amount"])
        start = rng.choice(dates[:3])
        later = sorted(rng.sample(dates[3:7], 2))
        stop = dates[7] if rng.random() < 0.35 else None
        br = []
        for b in range(rng.randint(1, 4)):
            b_start = start if b == 0 or rng.random() < 0.6 else later[0]      # a bracket introduced later
            th = {b_start: {"value": b * 100 + rng.choice([0, 0, 50]) if b else 0}}
            for d in rng.sample(later, rng.randint(0, 2)):
                if d > b_start:
                    th[d] = {"value": b * 100 + rng.choice([0, 25, 75]) if b else 0}
            vals = {b_start: {"value": rng.randint(1, 7) / 8 if kind == "rate" else rng.randint(1, 50)}}
            for d in rng.sample(later, rng.randint(0, 2)):
                if d > b_start:
                    vals[d] = {"value": rng.randint(1, 7) / 8 if kind == "rate" else rng.randint(1, 50)}
            if stop:
                th[stop] = {"value": None}
                vals[stop] = {"value": None}
            br.append({"threshold": th, kind: vals})
        t[f"s{i}"] = meta({"brackets": br})
    return {"taxes": {"rate": PARAM_DATA["taxes"]["rate"], "amount": PARAM_DATA["taxes"]["amount"], **t,
                      "node": meta({"inner": {"values": hist(lambda: rng.randint(0, 9))},
                                    "more": meta({"leaf": meta({"values": hist(lambda: rng.randint(0, 9), allow_null=False)})})})}}


@functools.lru_cache(maxsize=None)
def client(param_seed: int | None = None):
    """Flask test client of one application over `system(param_seed)` (one per process)."""
    return fresh_client(param_seed)


def fresh_client(param_seed: int | None = None):
    import logging
    logging.disable(logging.CRITICAL)
    from openfisca_web_api.app import create_app
    return create_app(system(param_seed)).test_client()


def post(cl, route: str, doc):
    import json
    r = cl.post(route, data=json.dumps(doc), content_type="application/json")
    return r.status_code, (r.get_json(silent=True) if r.status_code == 200 else None)


def post_full(cl, route: str, doc):
    """-> (status, JSON body whatever the status, response headers)"""
    import json
    r = cl.post(route, data=json.dumps(doc), content_type="application/json")
    return r.status_code, r.get_json(silent=True), dict(r.headers)


def package_headers(param_seed: int | None = None, variant: str = "") -> dict:
    """What every answer of the application must carry: the served system's own package metadata."""
    meta = system(param_seed, variant).get_package_metadata()
    return {"Country-Package": meta["name"], "Country-Package-Version": meta["version"]}


def builder_refusal(doc, variant: str = ""):
    """How the situation builder itself refuses `doc`, for the routes that build a situation:
    {"status": the error's code or 400, "error": its path -> message tree} when it raises a
    SituationParsingError, else None (accepted, or refused with another exception)."""
    import copy
    from openfisca_core import errors
    from openfisca_core.simulations import SimulationBuilder
    try:
        SimulationBuilder().build_from_entities(system(None, variant), copy.deepcopy(doc))
    except errors.SituationParsingError as e:
        return {"status": e.code or 400, "error": e.error}
    except Exception:
        return None
    return None


# --------------------------------------------------------------------------------------
# independent engine run


def vtype(name: str, variant: str = ""):
    """value type token of a variable of the system, None if there is no such variable"""
    v = VARS.get(name) or (EXT_VARS.get(name) if "ext" in variant else None)
    return v[1] if v else None


def val_token(vt: str, x, tbs=None) -> str:
    """One element of a calculated vector -> typed protocol token (independent of handlers.py)."""
    import numpy as np
    if vt == "enum":
        return "e" + hx(list(tbs.ofv_enum)[int(x)].name)
    if vt == "float":
        return "f" + rat(Fraction(float(x)))
    if vt == "int":
        return "i" + str(int(x))
    if vt == "bool":
        return "b" + ("T" if bool(x) else "F")
    if vt == "date":
        return "d" + str(np.datetime64(x, "D"))
    if isinstance(x, bytes):
        return "s" + hx(x.decode())
    return "s" + hx(str(x))


def engine_run(doc, requests, variant: str = "", max_spiral_loops=None):
    """Direct `Simulation.calculate` on the situation `doc` (a deep copy is built) for each
    (variable, period text) of `requests`.
    -> (accepted: bool, ids: {plural: [ids]}, vecs: {(var, per): ("ok", [tokens], canon) | ("err",)})"""
    import copy
    from openfisca_core import periods
    from openfisca_core.simulations import SimulationBuilder
    tbs = system(None, variant)
    try:
        sim = SimulationBuilder().build_from_entities(tbs, copy.deepcopy(doc))
    except Exception:
        return False, {}, {}
    if sim is None:
        return False, {}, {}
    if max_spiral_loops:
        sim.max_spiral_loops = max_spiral_loops
    ids = {pop.entity.plural: [str(i) for i in pop.ids] for pop in sim.populations.values()}
    vecs = {}
    for var, per in requests:
        if (var, per) in vecs:
            continue
        vt = vtype(var, variant)
        try:
            arr = sim.calculate(var, per)
            canon = str(periods.period(per))
            vecs[(var, per)] = ("ok", [val_token(vt, x, tbs) for x in arr], canon)
        except Exception:
            vecs[(var, per)] = ("err",)
    return True, ids, vecs


# --------------------------------------------------------------------------------------
# token serialisation (protocol)


def hx(s: str) -> str:
    return s.encode("utf-8").hex() or "-"


def unhx(t: str) -> str:
    return "" if t == "-" else bytes.fromhex(t).decode("utf-8")


def rat(q: Fraction) -> str:
    return f"{q.numerator}/{q.denominator}"


def num_token(x, f32: bool = True) -> str:
    """JSON number -> `i<n>` (integer literal) or `f<p/q>` (float; canonicalised through float32)"""
    import numpy as np
    if isinstance(x, bool):
        return "bT" if x else "bF"
    if isinstance(x, int):
        return f"i{x}"
    return "f" + rat(Fraction(float(np.float32(x)) if f32 else float(x)))


def j_tokens(x, f32: bool = True) -> list:
    """JSON value -> prefix tokens: n | bT | bF | i<n> | f<p/q> | s<hex> | [ … ] | { k<hex> <value> … }"""
    if x is None:
        return ["n"]
    if isinstance(x, (bool, int, float)):
        return [num_token(x, f32)]
    if isinstance(x, str):
        return ["s" + hx(x)]
    if isinstance(x, (list, tuple)):
        out = ["["]
        for y in x:
            out += j_tokens(y, f32)
        return out + ["]"]
    if isinstance(x, dict):
        out = ["{"]
        for k, v in x.items():
            out.append("k" + hx(str(k)))
            out += j_tokens(v, f32)
        return out + ["}"]
    if isinstance(x, datetime.date):
        return ["d" + x.isoformat()]
    raise TypeError(f"not serialisable: {x!r}")


def parse_tokens(toks: list, pos: int = 0):
    """inverse of j_tokens -> (value, next position); dates come back as datetime.date"""
    t = toks[pos]
    if t == "n":
        return None, pos + 1
    if t in ("bT", "bF"):
        return t == "bT", pos + 1
    if t == "[":
        out = []
        pos += 1
        while toks[pos] != "]":
            v, pos = parse_tokens(toks, pos)
            out.append(v)
        return out, pos + 1
    if t == "{":
        d = {}
        pos += 1
        while toks[pos] != "}":
            k = unhx(toks[pos][1:])
            v, pos = parse_tokens(toks, pos + 1)
            d[k] = v
        return d, pos + 1
    c, r = t[0], t[1:]
    if c == "i":
        return int(r), pos + 1
    if c == "f":
        p, q = r.split("/")
        return float(Fraction(int(p), int(q))), pos + 1
    if c == "s":
        return unhx(r), pos + 1
    if c == "d":
        return datetime.date.fromisoformat(r), pos + 1
    raise ValueError("bad token " + t)


def iso_of_http_date(s: str):
    """Flask renders a `datetime.date` in RFC-822 form ('Mon, 01 Jan 2018 00:00:00 GMT'); the
    statement does not fix a date syntax: both forms are read."""
    import email.utils
    try:
        return datetime.date.fromisoformat(s).isoformat()
    except ValueError:
        pass
    try:
        t = email.utils.parsedate(s)
    except Exception:
        t = None
    if t is None:
        return None
    return datetime.date(t[0], t[1], t[2]).isoformat()


# --------------------------------------------------------------------------------------
# YAML tests: per-test outcomes of run_tests, in-process

CONFTEST = '''
import json, os
import pytest
_OUT = os.path.join(os.path.dirname(__file__), "outcomes.jsonl")
@pytest.hookimpl(hookwrapper=True)
def pytest_runtest_makereport(item, call):
    outcome = yield
    report = outcome.get_result()
    if report.when == "call" or (report.when == "setup" and report.outcome != "passed"):
        with open(_OUT, "a") as f:
            f.write(json.dumps({"file": os.path.basename(str(report.fspath)), "outcome": report.outcome, "name": str(getattr(item, "name", "")),
                                "when": report.when, "text": str(report.longrepr)[-600:] if report.failed else ""}) + "\\n")
'''


def run_yaml_tests(tbs, yaml_text: str, tag: str, options=None, how: str = "file"):
    """Write one YAML file under /var/tmp, run it through `run_tests`, return
    (exit status, [per-test outcome dicts]); the directory is removed afterwards.
    Per-test outcomes come from a conftest.py placed beside the file (pytest loads it as a local
    plugin), so no subprocess is spawned and the runner's own plugin list is left as it is."""
    import contextlib
    import io
    import json
    import shutil
    import tempfile
    from openfisca_core.tools.test_runner import run_tests
    d = tempfile.mkdtemp(prefix=f"ofv_c20_{tag}_", dir="/var/tmp")
    try:
        with open(os.path.join(d, "conftest.py"), "w") as f:
            f.write(CONFTEST)
        # how: "file" (a path), "list" (a list of one path), "dir" (the directory), "yml" (other extension)
        path = os.path.join(d, "case.yml" if how == "yml" else "case.yaml")
        with open(path, "w") as f:
            f.write(yaml_text)
        if how == "list":
            path = [path]
        elif how == "dir":
            path = d
        old = os.environ.get("PYTEST_ADDOPTS")
        os.environ["PYTEST_ADDOPTS"] = "-q -p no:cacheprovider --no-header -W ignore"
        buf = io.StringIO()
        try:
            with contextlib.redirect_stdout(buf), contextlib.redirect_stderr(buf):
                status = int(run_tests(tbs, path, options) if options else run_tests(tbs, path))
        finally:
            if old is None:
                os.environ.pop("PYTEST_ADDOPTS", None)
            else:
                os.environ["PYTEST_ADDOPTS"] = old
        outs = []
        op = os.path.join(d, "outcomes.jsonl")
        if os.path.exists(op):
            outs = [json.loads(l) for l in open(op)]
        return status, outs
    finally:
        shutil.rmtree(d, ignore_errors=True)
        import sys
        for m in [m for m in sys.modules if m == "conftest"]:
            del sys.modules[m]
