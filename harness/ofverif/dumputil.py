"""Shared adapters for the dump / restore domain (C19): programmatic tax-benefit systems with
every value type and definition period, scenario -> real simulation, extraction of a
simulation's state as protocol tokens, canonical text of a (restored) simulation.

Nothing here decides a verdict; `props/c19.py` holds the generator and the oracle.
"""
from __future__ import annotations

import datetime as dt
import gc
import os
import shutil
import tempfile
from fractions import Fraction

SCRATCH = f"/var/tmp/ofv-c19-{os.getpid()}"
UNIT_IDX = {"weekday": 0, "week": 1, "day": 2, "month": 3, "year": 4, "eternity": 5}
EPOCH_ORD = dt.date(1970, 1, 1).toordinal()

# --------------------------------------------------------------------------------------
# systems

_SYSTEMS: dict = {}

#: person variables: (name, value type tag, definition unit, extra)
PERSON_INPUTS = [
    ("f_m", "float", "month", {}), ("i_m", "int", "month", {}), ("b_m", "bool", "month", {}),
    ("s_m", "str", "month", {}), ("sl_m", "ascii", "month", {"max_length": 6}),
    ("d_m", "date", "month", {}), ("e_m", "enum:Col", "month", {}),
    ("f_y", "float", "year", {}), ("i_y", "int", "year", {}), ("e_y", "enum:Size", "year", {}),
    ("s_y", "str", "year", {}), ("b_y", "bool", "year", {}),
    ("f_d", "float", "day", {}), ("s_d", "str", "day", {}), ("e_d", "enum:Col", "day", {}),
    ("f_w", "float", "week", {}), ("i_w", "int", "week", {}), ("sl_w", "ascii", "week", {"max_length": 3}),
    ("f_wd", "float", "weekday", {}), ("b_wd", "bool", "weekday", {}), ("d_wd", "date", "weekday", {}),
    ("f_et", "float", "eternity", {}), ("d_et", "date", "eternity", {}), ("e_et", "enum:Size", "eternity", {}),
    ("s_et", "str", "eternity", {}), ("i_et", "int", "eternity", {}), ("b_et", "bool", "eternity", {}),
    ("disp_m", "float", "month", {"set_input": "dispatch"}), ("div_m", "float", "month", {"set_input": "divide"}),
    ("div_d", "float", "day", {"set_input": "divide"}), ("disp_w", "int", "week", {"set_input": "dispatch"}),
    ("disp_e", "enum:Col", "month", {"set_input": "dispatch"}),
    ("neut_m", "float", "month", {"neutralize": True}),
]

GROUP_INPUTS = [
    ("f_y", "float", "year", {}), ("e_et", "enum:Col", "eternity", {}), ("i_m", "int", "month", {}),
    ("s_m", "str", "month", {}), ("b_w", "bool", "week", {}), ("d_d", "date", "day", {}),
    ("sl_y", "ascii", "year", {"max_length": 4}),
]

ENTITY_SETS = {
    # sid: list of (key, plural, roles) for the group entities
    0: [("household", "households", [{"key": "parent", "plural": "parents", "max": 2,
                                      "subroles": ["first_parent", "second_parent"]},
                                     {"key": "child", "plural": "children"}])],
    1: [("household", "households", [{"key": "parent", "plural": "parents", "max": 2,
                                      "subroles": ["first_parent", "second_parent"]},
                                     {"key": "child", "plural": "children"}]),
        ("firm", "firms", [{"key": "boss", "plural": "bosses", "max": 1},
                           {"key": "worker", "plural": "workers"}])],
    2: [("family", "families", [{"key": "member", "plural": "members"}])],
    3: [],                                                        # person only (F-C19c)
    4: [("household", "households", [{"key": "parent", "plural": "parents"},
                                     {"key": "child", "plural": "children"}]),
        ("club", "clubs", [])],                                   # a group entity without roles (F-C19d)
}


def enum_classes():
    from openfisca_core import indexed_enums

    class Col(indexed_enums.Enum):
        red = "r"
        green = "g"
        blue = "b"

    class Size(indexed_enums.Enum):
        S = "small"
        M = "medium"
        L = "large"
        XL = "extra large"

    return {"Col": Col, "Size": Size}


def get_system(sid: int):
    """-> (tbs, info); info = {"groups": [keys], "inputs": {name: (vt, unit, extra, entity)},
    "formulas": {name: (unit, entity)}, "enums": {...}}"""
    if sid in _SYSTEMS:
        return _SYSTEMS[sid]
    import numpy
    from openfisca_core import entities, holders, indexed_enums, taxbenefitsystems, variables
    from openfisca_core.parameters import ParameterNode
    from openfisca_core.periods import DateUnit

    enums = enum_classes()
    Col, Size = enums["Col"], enums["Size"]
    person = entities.Entity("person", "persons", "", "")
    groups = [entities.GroupEntity(k, pl, "", "", roles=roles) for k, pl, roles in ENTITY_SETS[sid]]
    tbs = taxbenefitsystems.TaxBenefitSystem([person, *groups])
    tbs.parameters = ParameterNode("", data={})
    info = {"groups": [g.key for g in groups], "inputs": {}, "formulas": {}, "enums": enums}
    pytype = {"float": float, "int": int, "bool": bool, "str": str, "ascii": str, "date": dt.date}
    helpers = {"dispatch": holders.set_input_dispatch_by_period, "divide": holders.set_input_divide_by_period}

    def add(name, vt, unit, entity, extra=None, formula=None):
        extra = dict(extra or {})
        attrs = dict(entity=entity, definition_period=DateUnit(unit))
        if vt.startswith("enum:"):
            cls = enums[vt[5:]]
            attrs.update(value_type=indexed_enums.Enum, possible_values=cls,
                         default_value=list(cls)[1])
        else:
            attrs["value_type"] = pytype[vt]
        if "max_length" in extra:
            attrs["max_length"] = extra["max_length"]
        if "set_input" in extra:
            attrs["set_input"] = helpers[extra["set_input"]]
        if formula is not None:
            attrs["formula"] = formula
        tbs.add_variable(type(name, (variables.Variable,), attrs))
        if formula is None:
            info["inputs"][name] = (vt, unit, extra, entity.key)
        else:
            info["formulas"][name] = (unit, entity.key)

    for name, vt, unit, extra in PERSON_INPUTS:
        add(name, vt, unit, person, extra)

    from openfisca_core.populations import ADD

    def c_m(p, period):
        return p("f_m", period) * 2 + p("i_m", period)

    def c_y(p, period):
        return p("c_m", period, options=[ADD]) + p("f_y", period)

    def c_e(p, period):
        return numpy.where(p("f_m", period) > 10, Col.red, Col.blue)

    def c_b(p, period):
        return p("i_m", period) > 3

    def c_s(p, period):
        return numpy.where(p("b_m", period), "yes", "no")

    def c_d(p, period):
        return p("f_d", period) + 1

    def c_w(p, period):
        return p("f_w", period) * 2 + p("i_w", period)

    def c_wd(p, period):
        return p("f_wd", period) + p("b_wd", period)

    def c_et(p, period):
        return p("f_et", period) + p("f_m", period)

    def c_date(p, period):
        return p("d_et", period)

    def c_i(p, period):
        return p("i_m", period) + p("i_et", period)

    add("c_m", "float", "month", person, formula=c_m)
    add("c_y", "float", "year", person, formula=c_y)
    add("c_e", "enum:Col", "month", person, formula=c_e)
    add("c_b", "bool", "month", person, formula=c_b)
    add("c_s", "str", "month", person, formula=c_s)
    add("c_d", "float", "day", person, formula=c_d)
    add("c_w", "float", "week", person, formula=c_w)
    add("c_wd", "float", "weekday", person, formula=c_wd)
    add("c_et", "float", "month", person, formula=c_et)
    add("c_date", "date", "month", person, formula=c_date)
    add("c_i", "int", "month", person, formula=c_i)

    for g in groups:
        k = g.key
        for name, vt, unit, extra in GROUP_INPUTS:
            add(f"{k}_{name}", vt, unit, g, extra)
        if g.flattened_roles:
            def mk_c_y(_k):
                def g_c_y(pop, period):
                    return pop.sum(pop.members("c_m", period.first_month)) + pop(f"{_k}_f_y", period)
                return g_c_y

            def g_nb(pop, period):
                return pop.nb_persons()

            def mk_proj(_k):
                def p_proj(p, period):
                    return getattr(p, _k)(f"{_k}_f_y", period) + p("f_y", period)
                return p_proj

            add(f"{k}_c_y", "float", "year", g, formula=mk_c_y(k))
            add(f"{k}_nb", "int", "month", g, formula=g_nb)
            add(f"proj_{k}", "float", "year", person, formula=mk_proj(k))

            # what depends on members_position / members_role and not only on the memberships
            def g_first(pop, period):
                return pop.value_from_first_person(pop.members("f_m", period))

            def g_nth1(pop, period):
                return pop.value_nth_person(1, pop.members("f_m", period), default=-1)

            def g_nth2(pop, period):
                return pop.value_nth_person(2, pop.members("i_m", period), default=-7)

            def mk_role_sum(_role):
                def g_role_sum(pop, period):
                    return pop.sum(pop.members("f_m", period), role=_role)
                return g_role_sum

            def mk_role_nb(_role):
                def g_role_nb(pop, period):
                    return pop.nb_persons(role=_role)
                return g_role_nb

            add(f"{k}_first", "float", "month", g, formula=g_first)
            add(f"{k}_nth1", "float", "month", g, formula=g_nth1)
            add(f"{k}_nth2", "int", "month", g, formula=g_nth2)
            add(f"{k}_role_sum", "float", "month", g, formula=mk_role_sum(g.flattened_roles[-1]))
            add(f"{k}_role_nb", "int", "month", g, formula=mk_role_nb(g.roles[0]))
    tbs.neutralize_variable("neut_m")
    if sid == 1:
        tbs.cache_blacklist = {"c_m", "c_e"}
    _SYSTEMS[sid] = (tbs, info)
    return _SYSTEMS[sid]


# --------------------------------------------------------------------------------------
# scenario -> real simulation


def real_period(tok):
    """'unit/y,m,d/size' -> Period ; any other text goes through periods.period"""
    from openfisca_core import periods
    from openfisca_core.periods import DateUnit, Instant, Period
    if "/" in tok:
        u, d, n = tok.split("/")
        y, m, dd = d.split(",")
        return Period((DateUnit(u), Instant((int(y), int(m), int(dd))), int(n)))
    return periods.period(tok)


def to_array(vt, values, enums, form=0):
    """the argument handed to set_input; `form` varies the container: 0 an array of the variable's
    own dtype, 1 an array of a wider / other dtype, 2 a plain Python list"""
    import numpy
    if vt == "float":
        fl = [float(Fraction(v)) for v in values]
        return [numpy.array(fl, dtype=numpy.float32), numpy.array(fl, dtype=numpy.float64), fl][form % 3]
    if vt == "int":
        il = [int(v) for v in values]
        return [numpy.array(il, dtype=numpy.int32), numpy.array(il, dtype=numpy.int64), il][form % 3]
    if vt == "bool":
        bl = [bool(v) for v in values]
        return [numpy.array(bl, dtype=bool), numpy.array(bl, dtype=bool), bl][form % 3]
    if vt in ("str", "ascii"):
        return [numpy.array(list(values), dtype=object), numpy.array(list(values)), list(values)][form % 3]
    if vt == "date":
        return [numpy.array(list(values), dtype="datetime64[D]"), numpy.array(list(values), dtype="datetime64[D]"),
                [dt.date.fromisoformat(v) for v in values]][form % 3]
    if vt.startswith("enum:"):
        cls = enums[vt[5:]]
        names = list(values)
        idx = [[m.name for m in cls].index(n) for n in names]
        return [names, numpy.array(idx, dtype=numpy.int64), cls.encode(numpy.array(names))][form % 3]
    raise ValueError(vt)


STRS = ["", "x", "hello world", "\u00e9", "a|b,c", "\u65e5\u672c", "0", " ", "None"]
ASCII = ["", "a", "abc", "abcdefghij", "Z 9", "0"]
DATES = ["1970-01-01", "1900-03-01", "1999-12-31", "2000-02-29", "2018-01-05", "2400-02-29", "2261-01-01"]


def gen_values(vt, count, vseed, info):
    """the values of an input: a function of the seed and of the population's count"""
    import random
    r = random.Random(vseed)
    if vt == "float":
        return [str(Fraction(r.randint(-40, 400), 4)) for _ in range(count)]
    if vt == "int":
        return [r.randint(-5, 50) for _ in range(count)]
    if vt == "bool":
        return [r.random() < 0.5 for _ in range(count)]
    if vt == "str":
        return [r.choice(STRS) for _ in range(count)]
    if vt == "ascii":
        return [r.choice(ASCII) for _ in range(count)]
    if vt == "date":
        return [r.choice(DATES) for _ in range(count)]
    if vt.startswith("enum:"):
        return [r.choice([m.name for m in info["enums"][vt[5:]]]) for _ in range(count)]
    raise ValueError(vt)


class Run:
    """A real simulation built from a scenario, with its scratch directory."""

    def __init__(self, sc):
        from openfisca_core import simulations
        self.sc = sc
        self.tbs, self.info = get_system(sc["sid"])
        os.makedirs(SCRATCH, exist_ok=True)
        self.tmp = tempfile.mkdtemp(prefix="c19-", dir=SCRATCH)
        self.errors = []
        if sc["build"] == "default":
            sim = simulations.SimulationBuilder().build_default_simulation(self.tbs, sc["count"])
        else:
            sit = {"persons": {pid: {} for pid in sc["persons"]}}
            for gkey, insts in sc["groups"].items():
                ent = next(e for e in self.tbs.group_entities if e.key == gkey)
                sit[ent.plural] = {gid: {rp: list(m) for rp, m in members.items()} for gid, members in insts}
            sim = simulations.SimulationBuilder().build_from_entities(self.tbs, sit)
        cfg = sc.get("config", {})
        if cfg.get("mem") is not None:
            from openfisca_core.experimental import MemoryConfig
            m = cfg["mem"]
            sim.memory_config = MemoryConfig(0, priority_variables=m.get("priority"), variables_to_drop=m.get("drop"))
            store = os.path.join(self.tmp, "store")
            os.mkdir(store)
            sim._data_storage_dir = store
        if cfg.get("trace"):
            sim.trace = True
        if cfg.get("opt"):
            sim.opt_out_cache = True
        self.sim = sim
        for gkey, remap in sc.get("remap", {}).items():
            # public attribute assignment on a default simulation: several persons per group,
            # the groups no person points to stay empty (count and ids are unchanged)
            import numpy
            pop = sim.populations[gkey]
            pop.members_entity_id = numpy.array([remap[i % len(remap)] % pop.count for i in range(sim.persons.count)])
        self._structure(sc)
        for var, per, vseed in sc.get("inputs", []):
            vt = self.info["inputs"][var][0]
            count = sim.populations[self.info["inputs"][var][3]].count
            try:
                sim.set_input(var, real_period(per), to_array(vt, gen_values(vt, count, vseed, self.info),
                                                              self.info["enums"], form=vseed // 7))
            except Exception as e:   # refused inputs leave the state alone; the state is what is dumped
                self.errors.append(("input", var, per, type(e).__name__))
        for kind, var, per in sc.get("requests", []):
            try:
                if per is None:
                    getattr(sim, kind)(var)
                else:
                    getattr(sim, kind)(var, real_period(per))
            except Exception as e:
                self.errors.append((kind, var, per, type(e).__name__))
        for poke in sc.get("pokes", []):
            self._poke(poke)

    def _structure(self, sc):
        """structural fields put in a non-default state through the public attributes, before any
        input or request: explicit member positions (a permutation inside each group, e.g. a
        survey's own ranking), explicit roles, explicit identifiers"""
        import random

        import numpy
        sim = self.sim
        for gkey, seed in sc.get("positions", {}).items():
            pop = sim.populations[gkey]
            r = random.Random(seed)
            mei = [int(x) for x in pop.members_entity_id]
            pos = [0] * len(mei)
            for g in set(mei):
                idx = [i for i, x in enumerate(mei) if x == g]
                perm = list(range(len(idx)))
                r.shuffle(perm)
                if len(idx) > 1 and perm == sorted(perm):
                    perm = perm[1:] + perm[:1]           # never the order of appearance
                for i, q in zip(idx, perm):
                    pos[i] = q
            pop.members_position = numpy.array(pos, dtype=numpy.asarray(pop.members_entity_id).dtype)
        for gkey, seed in sc.get("roles", {}).items():
            pop = sim.populations[gkey]
            flat = list(pop.entity.flattened_roles)
            if flat:
                r = random.Random(seed)
                pop.members_role = numpy.array([r.choice(flat) for _ in range(len(pop.members_entity_id))])
        for key, (kind, seed) in sc.get("ids", {}).items():
            pop = sim.populations[key]
            r = random.Random(seed)
            n = int(pop.count)
            if kind == "ints":
                ids = r.sample(range(-5, 10 * n + 20), n)
            elif kind == "array":
                ids = numpy.array(r.sample(range(1000, 1000 + 3 * n + 5), n))
            else:
                ids = [f"{r.choice(['id', chr(233), 'x y', 'A|b'])}{i}" for i in r.sample(range(100), n)]
            pop.ids = ids

    def _poke(self, poke):
        """states no public call produces: an array written straight into a holder's memory store"""
        var, per, vseed = poke
        vt = self.info["inputs"][var][0]
        holder = self.sim.get_holder(var)
        arr = to_array(vt, gen_values(vt, holder.population.count, vseed, self.info), self.info["enums"])
        if vt.startswith("enum:"):
            arr = holder.variable.possible_values.encode(arr)
        holder._memory_storage.put(arr, real_period(per))

    def close(self):
        sim = self.sim
        self.sim = None
        if sim is not None:
            for pop in sim.populations.values():
                for holder in pop._holders.values():
                    if holder._disk_storage is not None:
                        # the whole scratch directory is removed below; keep __del__ from doing it twice
                        holder._disk_storage.preserve_storage_dir = True
        del sim
        gc.collect()
        shutil.rmtree(self.tmp, ignore_errors=True)


# --------------------------------------------------------------------------------------
# state -> tokens


def hx(s: str) -> str:
    return "x" + s.encode("utf-8").hex()


def id_tok(i) -> str:
    import numpy
    if isinstance(i, (str, numpy.str_)):
        return hx("s" + str(i))
    return hx("i" + str(int(i)))


def lst(xs) -> str:
    xs = list(xs)
    return ",".join(xs) if xs else "-"


def rat(x) -> str:
    f = Fraction(float(x))
    return str(f.numerator) if f.denominator == 1 else f"{f.numerator}/{f.denominator}"


def period_tok(p) -> str:
    u = p[0]
    u = u.value if hasattr(u, "value") else str(u)
    s = p[1]
    return f"{u}/{s[0]},{s[1]},{s[2]}/{p[2]}"


def enum_tok(cls) -> str:
    return "/".join([cls.__name__] + [m.name for m in cls])


def vec_tok(a) -> str:
    """typed canonical text of an array held by a holder"""
    import numpy
    from openfisca_core.indexed_enums import EnumArray
    if isinstance(a, EnumArray):
        return "e:" + enum_tok(a.possible_values) + ":" + lst(str(int(x)) for x in a.view(numpy.ndarray))
    k = a.dtype.kind
    if k == "f":
        return "f:" + lst(rat(x) for x in a)
    if k in "iu":
        return "i:" + lst(str(int(x)) for x in a)
    if k == "b":
        return "b:" + lst("T" if x else "F" for x in a)
    if k == "O":
        if not all(isinstance(x, str) for x in a):
            return "o:" + lst(hx(repr(x)) for x in a)
        return "s:" + lst(hx(x) for x in a)
    if k == "S":
        return f"y{a.dtype.itemsize}:" + lst("x" + bytes(x).hex() for x in a)
    if k == "U":
        return "u:" + lst(hx(str(x)) for x in a)
    if k == "M":
        days = a.astype("datetime64[D]").astype("int64")
        return "d:" + lst(str(int(x) + EPOCH_ORD) for x in days)
    return "o:" + lst(hx(repr(x)) for x in a)


def vtype_tok(variable) -> str:
    from openfisca_core.indexed_enums import Enum
    vt = variable.value_type
    if vt == Enum:
        return "enum:" + enum_tok(variable.possible_values)
    if vt is str:
        return f"bytes{variable.max_length}" if variable.max_length else "str"
    return {float: "float", int: "int", bool: "bool", dt.date: "date"}[vt]


def default_tok(variable) -> str:
    return vec_tok(variable.default_array(1))


def system_tokens(tbs) -> list:
    toks = []
    for e in [tbs.person_entity, *tbs.group_entities]:
        roles = [] if e.is_person else [r.key for r in e.flattened_roles]
        toks.append("|".join(["E", e.key, "P" if e.is_person else "G", lst(roles)]))
    for name in sorted(tbs.variables):
        v = tbs.variables[name]
        unit = v.definition_period
        unit = unit.value if hasattr(unit, "value") else str(unit)
        toks.append("|".join(["V", name, v.entity.key, vtype_tok(v), unit,
                              "N" if v.is_neutralized else "-", default_tok(v)]))
    return toks


def roles_of(pop):
    """the role objects of a group population; [] when the entity has no role (the property raises)"""
    try:
        return list(pop.members_role)
    except IndexError:
        return []


def pop_tok(pop) -> str:
    if pop.entity.is_person:
        return "|".join(["P", pop.entity.key, str(int(pop.count)), lst(id_tok(i) for i in pop.ids), "-", "-", "-"])
    roles = [getattr(r, "key", None) for r in roles_of(pop)]
    flat = {r.key for r in pop.entity.flattened_roles}
    return "|".join(["P", pop.entity.key, str(int(pop.count)), lst(id_tok(i) for i in pop.ids),
                     lst(str(int(x)) for x in pop.members_entity_id),
                     lst(r if r in flat else "*" for r in roles),
                     lst(str(int(x)) for x in pop.members_position)])


def state_tokens(sim) -> list:
    """the populations and both stores of every holder (private attributes: the split between
    memory and disk is not visible otherwise), in dump order"""
    toks = [pop_tok(pop) for pop in sim.populations.values()]
    for pop in sim.populations.values():
        for name, holder in pop._holders.items():
            disk = holder._disk_storage
            toks.append(f"H|{name}|{1 if disk is not None else 0}")
            for p in holder._memory_storage.get_known_periods():
                toks.append("|".join(["A", name, "M", period_tok(p), vec_tok(holder._memory_storage.get(p))]))
            if disk is not None:
                for p in disk.get_known_periods():
                    toks.append("|".join(["A", name, "D", period_tok(p), vec_tok(disk.get(p))]))
    return toks


def known_arrays(sim):
    """{(variable, period): array} through the public calls only"""
    out = {}
    for pop in sim.populations.values():
        for name, holder in pop._holders.items():
            for p in holder.get_known_periods():
                out[(name, p)] = holder.get_array(p)
    return out


def canonical_tokens(sim, listing) -> list:
    """the tokens the model driver prints for `restore sys (dump s)` (without the `C|` flags)"""
    toks = ["OK"] + [pop_tok(pop) for pop in sim.populations.values()]
    arr = set()
    for (name, p), a in known_arrays(sim).items():
        arr.add("|".join(["A", name, period_tok(p), "none" if a is None else vec_tok(a)]))
    toks += sorted(arr)
    toks.append(listing)
    return toks


def dir_listing(dump_dir) -> str:
    """`F|` + the sorted relative paths of a dump directory (an empty directory ends with `/`)"""
    dump_dir = str(dump_dir)
    paths = set()
    for root, dirs, files in os.walk(dump_dir):
        rel = os.path.relpath(root, dump_dir)
        rel = "" if rel == "." else rel + "/"
        for f in files:
            paths.add(rel + f)
        if rel and not files and not dirs:
            paths.add(rel)
    paths.add("__entities__/")
    return "F|" + ";".join(sorted(paths))


_RESTORE_TBS: dict = {}


def restore_system(sid: int, kind: str):
    """the system handed to restore_simulation: the very object, a clone, or a reform that changes nothing"""
    tbs, _info = get_system(sid)
    if kind == "same":
        return tbs
    if (sid, kind) not in _RESTORE_TBS:
        if kind == "clone":
            _RESTORE_TBS[(sid, kind)] = tbs.clone()
        else:
            from openfisca_core.reforms import Reform

            class nothing(Reform):
                def apply(self):
                    pass

            _RESTORE_TBS[(sid, kind)] = nothing(tbs)
    return _RESTORE_TBS[(sid, kind)]
