"""Real simulations with formulas, built programmatically from the `heap` protocol fields (C13).

`tbsutil.py` (C12) builds systems of input variables; the clone property needs variables *with
formulas* (person and group, dated and eternal) whose reads are known, so this module has its own
small description:

    system  = list of (entity, unit, default, formula)      entity 0 = person, k >= 1 = group g<k>
    formula = None | (const, [(coef, dep, via, pt), ...])   via: s = population(dep, p)
                                                                  m = group.sum(group.members(dep, p))
                                                                  p = person.<group of dep>(dep, p)
                                                                  mr<role> = group.sum(group.members(dep, p), role=ROLE)
                                                                  nb<role> = group.nb_persons(role=ROLE)
                                                                  hr<g>_<role> = person.has_role(ROLE of group g)
    every group entity has the roles r0 (sub-roles r0s0, r0s1), r1, r2 (max 1); <role> is the set of flattened
    roles satisfying it: 0_1 (r0) | 0 (r0s0) | 1 (r0s1) | 2 (r1) | 3 (r2)
                                                             pt:  s = the requested period, l = period.last_month
    spec    = (persons, [(entity, count, members_entity_id, roles | None), ...], mem)    mem: None | [priority variables]

The text forms are those of lean/OFCore/OFCore/Drv/Heap.lean.  Values are float variables holding
small integers, so every float32 operation of the engine is exact.
"""
from __future__ import annotations

import functools
import gc
import shutil
from fractions import Fraction

UNITS = ("month", "year", "eternity", "day", "week", "weekday")
STD_ROLES = ((0, 1), (0,), (1,), (2,), (3,))
ROLE_DESCRIPTIONS = [{"key": "r0", "plural": "r0s", "subroles": ["r0s0", "r0s1"]}, {"key": "r1", "plural": "r1s"},
                     {"key": "r2", "plural": "r2s", "max": 1}]


class Malformed(Exception):
    pass


# --------------------------------------------------------------------------------------
# parsing (mirrors Drv/Heap.lean)


def _int(s):
    try:
        if s.strip() != s or not s or s[0] == "+" or "_" in s:
            raise ValueError
        return int(s)
    except ValueError:
        raise Malformed(s)


def _nat(s):
    n = _int(s)
    if n < 0 or s.startswith("-"):
        raise Malformed(s)
    return n


def _split(s, sep):
    return [] if s in ("-", "") else s.split(sep)


def parse_period(s):
    """-> the string the real API takes, or raises Malformed"""
    if s == "eternity":
        return ("eternity", None, None)
    parts = s.split("/")
    if len(parts) != 3 or parts[0] not in UNITS:
        raise Malformed(s)
    d = parts[1].split(",")
    if len(d) != 3:
        raise Malformed(s)
    return (parts[0], tuple(_int(x) for x in d), _int(parts[2]))


def parse_role(s):
    r = tuple(_nat(x) for x in s.split("_"))
    if r not in STD_ROLES:
        raise Malformed(s)
    return r


def parse_via(v):
    """-> "s" | "m" | "p" | ("mr", role) | ("nb", role) | ("hr", g, role)"""
    if v in ("s", "m", "p"):
        return v
    if v.startswith("mr") or v.startswith("nb"):
        return (v[:2], parse_role(v[2:]))
    if v.startswith("hr"):
        g, _, r = v[2:].partition("_")
        return ("hr", _nat(g), parse_role(r))
    raise Malformed(v)


def parse_term(s):
    c, _, rest = s.partition("*")
    f = rest.split(".")
    if "*" not in s or len(f) != 3 or f[2] not in ("s", "l"):
        raise Malformed(s)
    return (_int(c), _nat(f[0]), parse_via(f[1]), f[2])


def parse_sys(s):
    out = []
    for v in _split(s, ";"):
        f = v.split(":")
        if len(f) != 4 or f[1] not in UNITS:
            raise Malformed(v)
        if f[3] == "-":
            formula = None
        else:
            parts = f[3].split("+")
            formula = (_int(parts[0]), [parse_term(t) for t in parts[1:]])
        out.append((_nat(f[0]), f[1], _int(f[2]), formula))
    return out


def parse_spec(s):
    f = s.split("/")
    if len(f) != 3:
        raise Malformed(s)
    groups = []
    for g in _split(f[1], ","):
        gf = g.split(":")
        if len(gf) != 4:
            raise Malformed(g)
        groups.append((_nat(gf[0]), _nat(gf[1]), [_nat(x) for x in _split(gf[2], ".")],
                       None if gf[3] == "-" else [_nat(x) for x in _split(gf[3], ".")]))
    if f[2] == "-":
        mem = None
    elif f[2].startswith("d"):
        mem = [_nat(x) for x in _split(f[2][1:], ".")]
    else:
        raise Malformed(s)
    return (_nat(f[0]), groups, mem)


def parse_op(s):
    f = s.split(":")
    if f[0] == "s" and len(f) == 4:
        return ("s", _nat(f[1]), parse_period(f[2]), [_int(x) for x in _split(f[3], ",")])
    if f[0] == "d" and len(f) == 3:
        return ("d", _nat(f[1]), None if f[2] == "*" else parse_period(f[2]))
    if f[0] in ("k", "a") and len(f) == 3:
        return (f[0], _nat(f[1]), parse_period(f[2]))
    if f[0] == "t" and len(f) == 2 and f[1] in ("0", "1"):
        return ("t", f[1] == "1")
    if f[0] == "h" and len(f) == 2:
        return ("h", _nat(f[1]))
    raise Malformed(s)


def parse_side_op(s):
    if s[:1] not in ("o", "c"):
        raise Malformed(s)
    return (s[0], parse_op(s[1:]))


def parse_run(args):
    """fields after `heap run` -> (sys, spec, pre, trace, ops, sys_text)"""
    if len(args) != 5 or args[3] not in ("0", "1"):
        raise Malformed(" ".join(args))
    return (parse_sys(args[0]), parse_spec(args[1]), [parse_op(o) for o in _split(args[2], ";")],
            args[3] == "1", [parse_side_op(o) for o in _split(args[4], ";")], args[0])


# --------------------------------------------------------------------------------------
# the real objects


def entity_key(k):
    return "person" if k == 0 else f"g{k}"


def role_object(entity, role):
    """the real Role of a group entity for a role argument (tuple of flattened indices)"""
    if role == (0, 1):
        return entity.roles[0]
    return entity.flattened_roles[role[0]]


def _make_formula(const, terms, names, dep_entity_keys, ents):
    import numpy

    def formula(population, period):
        total = numpy.full(population.count, float(const))
        for coef, dep, via, pt in terms:
            p = period if pt == "s" else period.last_month
            if via == "s":
                a = population(names[dep], p)
            elif via == "m":
                a = population.sum(population.members(names[dep], p))
            elif via == "p":
                a = getattr(population, dep_entity_keys[dep])(names[dep], p)
            elif via[0] == "mr":
                a = population.sum(population.members(names[dep], p), role=role_object(population.entity, via[1]))
            elif via[0] == "nb":
                a = population.nb_persons(role=role_object(population.entity, via[1]))
            else:
                a = population.has_role(role_object(ents[via[1]], via[2])) * 1.0
            if len(a) != len(total):           # numpy would broadcast a length-1 operand silently
                raise ValueError("operands of different lengths")
            total = total + coef * a
        return total

    return formula


def check_run(sysd, spec) -> None:
    """what the driver answers BAD to: group entities are >= 1 and distinct, every variable lives in a
    declared entity, every person has a group index below the group count"""
    n, groups, mem = spec
    ks = [g[0] for g in groups]
    if 0 in ks or len(set(ks)) != len(ks):
        raise Malformed("groups")
    for e, count, mei, roles in groups:
        if len(mei) != n or any(g >= count for g in mei):
            raise Malformed("members")
        if roles is not None and (len(roles) != n or any(r >= 4 for r in roles)):
            raise Malformed("roles")
    for e, _, _, formula in sysd:
        if e != 0 and e not in ks:
            raise Malformed("entity")
        for _, _, via, _ in (formula[1] if formula else []):
            if isinstance(via, tuple):
                if via[0] == "hr" and (via[1] not in ks or e != 0):
                    raise Malformed("has_role")
                if via[0] in ("mr", "nb") and e == 0:
                    raise Malformed("role of a person variable")


@functools.lru_cache(maxsize=256)
def make_system(sys_text: str, ks: tuple):
    """the real TaxBenefitSystem of a system description over the group entities `ks` (cached);
    -> (tbs, names)"""
    from openfisca_core import entities, periods, taxbenefitsystems, variables

    sysd = parse_sys(sys_text)
    ents = {0: entities.Entity("person", "persons", "", "")}
    for k in ks:
        ents[k] = entities.GroupEntity(f"g{k}", f"g{k}s", "", "", roles=[dict(d) for d in ROLE_DESCRIPTIONS])
    tbs = taxbenefitsystems.TaxBenefitSystem([ents[0]] + [ents[k] for k in ks])
    names = [f"v{i}" for i in range(len(sysd))]
    dep_keys = [entity_key(e) for e, _, _, _ in sysd]
    for i, (e, unit, dflt, formula) in enumerate(sysd):
        if e not in ents:
            raise Malformed(f"entity {e}")
        attrs = {"value_type": float, "entity": ents[e], "definition_period": periods.DateUnit(unit),
                 "default_value": float(dflt), "label": names[i]}
        if formula is not None:
            attrs["formula"] = _make_formula(formula[0], formula[1], names, dep_keys, ents)
        tbs.add_variable(type(names[i], (variables.Variable,), attrs))
    return tbs, names


def build_simulation(tbs, spec, names):
    """`Simulation(tbs, populations)` on hand-made populations; the memory configuration is installed
    before any holder exists (`Holder.__init__` reads it)"""
    import numpy
    from openfisca_core import simulations
    from openfisca_core.experimental import MemoryConfig

    n, groups, mem = spec
    pops = tbs.instantiate_entities()
    pops["person"].count = n
    pops["person"].ids = [str(i) for i in range(n)]
    for e, count, mei, roles in groups:
        gp = pops[entity_key(e)]
        gp.count = count
        gp.ids = [str(i) for i in range(count)]
        gp.members_entity_id = numpy.array(mei, dtype=numpy.int64)
        if roles is not None:         # as SimulationBuilder.join_with_persons does: an object array of flattened roles
            flattened = numpy.empty(len(gp.entity.flattened_roles), dtype=object)
            flattened[:] = list(gp.entity.flattened_roles)
            gp.members_role = flattened[numpy.array(roles, dtype=numpy.int64)]
    sim = simulations.Simulation(tbs, pops)
    if mem is not None:
        sim.memory_config = MemoryConfig(max_memory_occupation=0, priority_variables=[names[v] for v in mem])
    return sim


def real_period(p):
    from openfisca_core import periods

    unit, d, size = p
    if unit == "eternity":
        return periods.period(periods.DateUnit.ETERNITY)
    return periods.Period((periods.DateUnit(unit), periods.Instant(d), size))


def show_period(p) -> str:
    if str(p.unit) == "eternity" or p.unit == "eternity":
        return "eternity"
    y, m, d = p.start
    return f"{p.unit.value if hasattr(p.unit, 'value') else p.unit}/{y},{m},{d}/{p.size}"


def tok(x) -> str:
    f = Fraction(float(x))
    return str(f.numerator) if f.denominator == 1 else f"{f.numerator}/{f.denominator}"


def show_vec(a) -> str:
    import numpy

    if a is None:
        return "none"
    if numpy.ndim(a) == 0:
        return tok(a)
    return ",".join(tok(x) for x in a)


def apply_op(sim, names, op):
    """one public-API call; -> canonical result (`ok`, a vector, or `ERR` when the implementation raised)"""
    import numpy

    try:
        if op[0] == "s":
            if op[1] >= len(names):
                return "ERR"
            sim.set_input(names[op[1]], real_period(op[2]), numpy.array(op[3], dtype=numpy.float32))
            return "ok"
        if op[0] == "d":
            if op[1] >= len(names):
                return "ERR"
            sim.delete_arrays(names[op[1]], None if op[2] is None else real_period(op[2]))
            return "ok"
        if op[0] == "k":
            if op[1] >= len(names):
                return "ERR"
            return show_vec(sim.calculate(names[op[1]], real_period(op[2])))
        if op[0] == "a":
            if op[1] >= len(names):
                return "ERR"
            return show_vec(sim.calculate_add(names[op[1]], real_period(op[2])))
        if op[0] == "t":
            sim.trace = op[1]
            return "ok"
        if op[0] == "h":
            if op[1] >= len(names):
                return "ERR"
            sim.get_holder(names[op[1]])
            return "ok"
    except Exception:      # noqa: BLE001 — whatever the implementation raised through its public API
        return "ERR"
    raise Malformed(str(op))


def var_index(name) -> int:
    return int(str(name)[1:])


def pop_index(key) -> int:
    return 0 if key == "person" else int(key[1:])


def known_values(sim) -> dict:
    """every readable (variable, period) of a simulation -> vector text"""
    out = {}
    for pop in sim.populations.values():
        for name, holder in pop._holders.items():
            for p in holder.get_known_periods():
                try:
                    out[(var_index(name), show_period(p))] = show_vec(holder.get_array(p))
                except Exception:      # noqa: BLE001 — a file of the shared directory has disappeared
                    out[(var_index(name), show_period(p))] = "ERR"
    return out


def role_reads(pop):
    """(flattened role index of every member, nb_persons(role) for every standard role) through the public API"""
    flat = list(pop.entity.flattened_roles)
    roles = [flat.index(r) for r in pop.members_role]
    counts = [[tok(x) for x in pop.nb_persons(role_object(pop.entity, r))] for r in STD_ROLES]
    return roles, counts


def observe(sim) -> str:
    """the canonical text `showObs` of Drv/Heap.lean prints for the model"""
    from openfisca_core import tracers

    b = lambda x: "T" if x else "F"
    tracer = sim.tracer
    full = isinstance(tracer, tracers.FullTracer)
    roots = [f"{var_index(n.name)}@{show_period(n.period)}" for n in tracer.trees] if full else []
    inval = sorted(f"{var_index(c.variable)}@{show_period(c.period)}" for c in sim.invalidated_caches)
    pops = []
    for key in sorted(sim.populations, key=pop_index):
        pop = sim.populations[key]
        hs = []
        for name in sorted(pop._holders, key=var_index):
            h = pop._holders[name]
            items = set()
            for p in h.get_known_periods():
                try:
                    items.add(f"{show_period(p)}={show_vec(h.get_array(p))}")
                except Exception:      # noqa: BLE001
                    return "ERR"
            hs.append(f"v{var_index(name)}:{b(h.population is pop)}{b(h.simulation is sim)}:" + "&".join(sorted(items)))
        members = getattr(pop, "members", None)
        mei = getattr(pop, "members_entity_id", None)
        rtxt = ""
        if members is not None:
            roles, counts = role_reads(pop)
            rtxt = ":r" + ".".join(map(str, roles)) + ":c" + "/".join(",".join(c) for c in counts)
        pops.append(f"e{pop_index(key)}:{b(pop.simulation is sim)}{b(members is None or members is sim.persons)}:n{pop.count}:"
                    + ".".join(str(int(g)) for g in (mei if mei is not None else [])) + rtxt + ":[" + " ".join(hs) + "]")
    return (f"t{b(sim.trace)}{b(full)}[" + " ".join(roots) + f"]s{len(tracer.stack)}i[" + " ".join(inval) + "]p"
            + b(sim.populations.get("person") is sim.persons) + "{" + " ".join(pops) + "}")


def _disk_dir(disk):
    import os

    return ("dir", os.path.dirname(os.path.abspath(disk.storage_dir)))


def _sim_dir(sim):
    import os

    return None if sim._data_storage_dir is None else ("dir", os.path.abspath(sim._data_storage_dir))


def _objects(sim, pre):
    key = lambda o: o if isinstance(o, tuple) else id(o)
    out = [(key(sim), pre), (key(sim.populations), pre + ".pops"), (key(sim.tracer), pre + ".tr"),
           (key(sim.invalidated_caches), pre + ".iv")]
    if _sim_dir(sim) is not None:
        out.append((_sim_dir(sim), pre + ".dir"))
    for k in sorted(sim.populations, key=pop_index):
        pop = sim.populations[k]
        pn = f"{pre}.e{pop_index(k)}"
        out += [(id(pop), pn), (id(pop._holders), pn + ".hs")]
        for name in sorted(pop._holders, key=var_index):
            h = pop._holders[name]
            hn = f"{pn}.h{var_index(name)}"
            out += [(id(h), hn), (id(h._memory_storage), hn + ".mem"), (id(h._memory_storage._arrays), hn + ".mem.arr")]
            if h._disk_storage is not None:
                out.append((id(h._disk_storage), hn + ".disk"))
    return out


def alias_graph(orig, clone) -> str:
    """`id()`-equivalence classes over the model's reference fields, printed as `aliasGraph` prints them"""
    names = {}
    for k, n in _objects(orig, "o") + _objects(clone, "c"):
        names.setdefault(k, n)
    nm = lambda o: "none" if o is None else names.get(o if isinstance(o, tuple) else id(o), "?")
    out = []
    for sim, pre in ((orig, "o"), (clone, "c")):
        out += [f"{pre}.persons={nm(sim.persons)}", f"{pre}.pops={nm(sim.populations)}", f"{pre}.tracer={nm(sim.tracer)}",
                f"{pre}.inval={nm(sim.invalidated_caches)}", f"{pre}.dir={nm(_sim_dir(sim))}"]
        for k in sorted(sim.populations, key=pop_index):
            pop = sim.populations[k]
            pn = f"{pre}.e{pop_index(k)}"
            out += [f"{pn}={nm(pop)}", f"{pn}.sim={nm(pop.simulation)}", f"{pn}.hs={nm(pop._holders)}",
                    f"{pn}.members={nm(getattr(pop, 'members', None))}"]
            for name in sorted(pop._holders, key=var_index):
                h = pop._holders[name]
                hn = f"{pn}.h{var_index(name)}"
                out += [f"{hn}={nm(h)}", f"{hn}.pop={nm(h.population)}", f"{hn}.sim={nm(h.simulation)}",
                        f"{hn}.mem={nm(h._memory_storage)}", f"{hn}.arr={nm(h._memory_storage._arrays)}",
                        f"{hn}.disk={nm(h._disk_storage)}"]
                if h._disk_storage is not None:
                    out.append(f"{hn}.ddir={nm(_disk_dir(h._disk_storage))}")
    return " ".join(out)


def dispose(*sims) -> None:
    """remove the temporary directories of disk-backed simulations (the storages' own `__del__` fails on
    directories shared by a clone and its original)"""
    dirs = {s._data_storage_dir for s in sims if s is not None and getattr(s, "_data_storage_dir", None)}
    for s in sims:
        if s is None:
            continue
        for pop in s.populations.values():
            for h in pop._holders.values():
                if h._disk_storage is not None:
                    h._disk_storage.preserve_storage_dir = True
    gc.collect()
    for d in dirs:
        shutil.rmtree(d, ignore_errors=True)
