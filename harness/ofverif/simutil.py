"""Real simulations with formulas, built programmatically from the `heap` protocol fields (C13).

`tbsutil.py` (C12) builds systems of input variables; the clone property needs variables *with
formulas* (person and group, dated and eternal) whose reads are known, so this module has its own
small description (text forms: lean/OFCore/OFCore/Drv/Heap.lean):

    system  = list of (entity, unit, default, formula, vtype, flags)   entity 0 = person, k >= 1 = group g<k>;
              flags: "!" = in the cache blacklist, "^" = set_input = set_input_dispatch_by_period
    formula = None | (const, [(coef, dep, via, pt), ...])   via: s = population(dep, p)
                                                                  m = group.sum(group.members(dep, p))
                                                                  p = person.<group of dep>(dep, p)
                                                                  mr<role> = group.sum(group.members(dep, p), role=ROLE)
                                                                  nb<role> = group.nb_persons(role=ROLE)
                                                                  hr<g>_<role> = person.has_role(ROLE of group g)
                                                                  pa = parameters(period).p0   (three-argument formula)
                                                                  nt<k> = group.value_nth_person(k, group.members(dep, p), default=0)
                                                             pt:  s = the requested period, l = period.last_month
    every group entity has the roles r0 (sub-roles r0s0, r0s1), r1, r2 (max 1); <role> is the set of flattened
    roles satisfying it: 0_1 (r0) | 0 (r0s0) | 1 (r0s1) | 2 (r1) | 3 (r2)
    vtype   = f | i | b | e | s | d   (float, int, bool, enum of 10 members, str, date); the protocol carries integers:
              enum = member index, str "s<k>" = k, date = days since 1970-01-01, bool = 0/1
    spec    = (persons, [(entity, count, members_entity_id, roles | None, positions | None), ...],
               mem: None | (priority variables, variables to drop), opt_out_cache, max_spiral_loops)

Numeric values are small integers, so every float32 operation of the engine is exact.
"""
from __future__ import annotations

import datetime as dt
import functools
import gc
import shutil
from fractions import Fraction

UNITS = ("month", "year", "eternity", "day", "week", "weekday")
VTYPES = "fibesd"
ENUM_SIZE = 10
EPOCH = dt.date(1970, 1, 1)
PARAM_VALUE = 7
STD_ROLES = ((0, 1), (0,), (1,), (2,), (3,))
ROLE_DESCRIPTIONS = [{"key": "r0", "plural": "r0s", "subroles": ["r0s0", "r0s1"]}, {"key": "r1", "plural": "r1s"},
                     {"key": "r2", "plural": "r2s", "max": 1}]
SIDES = "oc23456789"
ROUTES = "gdap"


class Malformed(Exception):
    pass


# --------------------------------------------------------------------------------------
# parsing (mirrors Drv/Heap.lean)


def _int(s):
    try:
        if s.strip() != s or not s or s[0] == "+" or "_" in s:
            raise ValueError
        return int(s)
    except ValueError:
        raise Malformed(s)


def _nat(s):
    n = _int(s)
    if n < 0 or s.startswith("-"):
        raise Malformed(s)
    return n


def _split(s, sep):
    return [] if s in ("-", "") else s.split(sep)


def parse_period(s):
    if s == "eternity":
        return ("eternity", None, None)
    parts = s.split("/")
    if len(parts) != 3 or parts[0] not in UNITS:
        raise Malformed(s)
    d = parts[1].split(",")
    if len(d) != 3:
        raise Malformed(s)
    return (parts[0], tuple(_int(x) for x in d), _int(parts[2]))


def parse_role(s):
    r = tuple(_nat(x) for x in s.split("_"))
    if r not in STD_ROLES:
        raise Malformed(s)
    return r


def parse_via(v):
    """-> "s" | "m" | "p" | "pa" | ("mr", role) | ("nb", role) | ("hr", g, role)"""
    if v in ("s", "m", "p", "pa"):
        return v
    if v.startswith("mr") or v.startswith("nb"):
        return (v[:2], parse_role(v[2:]))
    if v.startswith("nt"):
        return ("nt", _nat(v[2:]))
    if v.startswith("eq"):
        k = _nat(v[2:])
        if k >= ENUM_SIZE:
            raise Malformed(v)
        return ("eq", k)
    if v.startswith("hr"):
        g, _, r = v[2:].partition("_")
        return ("hr", _nat(g), parse_role(r))
    raise Malformed(v)


def parse_term(s):
    c, _, rest = s.partition("*")
    f = rest.split(".")
    if "*" not in s or len(f) != 3 or f[2] not in ("s", "l"):
        raise Malformed(s)
    return (_int(c), _nat(f[0]), parse_via(f[1]), f[2])


def parse_sys(s):
    out = []
    for v in _split(s, ";"):
        f = v.split(":")
        if len(f) != 4:
            raise Malformed(v)
        u = f[1]
        black = "!" if u.endswith("!") else ""        # flags: "!" = in the cache blacklist, "^" = set_input_dispatch_by_period
        if black:
            u = u[:-1]
        if u.endswith("^"):
            u, black = u[:-1], "^" + black
        u, _, vt = u.partition("~")
        vt = vt or "f"
        if u not in UNITS or vt not in VTYPES or len(vt) != 1:
            raise Malformed(v)
        if f[3] == "-":
            formula = None
        else:
            parts = f[3].split("+")
            formula = (_int(parts[0]), [parse_term(t) for t in parts[1:]])
        out.append((_nat(f[0]), u, _int(f[2]), formula, vt, black))
    return out


def parse_spec(s):
    f = s.split("/")
    if len(f) != 4:
        raise Malformed(s)
    groups = []
    for g in _split(f[1], ","):
        gf = g.split(":")
        if len(gf) != 5:
            raise Malformed(g)
        groups.append((_nat(gf[0]), _nat(gf[1]), [_nat(x) for x in _split(gf[2], ".")],
                       None if gf[3] == "-" else [_nat(x) for x in _split(gf[3], ".")],
                       None if gf[4] == "-" else [_nat(x) for x in _split(gf[4], ".")]))
    if f[2] == "-":
        mem = None
    elif f[2].startswith("d"):
        parts = f[2][1:].split("x")
        if len(parts) > 2:
            raise Malformed(s)
        mem = ([_nat(x) for x in _split(parts[0], ".")], [_nat(x) for x in _split(parts[1], ".")] if len(parts) == 2 else [])
    else:
        raise Malformed(s)
    o, _, k = f[3].partition("m")
    if o not in ("o0", "o1") or "m" not in f[3]:
        raise Malformed(s)
    return (_nat(f[0]), groups, mem, o == "o1", _nat(k))


def parse_op(s):
    f = s.split(":")
    if f[0] == "s" and len(f) == 4:
        return ("s", _nat(f[1]), parse_period(f[2]), [_int(x) for x in _split(f[3], ",")])
    if f[0] == "d" and len(f) == 3:
        return ("d", _nat(f[1]), None if f[2] == "*" else parse_period(f[2]))
    if f[0] in ("k", "a", "g", "i") and len(f) == 3:
        return (f[0], _nat(f[1]), parse_period(f[2]))
    if f[0] in ("q", "u") and len(f) == 5 and f[1] in ROUTES and len(f[1]) == 1:
        return (f[0], _nat(f[3]), parse_period(f[4]), f[1], _nat(f[2]))
    if f[0] == "t" and len(f) == 2 and f[1] in ("0", "1"):
        return ("t", f[1] == "1")
    if f[0] == "h" and len(f) == 2:
        return ("h", _nat(f[1]))
    raise Malformed(s)


def parse_flags(s):
    if s not in ("00", "01", "10", "11"):
        raise Malformed(s)
    return (s[0] == "1", s[1] == "1")


def parse_side(c):
    if len(c) != 1 or c not in SIDES:
        raise Malformed(c)
    return SIDES.index(c)


def parse_event(s):
    """-> (simulation index, ("n", trace, debug) | ("r", v, period, source index, w, q) | call)"""
    side = parse_side(s[:1])
    f = s[1:].split(":")
    if f[0] == "n" and len(f) == 2:
        return (side, ("n",) + parse_flags(f[1]))
    if f[0] == "r" and len(f) == 6:
        return (side, ("r", _nat(f[1]), parse_period(f[2]), parse_side(f[3]), _nat(f[4]), parse_period(f[5])))
    return (side, parse_op(s[1:]))


def parse_run(args):
    """fields after `heap run` -> (sys, spec, pre, (trace, debug), events, sys_text)"""
    if len(args) != 5:
        raise Malformed(" ".join(args))
    return (parse_sys(args[0]), parse_spec(args[1]), [parse_op(o) for o in _split(args[2], ";")],
            parse_flags(args[3]), [parse_event(o) for o in _split(args[4], ";")], args[0])


def check_run(sysd, spec, events) -> None:
    """what the driver answers BAD to"""
    n, groups, mem, _, _ = spec
    ks = [g[0] for g in groups]
    if 0 in ks or len(set(ks)) != len(ks):
        raise Malformed("groups")
    for e, count, mei, roles, positions in groups:
        if len(mei) != n or any(g >= count for g in mei):
            raise Malformed("members")
        if roles is not None and (len(roles) != n or any(r >= 4 for r in roles)):
            raise Malformed("roles")
        if positions is not None and len(positions) != n:
            raise Malformed("positions")
    for e, _, _, formula, _, _ in sysd:
        if e != 0 and e not in ks:
            raise Malformed("entity")
        for _, dep, via, _ in (formula[1] if formula else []):
            if isinstance(via, tuple):
                if via[0] == "eq" and (dep >= len(sysd) or sysd[dep][4] != "e"):
                    raise Malformed("comparison with a member of a variable that is not an Enum")
                if via[0] == "hr" and (via[1] not in ks or e != 0):
                    raise Malformed("has_role")
                if via[0] in ("mr", "nb", "nt") and e == 0:
                    raise Malformed("role of a person variable")
    live = 2
    for side, ev in events:
        if side >= live or (ev[0] == "r" and ev[3] >= live):
            raise Malformed("side")
        if ev[0] == "n":
            live += 1


# --------------------------------------------------------------------------------------
# the real objects


def entity_key(k):
    return "person" if k == 0 else f"g{k}"


def role_object(entity, role):
    """the real Role of a group entity for a role argument (tuple of flattened indices)"""
    if role == (0, 1):
        return entity.roles[0]
    return entity.flattened_roles[role[0]]


def _term_value(population, period, term, names, dep_entity_keys, ents, parameters):
    coef, dep, via, pt = term
    p = period if pt == "s" else period.last_month
    if via == "s":
        return population(names[dep], p)
    if via == "m":
        return population.sum(population.members(names[dep], p))
    if via == "p":
        return getattr(population, dep_entity_keys[dep])(names[dep], p)
    if via == "pa":
        import numpy
        return numpy.full(population.count, float(parameters(period).p0))
    if via[0] == "mr":
        return population.sum(population.members(names[dep], p), role=role_object(population.entity, via[1]))
    if via[0] == "nb":
        return population.nb_persons(role=role_object(population.entity, via[1]))
    if via[0] == "nt":
        return population.value_nth_person(via[1], population.members(names[dep], p), default=0)
    if via[0] == "eq":
        member = list(population.simulation.tax_benefit_system._ofv_enum)[via[1]]
        return (population(names[dep], p) == member) * 1.0
    return population.has_role(role_object(ents[via[1]], via[2])) * 1.0


def _make_formula(const, terms, names, dep_entity_keys, ents):
    def body(population, period, parameters):
        if not terms:
            return float(const)                # a scalar: the engine fills the array itself
        import numpy
        total = numpy.full(population.count, float(const))
        for term in terms:
            a = _term_value(population, period, term, names, dep_entity_keys, ents, parameters)
            if len(a) != len(total):           # numpy would broadcast a length-1 operand silently
                raise ValueError("operands of different lengths")
            total = total + term[0] * a
        return total

    if any(t[2] == "pa" for t in terms):
        def formula(population, period, parameters):
            return body(population, period, parameters)
    else:
        def formula(population, period):
            return body(population, period, None)
    return formula


@functools.lru_cache(maxsize=256)
def make_system(sys_text: str, ks: tuple):
    """the real TaxBenefitSystem of a system description over the group entities `ks` (cached);
    -> (tbs, names, vtypes)"""
    from openfisca_core import entities, indexed_enums, parameters, periods, taxbenefitsystems, variables

    sysd = parse_sys(sys_text)
    ents = {0: entities.Entity("person", "persons", "", "")}
    for k in ks:
        ents[k] = entities.GroupEntity(f"g{k}", f"g{k}s", "", "", roles=[dict(d) for d in ROLE_DESCRIPTIONS])
    tbs = taxbenefitsystems.TaxBenefitSystem([ents[0]] + [ents[k] for k in ks])
    tbs.parameters = parameters.ParameterNode("", data={"p0": {"values": {"1900-01-01": {"value": PARAM_VALUE}}}})
    enum = indexed_enums.Enum("OfvE", {f"m{i}": f"m{i}" for i in range(ENUM_SIZE)})
    names = [f"v{i}" for i in range(len(sysd))]
    dep_keys = [entity_key(x[0]) for x in sysd]
    pytype = {"f": float, "i": int, "b": bool, "e": indexed_enums.Enum, "s": str, "d": dt.date}
    for i, (e, unit, dflt, formula, vt, black) in enumerate(sysd):
        if e not in ents:
            raise Malformed(f"entity {e}")
        default = {"f": float(dflt), "i": int(dflt), "b": bool(dflt), "s": f"s{dflt}",
                   "d": EPOCH + dt.timedelta(days=dflt)}.get(vt)
        attrs = {"value_type": pytype[vt], "entity": ents[e], "definition_period": periods.DateUnit(unit),
                 "label": names[i]}
        if vt == "e":
            attrs["possible_values"] = enum
            attrs["default_value"] = list(enum)[dflt % ENUM_SIZE]
        else:
            attrs["default_value"] = default
        if formula is not None:
            attrs["formula"] = _make_formula(formula[0], formula[1], names, dep_keys, ents)
        if "^" in black:
            from openfisca_core import holders
            attrs["set_input"] = holders.set_input_dispatch_by_period
        tbs.add_variable(type(names[i], (variables.Variable,), attrs))
    black = [names[i] for i, x in enumerate(sysd) if "!" in x[5]]
    if black:
        tbs.cache_blacklist = set(black)
    tbs._ofv_enum = enum
    return tbs, names, [x[4] for x in sysd]


def build_simulation(tbs, spec, names):
    """`Simulation(tbs, populations)` on hand-made populations; the configuration is installed before any
    holder exists (`Holder.__init__` reads the memory configuration)"""
    import numpy
    from openfisca_core import simulations
    from openfisca_core.experimental import MemoryConfig

    n, groups, mem, opt_out, msl = spec
    pops = tbs.instantiate_entities()
    pops["person"].count = n
    pops["person"].ids = [str(i) for i in range(n)]
    for e, count, mei, roles, positions in groups:
        gp = pops[entity_key(e)]
        gp.count = count
        gp.ids = [str(i) for i in range(count)]
        gp.members_entity_id = numpy.array(mei, dtype=numpy.int64)
        if roles is not None:         # as SimulationBuilder.join_with_persons does: an object array of flattened roles
            flattened = numpy.empty(len(gp.entity.flattened_roles), dtype=object)
            flattened[:] = list(gp.entity.flattened_roles)
            gp.members_role = flattened[numpy.array(roles, dtype=numpy.int64)]
        if positions is not None:
            gp.members_position = numpy.array(positions, dtype=numpy.int64)
    sim = simulations.Simulation(tbs, pops)
    if mem is not None:
        sim.memory_config = MemoryConfig(max_memory_occupation=0, priority_variables=[names[v] for v in mem[0]],
                                         variables_to_drop=[names[v] for v in mem[1]])
    sim.opt_out_cache = opt_out
    sim.max_spiral_loops = msl
    return sim


def real_period(p, as_text=False):
    from openfisca_core import periods

    unit, d, size = p
    if unit == "eternity":
        return "ETERNITY" if as_text else periods.period(periods.DateUnit.ETERNITY)
    if as_text and unit in ("year", "month", "day"):
        y, m, dd = d
        date = {"year": f"{y:04d}", "month": f"{y:04d}-{m:02d}", "day": f"{y:04d}-{m:02d}-{dd:02d}"}[unit]
        if (unit == "year" and (m, dd) == (1, 1)) or (unit == "month" and dd == 1) or unit == "day":
            return date if size == 1 else f"{unit}:{date}:{size}"
    return periods.Period((periods.DateUnit(unit), periods.Instant(d), size))


def show_period(p) -> str:
    if str(p.unit) == "eternity" or p.unit == "eternity":
        return "eternity"
    y, m, d = p.start
    return f"{p.unit.value if hasattr(p.unit, 'value') else p.unit}/{y},{m},{d}/{p.size}"


def tok(x) -> str:
    f = Fraction(float(x))
    return str(f.numerator) if f.denominator == 1 else f"{f.numerator}/{f.denominator}"


def _cell(x, vt) -> str:
    import numpy

    if vt == "s":
        s = str(x)
        return s[1:] if s[:1] == "s" and s[1:].lstrip("-").isdigit() else "?" + s
    if vt == "d":
        return str(int((numpy.datetime64(x, "D") - numpy.datetime64(EPOCH)).astype(int)))
    if vt == "b":
        return "1" if bool(x) else "0"
    return tok(x)


def show_vec(a, vt="f") -> str:
    import numpy

    if a is None:
        return "none"
    mark = ""
    if vt == "e":
        # an Enum variable's vector is an EnumArray of the variable's enumeration, wherever it comes from (formula,
        # input, cache, the store copied into a clone); a bare index array is not the same value: it compares unequal
        # to every member and cannot be decoded
        if numpy.ndim(a) > 0 and getattr(getattr(a, "possible_values", None), "__name__", None) != "OfvE":
            mark = "?bare-indices:"
        a = numpy.asarray(a).view(numpy.ndarray) if hasattr(a, "possible_values") else numpy.asarray(a)
        vt = "i"
    if numpy.ndim(a) == 0:
        return _cell(a, vt)
    return mark + ",".join(_cell(x, vt) for x in a)


def make_input(values, vt, style, tbs):
    """the object handed to set_input for the protocol integers `values` (several spellings per value type)"""
    import numpy

    if vt == "f":
        if style % 4 == 0:
            return numpy.array(values, dtype=numpy.float32)
        if style % 4 == 1:
            return [int(x) for x in values]
        if style % 4 == 2 and len(values) == 1:
            return numpy.float64(values[0])                       # 0-dimensional
        return numpy.array(values, dtype=numpy.float64)
    if vt == "i":
        return [numpy.array(values, dtype=numpy.int32), [int(x) for x in values], numpy.array(values, dtype=numpy.int64)][style % 3]
    if vt == "b":
        return [numpy.array(values, dtype=bool), [bool(x) for x in values], numpy.array(values, dtype=numpy.int64)][style % 3]
    if vt == "e":
        members = list(tbs._ofv_enum)
        if any(x < 0 or x >= ENUM_SIZE for x in values):
            return numpy.array(values, dtype=numpy.int64)
        return [[members[x].name for x in values], [members[x] for x in values], numpy.array(values, dtype=numpy.int64),
                tbs._ofv_enum.encode(numpy.array([members[x].name for x in values]))][style % 4]
    if vt == "s":
        return [numpy.array([f"s{x}" for x in values], dtype=object), [f"s{x}" for x in values]][style % 2]
    return numpy.array([numpy.datetime64(EPOCH) + numpy.timedelta64(int(x), "D") for x in values], dtype="datetime64[D]")


def entity_plural(k):
    return "persons" if k == 0 else f"g{k}s"


def route(sim, r, ent):
    """the population a caller gets through `get_population(plural)`, `populations[key]`, the `simulation.<key>`
    shortcut or `simulation.persons`"""
    if r == "g":
        return sim.get_population(entity_plural(ent))
    if r == "d":
        return sim.populations[entity_key(ent)]
    if r == "a":
        return getattr(sim, entity_key(ent))
    return sim.persons


def apply_op(sim, names, vtypes, op, style=0, tbs=None):
    """one public-API call; -> canonical result (`ok`, a vector, or `ERR` when the implementation raised).
    `style` varies the spelling of the arguments (Period object / period text, list / ndarray / dtype)."""
    import numpy

    name = names[op[1]] if op[0] in "sdkaghqui" and op[1] < len(names) else f"v{op[1]}"
    vt = vtypes[op[1]] if op[0] in "sdkaghqui" and op[1] < len(vtypes) else "f"
    text = style % 2 == 1
    via = (style // 7) % 4        # which object the caller addresses: the simulation (twice as often), the holder it
    #                               hands out, the holder of the population it hands out
    try:
        if op[0] == "s":
            value = make_input(op[3], vt, style // 2, tbs or sim.tax_benefit_system)
            if via == 2:
                sim.get_holder(name).set_input(real_period(op[2], text), value)
            elif via == 3:
                sim.get_variable_population(name).get_holder(name).set_input(real_period(op[2], text), value)
            else:
                sim.set_input(name, real_period(op[2], text), value)
            return "ok"
        if op[0] == "i":
            sim.invalidate_cache_entry(name, real_period(op[2]))
            return "ok"
        if op[0] == "g":
            count = sim.get_variable_population(name).count
            sim.set_input(name, real_period(op[2], text), numpy.array(["x"] * count))
            return "ok"
        if op[0] == "d":
            if via == 2:
                sim.get_holder(name).delete_arrays(None if op[2] is None else real_period(op[2], text))
            elif via == 3 and op[2] is None:
                sim.get_variable_population(name).get_holder(name).delete_arrays()
            else:
                sim.delete_arrays(name, None if op[2] is None else real_period(op[2], text))
            return "ok"
        if op[0] == "k":
            if (style // 11) % 4 == 3 and op[1] < len(names):
                # no variable here declares a `calculate_output` rule: a plain calculation (an unknown name is refused
                # before the tracer hears of the request: not the same history as `calculate`)
                return show_vec(sim.calculate_output(name, real_period(op[2], text)), vt)
            return show_vec(sim.calculate(name, real_period(op[2], text)), vt)
        if op[0] == "a":
            return show_vec(sim.calculate_add(name, real_period(op[2], text)), "f" if vt in "eb" else vt)
        if op[0] == "q":
            return show_vec(route(sim, op[3], op[4])(name, real_period(op[2], text)), vt)
        if op[0] == "u":
            return show_vec(route(sim, op[3], op[4]).get_holder(name).get_array(real_period(op[2])), vt)
        if op[0] == "t":
            sim.trace = op[1]
            return "ok"
        if op[0] == "h":
            sim.get_holder(name)
            return "ok"
    except Exception:      # noqa: BLE001 — whatever the implementation raised through its public API
        return "ERR"
    raise Malformed(str(op))


def apply_set_from(sim, src, names, vtypes, ev):
    """`sim.set_input(v, p, <the array object `src` holds for (w, q)>)`; `none` when `src` holds none"""
    _, v, p, _, w, q = ev
    try:
        if w >= len(names):
            return "none"
        a = src.get_array(names[w], real_period(q, as_text=True))
    except Exception:      # noqa: BLE001
        return "none"
    if a is None:
        return "none"
    try:
        sim.set_input(names[v] if v < len(names) else f"v{v}", real_period(p), a)
        return "ok"
    except Exception:      # noqa: BLE001
        return "ERR"


def var_index(name) -> int:
    return int(str(name)[1:])


def pop_index(key) -> int:
    return 0 if key == "person" else int(key[1:])


def known_values(sim, vtypes) -> dict:
    """every readable (variable, period) of a simulation -> vector text (through `get_known_periods` / `get_array`)"""
    out = {}
    for pop in sim.populations.values():
        for name in list(pop._holders):
            v = var_index(name)
            for p in sim.get_known_periods(name):
                try:
                    out[(v, show_period(p))] = show_vec(sim.get_array(name, p), vtypes[v])
                except Exception:      # noqa: BLE001 — a file of the shared directory has disappeared
                    out[(v, show_period(p))] = "ERR"
    return out


def role_reads(pop):
    """(flattened role of every member, nb_persons(role) for every standard role) through the public API"""
    flat = list(pop.entity.flattened_roles)
    roles = [flat.index(r) for r in pop.members_role]
    counts = [[tok(x) for x in pop.nb_persons(role_object(pop.entity, r))] for r in STD_ROLES]
    return roles, counts


def observe(sim, vtypes) -> str:
    """the canonical text `showObs` of Drv/Heap.lean prints for the model"""
    from openfisca_core import tracers

    b = lambda x: "T" if x else "F"
    tracer = sim.tracer
    full = isinstance(tracer, tracers.FullTracer)
    roots = [f"{var_index(n.name)}@{show_period(n.period)}" for n in tracer.trees] if full else []
    inval = sorted(f"{var_index(c.variable)}@{show_period(c.period)}" for c in sim.invalidated_caches)
    pops = []
    for key in sorted(sim.populations, key=pop_index):
        pop = sim.populations[key]
        hs = []
        for name in sorted(pop._holders, key=var_index):
            h = pop._holders[name]
            items = set()
            for p in sim.get_known_periods(name):
                try:
                    items.add(f"{show_period(p)}={show_vec(sim.get_array(name, p), vtypes[var_index(name)])}")
                except Exception:      # noqa: BLE001
                    return "ERR"
            hs.append(f"v{var_index(name)}:{b(h.population is pop)}{b(h.simulation is sim)}:" + "&".join(sorted(items)))
        members = getattr(pop, "members", None)
        mei = getattr(pop, "members_entity_id", None)
        rtxt = ""
        if members is not None:
            roles, counts = role_reads(pop)
            rtxt = (":r" + ".".join(map(str, roles)) + ":p" + ".".join(str(int(x)) for x in pop.members_position)
                    + ":c" + "/".join(",".join(c) for c in counts))
        pops.append(f"e{pop_index(key)}:{b(pop.simulation is sim)}{b(members is None or members is sim.persons)}:n{pop.count}:i"
                    + ".".join(str(i) for i in pop.ids) + ":"
                    + ".".join(str(int(g)) for g in (mei if mei is not None else [])) + rtxt + ":[" + " ".join(hs) + "]")
    rts = ".".join(str(pop_index(key)) + "".join(b(route(sim, r, pop_index(key)).simulation is sim) for r in "gda")
                   for key in sorted(sim.populations, key=pop_index))
    return (f"d{b(sim.debug)}o{b(sim.opt_out_cache)}m{sim.max_spiral_loops}t{b(sim.trace)}{b(full)}[" + " ".join(roots)
            + f"]s{len(tracer.stack)}i[" + " ".join(inval) + "]p"
            + b(sim.populations.get("person") is sim.persons) + "q" + b(sim.persons.simulation is sim) + rts
            + "{" + " ".join(pops) + "}")


def _disk_dir(disk):
    import os

    return ("dir", os.path.dirname(os.path.abspath(disk.storage_dir)))


def _sim_dir(sim):
    import os

    return None if sim._data_storage_dir is None else ("dir", os.path.abspath(sim._data_storage_dir))


def _objects(sim, pre):
    key = lambda o: o if isinstance(o, tuple) else id(o)
    out = [(key(sim), pre), (key(sim.populations), pre + ".pops"), (key(sim.tracer), pre + ".tr"),
           (key(sim.invalidated_caches), pre + ".iv")]
    if _sim_dir(sim) is not None:
        out.append((_sim_dir(sim), pre + ".dir"))
    for k in sorted(sim.populations, key=pop_index):
        pop = sim.populations[k]
        pn = f"{pre}.e{pop_index(k)}"
        out += [(id(pop), pn), (id(pop._holders), pn + ".hs")]
        for name in sorted(pop._holders, key=var_index):
            h = pop._holders[name]
            hn = f"{pn}.h{var_index(name)}"
            out += [(id(h), hn), (id(h._memory_storage), hn + ".mem"), (id(h._memory_storage._arrays), hn + ".mem.arr")]
            if h._disk_storage is not None:
                out.append((id(h._disk_storage), hn + ".disk"))
    return out


def alias_graph(orig, clone) -> str:
    """`id()`-equivalence classes over the model's reference fields, printed as `aliasGraph` prints them"""
    names = {}
    for k, n in _objects(orig, "o") + _objects(clone, "c"):
        names.setdefault(k, n)
    nm = lambda o: "none" if o is None else names.get(o if isinstance(o, tuple) else id(o), "?")
    out = []
    for sim, pre in ((orig, "o"), (clone, "c")):
        out += [f"{pre}.persons={nm(sim.persons)}", f"{pre}.pops={nm(sim.populations)}", f"{pre}.tracer={nm(sim.tracer)}",
                f"{pre}.inval={nm(sim.invalidated_caches)}", f"{pre}.dir={nm(_sim_dir(sim))}"]
        for k in sorted(sim.populations, key=pop_index):
            pop = sim.populations[k]
            pn = f"{pre}.e{pop_index(k)}"
            out += [f"{pn}={nm(pop)}", f"{pn}.sim={nm(pop.simulation)}", f"{pn}.hs={nm(pop._holders)}",
                    f"{pn}.members={nm(getattr(pop, 'members', None))}"]
            for name in sorted(pop._holders, key=var_index):
                h = pop._holders[name]
                hn = f"{pn}.h{var_index(name)}"
                out += [f"{hn}={nm(h)}", f"{hn}.pop={nm(h.population)}", f"{hn}.sim={nm(h.simulation)}",
                        f"{hn}.mem={nm(h._memory_storage)}", f"{hn}.arr={nm(h._memory_storage._arrays)}",
                        f"{hn}.disk={nm(h._disk_storage)}"]
                if h._disk_storage is not None:
                    out.append(f"{hn}.ddir={nm(_disk_dir(h._disk_storage))}")
    return " ".join(out)


def dispose(*sims) -> None:
    """remove the temporary directories of disk-backed simulations (the storages' own `__del__` fails on
    directories shared by a clone and its original)"""
    dirs = {s._data_storage_dir for s in sims if s is not None and getattr(s, "_data_storage_dir", None)}
    for s in sims:
        if s is None:
            continue
        # (defensive reads: this runs in a `finally`, and must never mask what the tree under test did — a clone
        # whose holders lack attributes is a failing input, reported by the code that met it first)
        for pop in (getattr(s, "populations", None) or {}).values():
            for h in (getattr(pop, "_holders", None) or {}).values():
                disk = getattr(h, "_disk_storage", None)
                if disk is not None:
                    try:
                        disk.preserve_storage_dir = True
                    except Exception:      # noqa: BLE001
                        pass
    gc.collect()
    for d in dirs:
        shutil.rmtree(d, ignore_errors=True)
