#!/bin/bash
# tools/run_all.sh [tier]: every claimed check on /repo, refreshing evidence/; prints one status line per property
tier=${1:-quick}
cd /verif
for p in $(python3 -c "import json; print(' '.join(c['property_id'] for c in json.load(open('MANIFEST.json'))['checks']))"); do
  s=$(date +%s)
  out=$(./check $p --tier $tier 2>&1)
  rc=$?
  e=$(( $(date +%s) - s ))
  echo "$p rc=$rc ${e}s $(echo "$out" | grep -c '^VIOLATION') violations, $(echo "$out" | grep -c '^KNOWN-FINDING') known; $(echo "$out" | tail -1 | sed 's/.*evaluations/evaluations/')"
done
