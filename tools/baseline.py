#!/venv/bin/python
"""tools/baseline.py <tree>: run the repository's suite from inside <tree> and compare with
/root/.vp/BASELINE.json (stable_pass must all pass)."""
import json, subprocess, sys, tempfile, os, xml.etree.ElementTree as ET
tree = sys.argv[1] if len(sys.argv) > 1 else "/repo"
base = json.load(open("/root/.vp/BASELINE.json"))
out = tempfile.mktemp(suffix=".xml", dir="/var/tmp")
subprocess.run(["/venv/bin/python", "-m", "pytest", "-ra", "-q", "-p", "no:cacheprovider", "--timeout=900",
                "--continue-on-collection-errors", f"--junitxml={out}"], cwd=tree, stdout=subprocess.DEVNULL, stderr=subprocess.DEVNULL)
passed = set()
for tc in ET.parse(out).getroot().iter("testcase"):
    if not any(ch.tag in ("failure", "error", "skipped") for ch in tc):
        passed.add(f"{tc.get('classname')}::{tc.get('name')}")
os.remove(out)
missing = [t for t in base["stable_pass"] if t not in passed]
print(f"tree={tree} passed={len(passed)} baseline={len(base['stable_pass'])} baseline_missing={len(missing)}")
for t in missing[:20]:
    print("  MISSING", t)
sys.exit(1 if missing else 0)
