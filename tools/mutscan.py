#!/venv/bin/python
"""tools/mutscan.py <repo-relative file> [--max N] [--seed S] [--props C01,C02] [--line A-B]

Development aid (not a registered check): systematic small mutations of one file of openfisca-core, to find
what the checks do not see.  For each sampled mutation site the file is rewritten in a SCRATCH git worktree of
/repo (never /repo itself), the 440-test baseline is run there, and when the suite still passes every check of
the properties anchored in that file runs against the scratch tree (quick tier, one seed) until one reports a
VIOLATION.  Outcomes: `tests` (killed by the existing suite), `check:<Cxx>` (caught), `SURVIVED`.
Survivors are either equivalent mutants or generator gaps: they are listed for review in
/verif/mutscan/<file>.json.

Mutation operators (on the AST, file rewritten with ast.unparse): comparison operator swaps (< <=, > >=,
== !=, is / is not, in / not in), and / or, dropped `not`, integer constant +-1, True / False, + / -, a dropped
keyword argument, `x is None` -> `not x` style truthiness swaps come out of the comparison swaps.  Sites inside
raise statements, f-strings, message assignments, __repr__ / __str__ of non-period classes, docstrings, type
annotations and `if TYPE_CHECKING` blocks are skipped (no property speaks about them).
"""
import argparse
import ast
import copy
import json
import os
import random
import subprocess
import sys
import time

V = os.path.dirname(os.path.dirname(os.path.abspath(__file__)))
SCRATCH = os.environ.get("MUT_SCRATCH", "/var/tmp/mut/tree")

ap = argparse.ArgumentParser()
ap.add_argument("file")
ap.add_argument("--max", type=int, default=12)
ap.add_argument("--seed", type=int, default=0)
ap.add_argument("--props", default="")
ap.add_argument("--line", default="")
ap.add_argument("--max-survivor-checks", type=int, default=99)
a = ap.parse_args()


def sh(cmd, **kw):
    return subprocess.run(cmd, shell=True, capture_output=True, text=True, **kw)


anch = []
for l in open(os.path.join(V, "properties.jsonl")):
    d = json.loads(l)
    if a.file in d["anchors"]["files"]:
        anch.append(d["id"])
props = [p for p in a.props.split(",") if p] or anch
if not props:
    print("no property is anchored in", a.file)
    sys.exit(2)

if not os.path.isdir(SCRATCH):
    os.makedirs(os.path.dirname(SCRATCH), exist_ok=True)
    sh(f"git -C /repo worktree add --detach {SCRATCH} HEAD")
sh(f"git -C {SCRATCH} checkout -- . && git -C {SCRATCH} checkout --detach $(git -C /repo rev-parse HEAD)")
path = os.path.join(SCRATCH, a.file)
src = open(path).read()
tree = ast.parse(src)

SKIP_FUNCS = {"__repr__", "__dir__"}
CMP = {ast.Lt: ast.LtE, ast.LtE: ast.Lt, ast.Gt: ast.GtE, ast.GtE: ast.Gt, ast.Eq: ast.NotEq, ast.NotEq: ast.Eq,
       ast.Is: ast.IsNot, ast.IsNot: ast.Is, ast.In: ast.NotIn, ast.NotIn: ast.In}

sites = []   # (description, lineno, path-of-indices to the node, operator-id)


def walk(node, trail, skip):
    if isinstance(node, (ast.Raise, ast.JoinedStr)):
        return
    if isinstance(node, (ast.FunctionDef, ast.AsyncFunctionDef)) and node.name in SKIP_FUNCS:
        return
    if isinstance(node, ast.If) and "TYPE_CHECKING" in ast.unparse(node.test):
        return
    if isinstance(node, ast.Assign) and any(isinstance(t, ast.Name) and any(w in t.id.lower() for w in ("msg", "message")) for t in node.targets):
        return
    if isinstance(node, ast.Expr) and isinstance(node.value, ast.Constant) and isinstance(node.value.value, str):
        return
    if isinstance(node, ast.Call) and ast.unparse(node.func).startswith(("warnings.warn", "log.", "logging.")):
        return
    ln = getattr(node, "lineno", None)
    if ln is not None and not skip:
        if isinstance(node, ast.Compare) and len(node.ops) == 1 and type(node.ops[0]) in CMP:
            sites.append((f"{type(node.ops[0]).__name__}->{CMP[type(node.ops[0])].__name__}", ln, trail, "cmp"))
        if isinstance(node, ast.BoolOp):
            sites.append(("and<->or", ln, trail, "bool"))
        if isinstance(node, ast.UnaryOp) and isinstance(node.op, ast.Not):
            sites.append(("drop not", ln, trail, "not"))
        if isinstance(node, ast.Constant) and isinstance(node.value, bool):
            sites.append((f"{node.value}->{not node.value}", ln, trail, "flip"))
        elif isinstance(node, ast.Constant) and isinstance(node.value, int) and abs(node.value) < 1000:
            sites.append((f"{node.value}->{node.value + 1}", ln, trail, "inc"))
            sites.append((f"{node.value}->{node.value - 1}", ln, trail, "dec"))
        if isinstance(node, ast.BinOp) and isinstance(node.op, (ast.Add, ast.Sub)):
            sites.append(("+<->-", ln, trail, "addsub"))
        if isinstance(node, ast.Call) and node.keywords:
            for i, k in enumerate(node.keywords):
                if k.arg:
                    sites.append((f"drop keyword {k.arg}=", ln, trail, f"kw{i}"))
    for field, value in ast.iter_fields(node):
        if field in ("annotation", "returns", "decorator_list"):
            continue
        if isinstance(value, list):
            for i, x in enumerate(value):
                if isinstance(x, ast.AST):
                    walk(x, trail + [(field, i)], skip)
        elif isinstance(value, ast.AST):
            walk(value, trail + [(field, None)], skip)


walk(tree, [], False)
if a.line:
    lo, hi = (a.line.split("-") + [a.line])[:2]
    sites = [s for s in sites if int(lo) <= s[1] <= int(hi)]
rng = random.Random(a.seed)
rng.shuffle(sites)


def mutate(site):
    desc, ln, trail, op = site
    t = copy.deepcopy(tree)
    parent, node, last = None, t, None
    for field, i in trail:
        parent, last = node, (field, i)
        node = getattr(node, field) if i is None else getattr(node, field)[i]

    def put(new):
        field, i = last
        if i is None:
            setattr(parent, field, new)
        else:
            getattr(parent, field)[i] = new
    if op == "cmp":
        node.ops = [CMP[type(node.ops[0])]()]
    elif op == "bool":
        node.op = ast.Or() if isinstance(node.op, ast.And) else ast.And()
    elif op == "not":
        put(node.operand)
    elif op == "flip":
        node.value = not node.value
    elif op == "inc":
        node.value += 1
    elif op == "dec":
        node.value -= 1
    elif op == "addsub":
        node.op = ast.Sub() if isinstance(node.op, ast.Add) else ast.Add()
    elif op.startswith("kw"):
        del node.keywords[int(op[2:])]
    return ast.unparse(ast.fix_missing_locations(t)) + "\n"


# sanity: the unparsed, unmutated file passes the suite
open(path, "w").write(ast.unparse(tree) + "\n")
r = sh(f"{V}/tools/baseline.py {SCRATCH}")
if r.returncode != 0:
    print("ast.unparse of the unmutated file already breaks the suite:", r.stdout[:300])
    sh(f"git -C {SCRATCH} checkout -- .")
    sys.exit(2)

results = []
done = 0
src_lines = src.splitlines()
for site in sites:
    if done >= a.max:
        break
    desc, ln, trail, op = site
    try:
        new = mutate(site)
        compile(new, path, "exec")
    except Exception as exc:  # noqa: BLE001
        continue
    open(path, "w").write(new)
    rec = {"file": a.file, "line": ln, "op": desc, "source": src_lines[ln - 1].strip()[:160]}
    t0 = time.time()
    try:        # the suite takes ~12 s; a mutant that makes a test loop for ever counts as killed
        suite_ok = sh(f"{V}/tools/baseline.py {SCRATCH}", timeout=240).returncode == 0
    except subprocess.TimeoutExpired:
        sh("pkill -f 'no:cacheprovider --timeout=900'")
        suite_ok = False
    if not suite_ok:
        rec["outcome"] = "tests"
        results.append(rec)
        print(f"[{len(results):3d}] L{ln:<4d} {desc:24s} tests      | {rec['source'][:90]}", flush=True)
        continue
    done += 1
    caught = None
    logs = {}
    for p in props[: a.max_survivor_checks]:
        r = sh(f"cd {V} && OFV_REPO={SCRATCH} VERIF_SEED={a.seed} ./check {p} --tier quick", timeout=3600)
        lines = [l for l in r.stdout.splitlines() if l.startswith("VIOLATION")]
        logs[p] = {"rc": r.returncode, "violations": [l[:160] for l in lines[:2]]}
        if r.returncode == 1:
            caught = p
            break
        if r.returncode == 2:
            logs[p]["tail"] = (r.stdout + r.stderr)[-300:]
    crashed = [p for p, l in logs.items() if l["rc"] == 2]
    rec["outcome"] = f"check:{caught}" if caught else ("CRASH:" + ",".join(crashed) if crashed else "SURVIVED")
    rec["checks"] = logs
    rec["seconds"] = round(time.time() - t0)
    results.append(rec)
    print(f"[{len(results):3d}] L{ln:<4d} {desc:24s} {rec['outcome']:10s} | {rec['source'][:90]}", flush=True)

sh(f"git -C {SCRATCH} checkout -- .")
sh(f"cd {V} && git checkout -- lean/OFCore/OFCore/Generated.lean 2>/dev/null")
os.makedirs(os.path.join(V, "mutscan"), exist_ok=True)
out = os.path.join(V, "mutscan", a.file.replace("/", "__") + f".seed{a.seed}.json")
json.dump({"file": a.file, "properties": props, "repo_head": sh("git -C /repo rev-parse --short HEAD").stdout.strip(),
           "sites_total": len(sites), "results": results}, open(out, "w"), indent=1)
k = sum(1 for r in results if r["outcome"] == "tests")
c = sum(1 for r in results if r["outcome"].startswith("check:"))
s = sum(1 for r in results if r["outcome"] == "SURVIVED")
print(f"# {a.file}: {len(sites)} sites, {len(results)} tried: {k} killed by the suite, {c} caught by a check, {s} survived -> {out}")
