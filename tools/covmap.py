#!/venv/bin/python
"""tools/covmap.py Cxx [N] — which lines of the property's anchored files does the check's implementation side execute?

Development aid (not a registered check): generates the quick-tier cases of the property, runs the
adapter (`impl`) and the oracle on a sample of N of them (default 3000, corpus first) in ONE process
under `coverage`, and prints, for every file the property is anchored in, the executable lines that
were never reached, with their source text.  A line never executed by the implementation side
cannot be told from a changed one: this is the list of generator gaps.
"""
import importlib
import json
import os
import random
import sys

V = os.path.dirname(os.path.dirname(os.path.abspath(__file__)))
sys.path.insert(0, os.path.join(V, "harness"))
pid = sys.argv[1]
N = int(sys.argv[2]) if len(sys.argv) > 2 else 3000
REPO = os.environ.get("OFV_REPO", "/repo")

import coverage  # noqa: E402

anchors = []
for l in open(os.path.join(V, "properties.jsonl")):
    d = json.loads(l)
    if d["id"] == pid:
        anchors = d["anchors"]["files"]
cov = coverage.Coverage(data_file=None, include=[os.path.join(REPO, "openfisca_core", "*"), os.path.join(REPO, "openfisca_web_api", "*")])
cov.start()
from ofverif import core  # noqa: E402
core.setup_repo_path()
mod = importlib.import_module(f"ofverif.props.{pid.lower()}")
P = mod.PROP
if P.init_worker:
    P.init_worker()
rng = random.Random(int(os.environ.get("VERIF_SEED", "0")))
cases = list(P.corpus()) if P.corpus else []
gen = list(P.generate(rng, "quick"))
rng.shuffle(gen)
cases += gen[:N]
n_ok = 0
for c in cases:
    try:
        out = P.impl(c)
        n_ok += 1
        try:
            P.oracle(c, out)
        except Exception:
            pass
    except Exception as exc:  # noqa: BLE001
        pass
cov.stop()
print(f"# {pid}: {n_ok}/{len(cases)} cases run; anchored files: {anchors}")
for a in anchors:
    f = os.path.join(REPO, a)
    try:
        _, stmts, _, missing, _ = cov.analysis2(f)
    except Exception as exc:  # noqa: BLE001
        print(f"## {a}: no data ({exc})")
        continue
    src = open(f).read().splitlines()
    print(f"## {a}: {len(stmts) - len(missing)}/{len(stmts)} statements executed; not executed:")
    for ln in missing:
        print(f"   {ln:4d}: {src[ln - 1].rstrip()[:150]}")
