#!/usr/bin/env python3
"""tools/fill_design.py: (re)generate the seeded-change table of DESIGN.md section 13.6 between its markers"""
import re, subprocess, json, glob, os
V = os.path.dirname(os.path.dirname(os.path.abspath(__file__)))
table = subprocess.run(["python3", os.path.join(V, "tools/seeded_table.py")], capture_output=True, text=True).stdout.strip()
notes = json.load(open(os.path.join(V, "seeded/NOTES.json")))
pat = re.compile(r"missed as delivered|genuinely missed|quantifies over|needs Simulation.clone|abstracts the engine|missed at first|first run|missed by C18 at first|not caught|caught after|caught at seed 1 only|only after|invisible to|C14's: caught by C14|: caught by C10|: caught by C17")
rounds = {}
for d in sorted(glob.glob(os.path.join(V, "seeded/C*/"))):
    k = os.path.basename(d.rstrip("/")); r = (int(k.split("-")[1]) + 1) // 2
    rounds.setdefault(r, [0, 0])
    rounds[r][0] += 1
    if k in notes and pat.search(notes[k]):
        rounds[r][1] += 1
summary = "\n".join(f"* round {r}: {n} changes, {n - m} caught by the property's own quick check as it stood when the change was delivered, {m} led to a strengthening (or are explained in the note column)"
                    for r, (n, m) in sorted(rounds.items()))
block = "<!-- SEEDED-TABLE-BEGIN -->\n" + summary + "\n\n" + table + "\n<!-- SEEDED-TABLE-END -->"
p = os.path.join(V, "DESIGN.md")
s = open(p).read()
if "SEEDED_TABLE_PLACEHOLDER" in s:
    s = s.replace("SEEDED_TABLE_PLACEHOLDER", block)
else:
    s = re.sub(r"<!-- SEEDED-TABLE-BEGIN -->.*?<!-- SEEDED-TABLE-END -->", lambda m: block, s, flags=re.S)
open(p, "w").write(s)
print(summary)
