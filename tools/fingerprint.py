#!/venv/bin/python
"""tools/fingerprint.py [--write] [tree]: AST fingerprints of every file a property is anchored in.

--write records them in /verif/source_fingerprints.json (do this on the unchanged tree, after every `fix:`
commit landed in /repo); without it the current tree is compared with the record, per property.
"""
import json
import os
import subprocess
import sys

V = os.path.dirname(os.path.dirname(os.path.abspath(__file__)))
sys.path.insert(0, os.path.join(V, "harness"))
from ofverif import srcmap  # noqa: E402

args = [a for a in sys.argv[1:] if not a.startswith("--")]
tree = args[0] if args else "/repo"
pids = [json.loads(l)["id"] for l in open(os.path.join(V, "properties.jsonl"))]
if "--write" in sys.argv:
    dirty = subprocess.run(["git", "-C", tree, "status", "--porcelain", "--untracked-files=no"], capture_output=True, text=True).stdout.strip()
    if dirty:
        print("refusing: the tree has uncommitted changes\n" + dirty)
        sys.exit(1)
    files = sorted({f for p in pids for f in srcmap.anchored_files(p)})
    commit = subprocess.run(["git", "-C", tree, "rev-parse", "HEAD"], capture_output=True, text=True).stdout.strip()
    body = {"repo_commit": commit, "files": srcmap.snapshot(tree, files)}
    with open(srcmap.BASELINE, "w") as f:
        json.dump(body, f, indent=0, sort_keys=True)
    print(f"{len(files)} files, {sum(len(v) for v in body['files'].values())} units recorded at {commit[:10]}")
else:
    for p in pids:
        r = srcmap.compare(p, tree)
        print(p, r["status"], r["files"], "files", r["functions"], "units", *r["changed"][:6])
