#!/venv/bin/python
"""tools/seedtest.py <ID> <n> [check ids…]  — confirm a seeded change and run the checks against it.

Uses the scratch worktree /tmp/seed/<ID> (never /repo): demo passes clean, patch applies, demo fails with
the patch, the 440-test baseline still passes, then `OFV_REPO=<worktree> ./check <Cxx>` for the given
checks (default: the property itself), quick tier, seeds 0 and 1.  Writes /verif/seeded/<ID>-<n>/.
"""
import json, os, shutil, subprocess, sys, time
ID, n = sys.argv[1], sys.argv[2]
checks = sys.argv[3:] or [ID]
ROOT = os.environ.get("SEED_ROOT", "/tmp/seed")
OFF = int(os.environ.get("SEED_OFFSET", "0"))      # round 2: SEED_ROOT=/tmp/seed2 SEED_OFFSET=2
wt = f"{ROOT}/{ID}"
out = f"{ROOT}/{ID}/out"
V = "/verif"
def sh(cmd, **kw):
    return subprocess.run(cmd, shell=True, capture_output=True, text=True, **kw)
# re-test of a kept change: recreate the scratch worktree / deliverables from /verif/seeded/<ID>-<n+OFF>
if not os.path.isdir(wt):
    sh(f"git -C /repo worktree add --detach {wt} HEAD")
kept = f"{V}/seeded/{ID}-{int(n) + OFF}"
if not os.path.exists(f"{out}/patch{n}.diff") and os.path.isdir(kept):
    os.makedirs(out, exist_ok=True)
    shutil.copy(f"{kept}/patch.diff", f"{out}/patch{n}.diff")
    shutil.copy(f"{kept}/demo.py", f"{out}/demo{n}.py")
    m = json.load(open(f"{kept}/meta.json")); m.pop("confirmation", None); m.pop("caught_by", None)
    json.dump(m, open(f"{out}/meta{n}.json", "w"), indent=1)
res = {"property": ID, "n": int(n), "checks": {}}
sh(f"git -C {wt} checkout -- . ")
r = sh(f"cd {wt} && /venv/bin/python {out}/demo{n}.py"); res["demo_clean"] = {"rc": r.returncode, "tail": (r.stdout + r.stderr)[-300:]}
r = sh(f"git -C {wt} apply {out}/patch{n}.diff"); res["apply_rc"] = r.returncode
if r.returncode != 0:
    print("PATCH DOES NOT APPLY", r.stderr[:300]); sys.exit(2)
r = sh(f"cd {wt} && /venv/bin/python {out}/demo{n}.py"); res["demo_patched"] = {"rc": r.returncode, "tail": (r.stdout + r.stderr)[-400:]}
r = sh(f"{V}/tools/baseline.py {wt}"); res["baseline"] = r.stdout.strip().splitlines()[0] if r.stdout else r.stderr[-200:]
res["baseline_ok"] = r.returncode == 0
for c in checks:
    res["checks"][c] = []
    for seed in (0, 1):
        t0 = time.time()
        r = sh(f"cd {V} && OFV_REPO={wt} OFV_NPROC=8 VERIF_SEED={seed} ./check {c} --tier quick", timeout=3000)
        lines = [l for l in r.stdout.splitlines() if l.startswith(("VIOLATION", "KNOWN-FINDING"))]
        res["checks"][c].append({"seed": seed, "rc": r.returncode, "wall_s": round(time.time() - t0, 1), "lines": [l[:200] for l in lines]})
        if r.returncode == 1:
            break
sh(f"git -C {wt} checkout -- . ")
# restore Generated.lean / evidence to the /repo state
sh(f"cd {V} && git checkout -- lean/OFCore/OFCore/Generated.lean lean/OFCore/OFCore/GeneratedGuards.lean lean/OFCore/OFCore/GeneratedParam.lean lean/OFCore/OFCore/GeneratedEngine.lean lean/OFCore/OFCore/GeneratedScale.lean evidence 2>/dev/null")
d = f"{V}/seeded/{ID}-{int(n) + OFF}"
os.makedirs(d, exist_ok=True)
shutil.copy(f"{out}/patch{n}.diff", f"{d}/patch.diff")
shutil.copy(f"{out}/demo{n}.py", f"{d}/demo.py")
meta = json.load(open(f"{out}/meta{n}.json")) if os.path.exists(f"{out}/meta{n}.json") else {}
meta["confirmation"] = res
caught = [c for c, rs in res["checks"].items() if any(x["rc"] == 1 for x in rs)]
meta["caught_by"] = caught
json.dump(meta, open(f"{d}/meta.json", "w"), indent=1)
print(json.dumps(res, indent=1)[:3000])
print("CAUGHT BY:", caught)
