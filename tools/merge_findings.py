#!/usr/bin/env python3
"""tools/merge_findings.py Cxx [...]: merge harness/ofverif/props/cxx.findings.json into known_findings.json
(entries keyed by (property, id, signature); fixed entries get the /repo commit whose subject matches notes/fixes.py)."""
import json, os, subprocess, sys
V = os.path.dirname(os.path.dirname(os.path.abspath(__file__)))
src = open(os.path.join(V, "notes/fixes.py")).read().split("if __name__")[0]
ns = {}
ARGS = sys.argv[1:]
sys.argv = ["x"]
exec(src, ns)
FIXES = ns["FIXES"]
log = subprocess.run(["git", "-C", "/repo", "log", "--format=%h %s"], capture_output=True, text=True).stdout.splitlines()
commit_of = {}
for fid, (msg, _) in FIXES.items():
    for l in log:
        if l.split(" ", 1)[1] == msg:
            commit_of[fid] = l.split()[0]
known = json.load(open(os.path.join(V, "known_findings.json")))
idx = {(k["property"], k["id"], k["signature"]): i for i, k in enumerate(known)}
for pid in ARGS:
    path = os.path.join(V, "harness/ofverif/props", pid.lower() + ".findings.json")
    for e in json.load(open(path)):
        if e["status"] == "fixed":
            fid = e["id"].replace("F-", "")
            cands = [fid] if fid in commit_of else [f for f in commit_of if f.startswith(fid)]
            if fid in ("C12g", "C12h"):
                cands = [f for f in commit_of if f == "C12gh"]
            if fid == "C14f":
                cands = [f for f in commit_of if f in ("C14f", "C14g")]
            if fid in ("C17", "C19b"):
                cands = [f for f in commit_of if f == "C17"]
            if cands:
                e["commit"] = ",".join(sorted({commit_of[c] for c in cands}))
            else:
                e["commit"] = "PENDING"
        key = (e["property"], e["id"], e["signature"])
        if key in idx:
            known[idx[key]] = e
        else:
            idx[key] = len(known)
            known.append(e)
for k in known:
    what = k["description"].split(";")[0].split(". ")[0][:200]
    if k["status"] == "fixed":
        k["record"] = f"fixed: property={k['property']} {k.get('commit', 'PENDING')} {what}"
    else:
        k["record"] = f"open: property={k['property']} {k['id']} {what}"
json.dump(known, open(os.path.join(V, "known_findings.json"), "w"), indent=1)
for k in known:
    print(k["property"], k["id"], k["status"], k.get("commit", ""), k["signature"][:60])
