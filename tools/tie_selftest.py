#!/venv/bin/python
"""tools/tie_selftest.py: the tie theorems (Props/C*Tie.lean) must build BOTH against the decision code translated
from /repo AND against the fall-back definitions the translator emits for a function it cannot translate
(OFV_TRANSLATE_FORCE_FALLBACK=1).  Holds the build lock meanwhile; leaves the real translation in place."""
import fcntl, glob, os, subprocess, sys
V = os.path.dirname(os.path.dirname(os.path.abspath(__file__)))
sys.path.insert(0, os.path.join(V, "harness"))
from ofverif import translate  # noqa: E402
L = os.path.join(V, "lean", "OFCore")
T = sorted("OFCore.Props." + os.path.basename(f)[:-5] for f in glob.glob(os.path.join(L, "OFCore/Props/C*Tie.lean")))
f = open(os.path.join(L, ".lake", "ofverif.lock"), "w")
fcntl.flock(f, fcntl.LOCK_EX)
rc = 0
try:
    for mode in ("fallback", "real"):
        if mode == "fallback":
            os.environ["OFV_TRANSLATE_FORCE_FALLBACK"] = "1"
        else:
            os.environ.pop("OFV_TRANSLATE_FORCE_FALLBACK", None)
        translate.regenerate("/repo", L)
        r = subprocess.run(["lake", "build", *T], cwd=L, capture_output=True, text=True)
        errs = [l for l in (r.stdout + r.stderr).splitlines() if "error" in l][:10]
        print(mode, "build rc", r.returncode, errs)
        rc |= r.returncode
finally:
    os.environ.pop("OFV_TRANSLATE_FORCE_FALLBACK", None)
    translate.regenerate("/repo", L)
    f.close()
sys.exit(rc)
