#!/usr/bin/env python3
"""Writes /verif/MANIFEST.json from the table below (single source of truth for what is claimed)."""
import json
import os

VERIF = os.path.dirname(os.path.dirname(os.path.abspath(__file__)))
ALL = ["C%02d" % i for i in range(1, 21)]

# pid -> dict(text=..., note=..., technique=..., design_ref=...)
CLAIMED = {}

NOT_YET = "check not built yet in this round (model + theorems + correspondence planned in DESIGN.md section 7); not claimed until it exists"


def load_claims():
    path = os.path.join(VERIF, "tools", "claims.json")
    if os.path.exists(path):
        CLAIMED.update(json.load(open(path)))


def ties():
    import glob
    return sorted("OFCore.Props." + os.path.basename(f)[:-5] for f in glob.glob(os.path.join(VERIF, "lean/OFCore/OFCore/Props/C*Tie.lean")))


def drivers():
    import re
    lf = open(os.path.join(VERIF, "lean", "OFCore", "lakefile.toml")).read()
    return re.findall(r'name = "(ofdrv_\w+)"', lf)


def main():
    load_claims()
    checks = []
    for pid in ALL:
        if pid not in CLAIMED:
            continue
        c = CLAIMED[pid]
        checks.append({
            "property_id": pid,
            "quick_cmd": f"./check {pid} --tier quick",
            "thorough_cmd": f"./check {pid} --tier thorough",
            "evidence_file": f"/verif/evidence/{pid}.json",
            "replay_cmd_template": f"./check {pid} --replay {{path}}",
            "engine": "lean4-model+correspondence",
            "level_claimed": {"category": "proof", "text": c["text"], "design_ref": c.get("design_ref", "DESIGN.md section 7, " + pid)},
            "level_note": c["note"],
            "technique": c.get("technique", "Lean 4 theorems about a hand-written executable model + differential correspondence check against the implementation"),
        })
    na = [{"property_id": pid, "reason": NOT_YET} for pid in ALL if pid not in CLAIMED]
    m = {
        "version": 1,
        "setup_cmd": "cd /verif/lean/OFCore && lake build " + " ".join(["OFCore"] + [f"OFCore.Props.{c['property_id']}" for c in checks] + ties() + drivers()),
        "hooks": {
            "guard": "OPENFISCA_CORE_VERIF",
            "enable": "no hooks are needed: checks import the working tree of /repo in-process (OFV_REPO selects another tree)",
            "baseline_off_cmd": "cd /repo && /venv/bin/python -m pytest -ra -q -p no:cacheprovider --timeout=900 --continue-on-collection-errors",
            "source_commits": [],
            "add_only": True,
        },
        "engines": [{
            "name": "lean4-model+correspondence", "path": "/verif/lean/OFCore + /verif/harness/ofverif",
            "serves_properties": [c["property_id"] for c in checks],
            "kind_free_text": "Lean 4 executable models and kernel-checked theorems (lake project OFCore); decision code translated from the source on every run with tie theorems; compiled model driver over a line protocol; Python harness running the real openfisca-core in-process on the same inputs; property oracles for failing-input search",
        }],
        "checks": checks,
        "notes": "See DESIGN.md (section 14 for the second round). `./check Cxx --tier quick|thorough`; VERIF_SEED seeds the single PRNG; OFV_REPO selects the tree under test. The models are tied to the source BOTH ways on every run: a differential correspondence (model driver vs the real code in-process) and, for the decision code of the engine, a Python->Lean translation of the current source (harness/ofverif/translate.py -> OFCore/Generated*.lean) with tie theorems in OFCore/Props/CxxTie.lean. A changed source (AST fingerprints, source_fingerprints.json) never alarms by itself; it escalates the exploration budget of the run. Genuine defects repaired by unguarded `fix:` commits in /repo are listed in known_findings.json (status fixed, with the commit); open findings print KNOWN-FINDING lines.",
        "not_applicable": na,
    }
    with open(os.path.join(VERIF, "MANIFEST.json"), "w") as f:
        json.dump(m, f, indent=1)
    print(f"claimed: {[c['property_id'] for c in checks]}")


if __name__ == "__main__":
    main()
