#!/usr/bin/env python3
"""prints the markdown table of /verif/seeded/*/meta.json (which check caught which seeded change)"""
import glob, json, os
rows = []
NOTES = json.load(open("/verif/seeded/NOTES.json")) if os.path.exists("/verif/seeded/NOTES.json") else {}
for d in sorted(glob.glob("/verif/seeded/*/")):
    m = json.load(open(d + "meta.json"))
    name = os.path.basename(d.rstrip("/"))
    conf = m.get("confirmation", {})
    caught = ", ".join(m.get("caught_by", [])) or "**missed**"
    first = ""
    for c, rs in conf.get("checks", {}).items():
        for r in rs:
            if r["rc"] == 1 and r["lines"]:
                first = r["lines"][0].split("replay=")[-1][:60]
                break
    rows.append(f"| {name} | {m.get('summary', '')[:150].replace('|', '/')} | {m.get('needs', '')[:140].replace('|', '/')} | {caught} | {NOTES.get(name, m.get('note', ''))} |")
print("| seeded change | what it does | what it needs to manifest | caught by (quick tier) | note |")
print("|---|---|---|---|---|")
print("\n".join(rows))
