import warnings; warnings.simplefilter("ignore")
import random, collections, sys, os
import numpy as np, openfisca_core
from openfisca_core import periods, entities, taxbenefitsystems, variables, simulations
from openfisca_core.parameters import ParameterNode
from openfisca_core.periods import DateUnit as U
from openfisca_core.simulations import SimulationBuilder
random.seed(int(sys.argv[1]) if len(sys.argv)>1 else 1)
bad=collections.Counter(); ex={}
def flag(k,*i): bad[k]+=1; ex.setdefault(k,i)
person=entities.Entity("person","persons","","")
hh=entities.GroupEntity("household","households","","", roles=[{"key":"parent","plural":"parents","subroles":["first_parent","second_parent"]},{"key":"child","plural":"children"},{"key":"ref","max":1}])
PARENT,CHILD,REF=hh.roles
tbs=taxbenefitsystems.TaxBenefitSystem([person,hh]); tbs.parameters=ParameterNode("",data={})
def mk(name, vt=float, dp=U.MONTH, ent=person, **kw):
    d=dict(value_type=vt, entity=ent, definition_period=dp); d.update(kw); tbs.add_variable(type(name,(variables.Variable,),d))
mk("x"); mk("k",int); mk("hx",ent=hh)
mk("h_sum",ent=hh,formula=lambda h,p: h.sum(h.members("x",p)))
mk("h_sum_child",ent=hh,formula=lambda h,p: h.sum(h.members("x",p),role=CHILD))
mk("h_max",ent=hh,formula=lambda h,p: h.max(h.members("x",p)))
mk("h_min_par",ent=hh,formula=lambda h,p: h.min(h.members("x",p),role=PARENT))
mk("h_nb",ent=hh,formula=lambda h,p: h.nb_persons())
mk("h_nbc",ent=hh,formula=lambda h,p: h.nb_persons(CHILD))
mk("h_any",bool,ent=hh,formula=lambda h,p: h.any(h.members("x",p)>5))
mk("h_all",bool,ent=hh,formula=lambda h,p: h.all(h.members("x",p)>2,role=CHILD))
mk("h_ref",ent=hh,formula=lambda h,p: h.ref("x",p))
mk("h_first",ent=hh,formula=lambda h,p: h.first_person("x",p))
mk("h_2nd",ent=hh,formula=lambda h,p: h.value_nth_person(1,h.members("x",p),default=-1))
mk("p_proj",formula=lambda q,p: q.household("hx",p)+q("x",p))
mk("p_chain",formula=lambda q,p: q.household.sum(q.household.members("x",p)) - q("x",p))
mk("p_rank",int,formula=lambda q,p: q.get_rank(q.household, q("x",p)*100+q("k",p)))
mk("p_rank_c",int,formula=lambda q,p: q.get_rank(q.household, -q("x",p)*100-q("k",p), condition=q.has_role(CHILD)))
mk("p_scalar",formula=lambda q,p: 3)
mk("p_hsum2",formula=lambda q,p: q.household("h_sum",p)*2 + q.household("h_nb",p))
OUT=[v for v in tbs.variables if v not in ("x","k","hx")]
def rnd_sit(prefix):
    n=random.randint(1,6); g=random.randint(1,3)
    persons={f"{prefix}p{i}":{"x":{"2018-01":float(random.randint(0,9))},"k":{"2018-01":i}} for i in range(n)}
    groups={f"{prefix}h{j}":{"hx":{"2018-01":float(random.randint(0,9)*10)}} for j in range(g)}
    hasref=set()
    for pid in persons:
        if random.random()<0.1: continue
        gk=random.choice(list(groups)); r=random.choice(["parents","children","children","ref"])
        if r=="ref":
            if gk in hasref: r="children"
            else: hasref.add(gk); groups[gk]["ref"]=[pid]; continue
        if r=="parents" and len(groups[gk].get("parents",[]))>=2: r="children"
        groups[gk].setdefault(r,[]).append(pid)
    return {"persons":persons,"households":groups}
def run(sit):
    sim=SimulationBuilder().build_from_entities(tbs,sit); out={}
    for v in OUT:
        pop=sim.get_variable_population(v)
        try: arr=sim.calculate(v,"2018-01").tolist()
        except Exception as e: arr=["ERR:"+type(e).__name__]*pop.count
        for i,eid in enumerate(pop.ids): out[(v,eid)]=arr[i]
    return out
def shuffled(d): it=list(d.items()); random.shuffle(it); return dict(it)
def interleave(d1,d2):
    a=list(d1.items()); b=list(d2.items()); out=[]
    while a or b:
        if a and (not b or random.random()<0.5): out.append(a.pop(0))
        else: out.append(b.pop(0))
    return dict(out)
for it in range(300):
    a=rnd_sit("a"); b=rnd_sit("b")
    ra=run(a); rb=run(b)
    # merged, interleaved; role lists inside groups keep their order
    m={"persons":interleave(a["persons"],b["persons"]),"households":interleave(a["households"],b["households"])}
    rm=run(m)
    exp={**ra,**rb}
    # own-groups of unallocated persons get the person's id: present in both
    for k,vv in exp.items():
        if rm.get(k)!=vv: flag("merge-diff",k,rm.get(k),vv); break
    # permutation of a alone
    pa={"persons":shuffled(a["persons"]),"households":shuffled(a["households"])}
    rp=run(pa)
    for k,vv in ra.items():
        if k[0] in ("h_first","h_2nd"): continue
        if rp.get(k)!=vv: flag("perm-diff",k,rp.get(k),vv,a,pa); break
print(os.path.dirname(openfisca_core.__file__), dict(bad))
for k,v in ex.items(): print(k, str(v)[:900])
