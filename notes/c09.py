import warnings; warnings.simplefilter("ignore")
import random, collections, sys, os, copy
from fractions import Fraction as F
import numpy as np, openfisca_core
from openfisca_core import taxscales
random.seed(int(sys.argv[1]) if len(sys.argv)>1 else 1)
bad=collections.Counter(); ex={}
def flag(k,*i): bad[k]+=1; ex.setdefault(k,i)
def near(x,f): return abs(F(float(x))-f) < F(1,2**18)
def calcF(ts,rs,b):
    tot=F(0)
    for i,(t,r) in enumerate(zip(ts,rs)):
        top=b if i+1==len(ts) else min(b,ts[i+1]); tot+=r*max(F(0),top-t)
    return tot
def rnd_scale(start0=None, maxrate=16):
    n=random.randint(1,5); ts=sorted(random.sample(range(0,20),n)); ts=[F(t*50) for t in ts]
    if start0 is True: ts[0]=F(0)
    rs=[F(random.randint(0,maxrate),16) for _ in ts]
    s=taxscales.MarginalRateTaxScale()
    for t,r in zip(ts,rs): s.add_bracket(float(t),float(r))
    return s,ts,rs
def snap(s): return (list(s.thresholds), list(s.rates))
BASES=[F(x) for x in [0,10,50,75,100,149,150,300,500,999,1000,5000]]
arr=np.array([float(b) for b in BASES])
for it in range(3000):
    a,ta,ra=rnd_scale(); b,tb,rb=rnd_scale()
    before_b=snap(b); ea=[calcF(ta,ra,x)+calcF(tb,rb,x) for x in BASES]
    try:
        a.add_tax_scale(b); out=a.calc(arr)
        for x,o,e in zip(BASES,out,ea):
            if not near(o,e): flag("combine",ta,ra,tb,rb,x,float(o),float(e)); break
        if snap(b)!=before_b: flag("combine-mutates-arg")
    except Exception as e_: flag("combine-exc:"+type(e_).__name__,ta,ra,tb,rb)
    # inverse
    s,ts,rs=rnd_scale(start0=True, maxrate=15)
    before=snap(s)
    try:
        inv=s.inverse()
        if snap(s)!=before: flag("inverse-mutates")
        net=np.array([float(x-calcF(ts,rs,x)) for x in BASES]); g=inv.calc(net)
        for x,o in zip(BASES,g):
            if abs(float(o)-float(x))>1e-6*(1+float(x)): flag("inverse",ts,rs,x,float(o)); break
    except Exception as e_: flag("inverse-exc:"+type(e_).__name__,ts,rs)
    # multiply
    s,ts,rs=rnd_scale(); k=F(random.choice([1,2,3,5,8]),random.choice([1,2,4])); before=snap(s)
    m=s.multiply_thresholds(float(k), inplace=False)
    if snap(s)!=before: flag("mult-mutates")
    o=m.calc(arr*float(k))
    for x,oo in zip(BASES,o):
        if not near(oo,k*calcF(ts,rs,x)): flag("mult-thr",ts,rs,k,x,float(oo)); break
    m2=s.multiply_rates(float(k), inplace=False); o=m2.calc(arr)
    for x,oo in zip(BASES,o):
        if not near(oo,k*calcF(ts,rs,x)): flag("mult-rate",ts,rs,k,x); break
    if snap(s)!=before: flag("mulr-mutates")
    # average roundtrip
    try:
        rt=s.to_average().to_marginal(); o=rt.calc(arr)
        if snap(s)!=before: flag("avg-mutates")
        for x,oo in zip(BASES,o):
            if abs(float(oo)-float(calcF(ts,rs,x)))>1e-6*(1+float(x)): flag("avg-rt",ts,rs,x,float(oo),float(calcF(ts,rs,x)),snap(rt)); break
    except Exception as e_: flag("avg-exc:"+type(e_).__name__,ts,rs)
    c=s.copy(); c.add_bracket(12345.0,0.5)
    if snap(s)!=before: flag("copy-shares")
print(os.path.dirname(openfisca_core.__file__), dict(bad))
for k,v in ex.items(): print(k, str(v)[:400])
