import warnings; warnings.simplefilter("ignore")
import random, collections, datetime
import numpy as np
from openfisca_core import periods, entities, taxbenefitsystems, variables, simulations, populations, errors
from openfisca_core.periods import DateUnit as U, Period, Instant
random.seed(2)
bad=collections.Counter(); ex={}
def flag(k,*i): bad[k]+=1; ex.setdefault(k,i)
UNITS=[U.MONTH,U.YEAR,U.DAY,U.ETERNITY]
def transform(kind, p):
    return {"same":lambda:p,"this_year":lambda:p.this_year,"first_month":lambda:p.first_month,"last_month":lambda:p.last_month,
            "last_year":lambda:p.last_year,"first_day":lambda:p.first_day,"n_2":lambda:p.n_2}[kind]()
def compatible(def_unit, caller_unit):
    # transforms producing a period of unit def_unit from a caller period of caller_unit
    if def_unit==U.ETERNITY: return ["same","this_year","first_month"]
    if def_unit==U.YEAR: return ["this_year","last_year","n_2"]+(["same"] if caller_unit==U.YEAR else [])
    if def_unit==U.MONTH: return ["first_month","last_month"]+(["same"] if caller_unit==U.MONTH else [])
    if def_unit==U.DAY: return ["first_day"]+(["same"] if caller_unit==U.DAY else [])
def build_system():
    n=random.randint(3,9); person=entities.Entity("person","persons","","")
    tbs=taxbenefitsystems.TaxBenefitSystem([person]); spec={}
    for i in range(n):
        name=f"v{i}"; du=random.choice(UNITS); vt=random.choice([float,int,bool])
        forms={}
        for k in range(random.choice([0,1,1,2,3]) if i>0 else 0):
            start = datetime.date.min if ((k==0 and random.random()<0.6) or du==U.ETERNITY) else datetime.date(random.choice([2016,2017,2018]), random.choice([1,1,6,7]), 1)
            terms=[]
            for _ in range(random.randint(0,3)):
                j=random.randrange(0,i); dj=spec[f"v{j}"]["du"]
                caller = du if du!=U.ETERNITY else None
                opts=[]
                mode="plain"
                if caller is None:
                    continue  # eternity variable formulas: period arbitrary; skip deps for simplicity
                tr=random.choice(compatible(dj, caller))
                # ADD/DIVIDE possibilities
                if dj==U.MONTH and caller==U.YEAR and random.random()<0.5: tr="same"; mode="add"
                if dj==U.DAY and caller==U.MONTH and random.random()<0.5: tr="same"; mode="add"
                if dj==U.YEAR and caller==U.MONTH and random.random()<0.5: tr="same"; mode="div"
                terms.append((random.choice([1,2,-1,3]), f"v{j}", tr, mode))
            forms[start]=(random.randint(-3,5), terms)
        end = random.choice([None,None,None,datetime.date(2017,12,31),datetime.date(2018,6,30)])
        if forms and end and max(forms)>end: end=None
        if du==U.ETERNITY: end=None
        spec[name]=dict(du=du, vt=vt, forms=forms, end=end, default={float:0.0,int:0,bool:False}[vt])
        attrs=dict(value_type=vt, entity=person, definition_period=du)
        if end: attrs["end"]=end.isoformat()
        for start,(c,terms) in forms.items():
            def make(c=c,terms=terms):
                def formula(p, period):
                    tot=p.filled_array(float(c))
                    for coef,vn,tr,mode in terms:
                        q=transform(tr,period)
                        if mode=="plain": x=p(vn,q)
                        elif mode=="add": x=p(vn,q,options=[populations.ADD])
                        else: x=p(vn,q,options=[populations.DIVIDE])*12  # year/12*12 exact for multiples
                        tot=tot+coef*x.astype(float)
                    return tot
                return formula
            fname="formula" if start==datetime.date.min else f"formula_{start.year}_{start.month:02d}_{start.day:02d}"
            attrs[fname]=make()
        tbs.add_variable(type(name,(variables.Variable,),attrs))
    return tbs,spec
def cast(vt,x):
    if vt is float: return float(np.float32(x))
    if vt is int: return int(np.array([x]).astype(np.int32)[0])
    return bool(x)
class Err(Exception): pass
def den(spec,inputs,v,p,path=()):
    s=spec[v]
    if s["du"]!=U.ETERNITY:
        if p.unit!=s["du"] or p.size!=1: raise Err("period")
    key=(v, Period.eternity() if s["du"]==U.ETERNITY else p)
    if key in inputs: return inputs[key]
    if (v,p) in path: raise Err("cycle")
    start=p.start.date if p.unit!=U.ETERNITY else None
    f=None
    if s["forms"]:
        if s["end"] and start>s["end"]: f=None
        else:
            c=[d for d in s["forms"] if d<=start]
            f=s["forms"][max(c)] if c else None
    if f is None: return s["default"]
    c,terms=f; tot=float(c)
    for coef,vn,tr,mode in terms:
        q=transform(tr,p)
        if mode=="plain": x=den(spec,inputs,vn,q,path+((v,p),))
        elif mode=="add": x=sum(den(spec,inputs,vn,sq,path+((v,p),)) for sq in q.get_subperiods(spec[vn]["du"]))
        else: x=den(spec,inputs,vn,q.this_year,path+((v,p),))/12*12
        tot+=coef*float(x)
    return cast(s["vt"],tot)
REQ={U.MONTH:["2018-01","2017-06","2018-07","2016-12"],U.YEAR:["2018","2017","2016"],U.DAY:["2018-01-01","2018-06-30","2017-12-31","2018-07-01"],U.ETERNITY:["2018-01","2018"]}
from openfisca_core.experimental import MemoryConfig
import os, openfisca_core
def newsim(tbs,cfg):
    pops=tbs.instantiate_entities(); s=simulations.Simulation(tbs,pops)
    for p in pops.values(): p.count=1; p.ids=["a"]
    if cfg.get("mem"): s.memory_config=cfg["mem"]
    if cfg.get("trace"): s.trace=True
    if cfg.get("opt"): s.opt_out_cache=True
    return s
for it in range(250):
    tbs,spec=build_system()
    names=list(spec)
    tbs.cache_blacklist=set(random.sample(names, len(names)//2))
    cfgs=[{}, {"trace":True}, {"mem":MemoryConfig(0)}, {"mem":MemoryConfig(0, variables_to_drop=random.sample(names,2), priority_variables=random.sample(names,1))}, {"opt":True}, {"opt":True,"trace":True,"mem":MemoryConfig(0, variables_to_drop=random.sample(names,1))}]
    ins=[]; 
    for v,s_ in spec.items():
        for ps in REQ[s_["du"]]:
            if random.random()<0.2 and not (s_["end"] and s_["du"]!=U.ETERNITY and periods.period(ps).start.date>s_["end"]): ins.append((v,ps,[cast(s_["vt"], random.randint(-5,9)*12)]))
    reqs=[(v,ps) for v,s_ in spec.items() for ps in REQ[s_["du"]]]; random.shuffle(reqs); reqs=reqs[:10]
    results=[]
    for cfg in cfgs:
        sim=newsim(tbs,cfg); out=[]
        for v,ps,val in ins: sim.set_input(v,ps,val)
        for v,ps in reqs:
            try: out.append(("ok",sim.calculate(v,ps).tolist()))
            except Exception as e: out.append(("err",type(e).__name__))
            if sim.tracer.stack: flag("stack",cfg.keys())
        results.append(out)
    for k,out in enumerate(results[1:],1):
        if out!=results[0]: flag("config-diff",k,[ (a,b) for a,b in zip(out,results[0]) if a!=b][:2])
print(os.path.dirname(openfisca_core.__file__), dict(bad)); 
for k,v in ex.items(): print(k, str(v)[:500])
