import warnings; warnings.simplefilter("ignore")
import random, collections, sys, os
import numpy as np
import openfisca_core
from openfisca_core import periods, entities, taxbenefitsystems, variables, simulations
from openfisca_core.periods import DateUnit as U
seed=int(sys.argv[1]) if len(sys.argv)>1 else 1
msl=int(sys.argv[2]) if len(sys.argv)>2 else 1
random.seed(seed)
bad=collections.Counter(); ex={}
def flag(k,*i): bad[k]+=1; ex.setdefault(k,i)
def build():
    n=random.randint(2,6); person=entities.Entity("person","persons","","")
    tbs=taxbenefitsystems.TaxBenefitSystem([person]); spec={}
    for i in range(n):
        terms=[]
        for _ in range(random.randint(0,3)):
            if i>0 and random.random()<0.55: terms.append((random.choice([1,2,3]), f"v{random.randrange(0,i)}", "same"))
            else: terms.append((random.choice([1,2]), f"v{random.randrange(0,n)}", random.choice(["last_month","last_month","m2"])))
        c=random.randint(1,7); spec[f"v{i}"]=(c,terms)
        def make(c=c,terms=terms):
            def formula(p, period):
                tot=p.filled_array(float(c))
                for coef,vn,tr in terms:
                    q = period if tr=="same" else (period.last_month if tr=="last_month" else period.offset(-2))
                    tot=tot+coef*p(vn,q)
                return tot
            return formula
        tbs.add_variable(type(f"v{i}",(variables.Variable,),dict(value_type=float, entity=person, definition_period=U.MONTH, default_value=float(random.choice([0,0,1])), formula=make())))
    return tbs,spec
PER=["2018-01","2018-02","2018-03","2018-04"]
def retained(sim,spec):
    out={}
    for v in spec:
        for p in sim.get_known_periods(v): out[(v,str(p))]=float(sim.get_array(v,p)[0])
    return out
nsys=0; nret=0
for it in range(int(sys.argv[3]) if len(sys.argv)>3 else 300):
    tbs,spec=build(); nsys+=1
    sim=simulations.SimulationBuilder().build_default_simulation(tbs,1); sim.max_spiral_loops=msl
    inputs={}
    for v in spec:
        for p in PER:
            if random.random()<0.12: x=float(random.randint(0,9)); sim.set_input(v,p,[x]); inputs[(v,p)]=x
    reqs=[(v,p) for v in spec for p in PER]; random.shuffle(reqs)
    for (v,p) in reqs[:5]:
        try: sim.calculate(v,p)
        except Exception as e: flag("exc:"+type(e).__name__, spec); break
        if sim.tracer.stack or sim.invalidated_caches: flag("leak")
        ret=retained(sim,spec)
        for (rv,rp),val in ret.items():
            if (rv,rp) in inputs: continue
            nret+=1
            fresh=simulations.SimulationBuilder().build_default_simulation(tbs,1); fresh.max_spiral_loops=msl
            for (ov,op),oval in ret.items():
                if (ov,op)!=(rv,rp): fresh.set_input(ov,op,[oval])
            got=float(fresh.calculate(rv,rp)[0])
            if got!=val: flag("not-reproducible", (rv,rp), val, got, spec, inputs, (v,p), ret)
print(os.path.dirname(openfisca_core.__file__), "seed",seed,"msl",msl,"systems",nsys,"retained checked",nret, dict(bad))
for k,v in ex.items(): print(k, str(v)[:1200])
