import warnings; warnings.simplefilter("ignore")
import numpy as np, datetime, tempfile, os, json
import openfisca_core; print("TREE:", os.path.dirname(openfisca_core.__file__))
from openfisca_core import periods, entities, taxbenefitsystems, variables, simulations, holders, indexed_enums, reforms, taxscales
from openfisca_core.periods import DateUnit
from openfisca_core.simulations import SimulationBuilder
from openfisca_core.experimental import MemoryConfig
from openfisca_core.tools import simulation_dumper as sd
from openfisca_country_template import CountryTaxBenefitSystem
R={}
person = entities.Entity("person","persons","","")
# C02
tbs = taxbenefitsystems.TaxBenefitSystem([person])
class V(variables.Variable):
    value_type=float; entity=person; definition_period=DateUnit.MONTH
    def formula(p, period): return p("X", period) + 100*p("Z", period) + 7
class X(variables.Variable):
    value_type=float; entity=person; definition_period=DateUnit.MONTH
    def formula(p, period): return p("V", period.last_month) + 1
class Z(variables.Variable):
    value_type=float; entity=person; definition_period=DateUnit.MONTH
    def formula(p, period): return p("X", period) * 2
tbs.add_variables(V,X,Z)
sim = SimulationBuilder().build_default_simulation(tbs,1); v1=float(sim.calculate("V","2018-03")[0])
kept = sim.get_array("Z","2018-03"); fresh=float(SimulationBuilder().build_default_simulation(tbs,1).calculate("Z","2018-03")[0])
R["C02 retained Z (None or == fresh %s)"%fresh] = None if kept is None else float(kept[0])
R["C02 V value"] = v1
# C07
t = CountryTaxBenefitSystem()
class RF(reforms.Reform):
    def apply(self):
        self.b = self.get_parameters_at_instant("2018-01-01").benefits.basic_income
        def mod(p): p.benefits.basic_income.update(period="2018", value=777.0); return p
        self.modify_parameters(mod)
        self.a = self.get_parameters_at_instant("2018-01-01").benefits.basic_income
r = RF(t); R["C07 reform view after modify (777)"] = r.a; R["C07 baseline untouched (600)"] = t.get_parameters_at_instant("2018-01-01").benefits.basic_income
d = tempfile.mkdtemp(); os.mkdir(d+"/benefits"); open(d+"/benefits/basic_income.yaml","w").write("values:\n  2015-01-01:\n    value: 42\n")
t3 = CountryTaxBenefitSystem(); t3.get_parameters_at_instant("2018-01-01"); t3.load_parameters(d); R["C07 after reload (42)"] = t3.get_parameters_at_instant("2018-01-01").benefits.basic_income
# C09
a = taxscales.MarginalRateTaxScale(); a.add_bracket(100, 0.125); b = taxscales.MarginalRateTaxScale(); b.add_bracket(0, 0.25)
a.add_tax_scale(b); R["C09a calc(50) (12.5)"] = float(a.calc(np.array([50.]))[0])
e = taxscales.MarginalRateTaxScale()
try:
    e.add_tax_scale(b); R["C09a empty receiver"] = (e.thresholds, e.rates)
except Exception as ex: R["C09a empty receiver"]="ERR "+type(ex).__name__
s3 = taxscales.MarginalRateTaxScale(); s3.add_bracket(50,0.125); s3.add_bracket(100,0.25); m3 = s3.to_average().to_marginal()
R["C09b roundtrip"] = (m3.thresholds, m3.rates, m3.calc(np.array([25.,75.,150.])).tolist(), s3.calc(np.array([25.,75.,150.])).tolist())
# C10
t = CountryTaxBenefitSystem()
sim = SimulationBuilder().build_from_entities(t, {"persons":{"a":{}, "b":{}, "c":{}}, "households":{"h1":{"adults":["a","b"],"children":["c"]}, "h2":{}}})
hh=sim.household; arr=np.array([1.,2.,4.])
R["C10 sum/nb/max/nth"] = (hh.sum(arr).tolist(), hh.nb_persons().tolist(), hh.max(arr).tolist(), hh.value_nth_person(0,arr).tolist())
# C12
sim = SimulationBuilder().build_from_dict(t, {"persons":{"a":{"salary":{"month:2018-01":100}}, "b":{"salary":{"month:2018-01":200}}}}); R["C12a spelling ([100,200])"]=sim.get_array("salary","2018-01").tolist()
sim = SimulationBuilder().build_from_dict(t, {"persons":{"a":{"birth":{"eternity":"1980-01-01"}}, "b":{"birth":{"ETERNITY":"1990-01-01"}}}}); R["C12a eternity"]=[str(x) for x in sim.get_array("birth","ETERNITY")]
try:
    sim = SimulationBuilder().build_from_dict(t, {"persons":{"a":{"salary":{"month:2018-01:3":600, "month:2018-01:24":2400}}}}); R["C12b 3&24 (200, 85.71)"]=(float(sim.get_array("salary","2018-01")[0]), float(sim.get_array("salary","2018-04")[0]))
except Exception as ex: R["C12b"]="ERR "+type(ex).__name__
b_=SimulationBuilder(); b_.set_default_period("2018-01")
sim=b_.build_from_dict(t, {"persons":{"a":{"salary":{"2018-01":100}}, "b":{}}, "households":{"h":{"adults":["a","b"]}}, "axes":[[{"name":"salary","count":2,"min":0,"max":2000,"period":"month:2018-01"}]]}); R["C12a axis noncanonical ([0,0,2000,0])"]=sim.get_array("salary","2018-01").tolist()
# C13
sim = SimulationBuilder().build_from_entities(t, {"persons":{"a":{"salary":{"2018-01":1000}}, "b":{}}, "households":{"h":{"adults":["a","b"],"rent":{"2018-01":300}}}})
sim.calculate("income_tax","2018-01"); c = sim.clone()
c.set_input("salary","2018-02",[5,6]); c.delete_arrays("salary","2018-01")
R["C13"] = dict(orig_sees_clone_input=sim.get_array("salary","2018-02") is not None, orig_lost=sim.get_array("salary","2018-01") is None, grp_holder_sim=c.household.get_holder("rent").simulation is c, grp_holder_pop=c.household.get_holder("rent").population is c.household, members=c.household.members is c.person, clone_keeps_cache=c.get_array("income_tax","2018-01") is not None, clone_rent=c.get_array("rent","2018-01").tolist())
# C14
t = CountryTaxBenefitSystem(); cl = t.clone(); cl.neutralize_variable("salary")
s0 = SimulationBuilder().build_from_entities(t, {"persons":{"a":{"salary":{"2018-01":1000}}}})
R["C14a orig salary after clone neutralized (1000)"] = s0.calculate("salary","2018-01").tolist(); R["C14a entity bound to orig"]= t.person_entity._tax_benefit_system is t and cl.person_entity._tax_benefit_system is cl
s1 = SimulationBuilder().build_from_entities(cl, {"persons":{"a":{"salary":{"2018-01":1000}}}}); R["C14a clone salary (0)"]=s1.calculate("salary","2018-01").tolist()
tb = taxbenefitsystems.TaxBenefitSystem([person])
class M(variables.Variable):
    value_type=float; entity=person; definition_period=DateUnit.MONTH
    def formula(p, period): return p.filled_array(float(period.start.month))
tb.add_variable(M)
class M(variables.Variable):
    def formula_2019(p, period): return p.filled_array(100.0)
class R4(reforms.Reform):
    def apply(self): self.update_variable(M); self.neutralize_variable("M")
try: R["C14b neutralize after update"] = SimulationBuilder().build_default_simulation(R4(tb),1).calculate("M","2019-03").tolist()
except Exception as ex: R["C14b"]="ERR "+type(ex).__name__
# C15
class H(indexed_enums.Enum):
    B="b"; A="a"; C="c"
class Q(indexed_enums.Enum):
    X="x"; Y="y"; Z="z"; W="w"
def enc(x):
    try: return np.asarray(H.encode(x)).tolist()
    except Exception as ex: return "ERR"
R["C15"] = {k: enc(v) for k,v in {"[-1]":[-1], "arr[-1]":np.array([-1]), "[Q.X]":[Q.X], "[H.A,Q.W]":[H.A,Q.W], "arr[H.A,Q.W]":np.array([H.A,Q.W]), "[H.A,H.C]":[H.A,H.C], "arr names":np.array(["C","A"]), "[2]":[2], "[3]":[3]}.items()}
# C16
tb = taxbenefitsystems.TaxBenefitSystem([person])
def mk(name, dp, si, vt=float): return type(name,(variables.Variable,),dict(value_type=vt, entity=person, definition_period=dp, set_input=si))
tb.add_variable(mk("disp_m", DateUnit.MONTH, holders.set_input_dispatch_by_period)); tb.add_variable(mk("div_m", DateUnit.MONTH, holders.set_input_divide_by_period))
s=SimulationBuilder().build_default_simulation(tb,1); s.set_input("disp_m","2018-02",[5.]); s.set_input("disp_m","2018",[10.]); R["C16a dispatch"]=[float(s.get_array("disp_m",f"2018-{m:02d}")[0]) for m in range(1,13)]
s=SimulationBuilder().build_default_simulation(tb,1); s.set_input("div_m","2018-02",[50.])
try: s.set_input("div_m","2018",[600]); R["C16b int divide"]=float(s.calculate_add("div_m","2018")[0])
except Exception as ex: R["C16b"]="ERR "+type(ex).__name__
# C17 / C19
hh_e = entities.GroupEntity("household","households","","", roles=[{"key":"parent","plural":"parents"}])
tb = taxbenefitsystems.TaxBenefitSystem([person, hh_e]); tb.add_variable(type("s",(variables.Variable,),dict(value_type=str, entity=person, definition_period=DateUnit.MONTH)))
sim = SimulationBuilder().build_from_entities(tb, {"persons":{"a":{"s":{"2018-01":"hello"}}}, "households":{"h1":{"parents":["a"]},"h2":{}}})
d = tempfile.mkdtemp()+"/dump"
try:
    sd.dump_simulation(sim, d); r = sd.restore_simulation(d, tb); R["C19"]=(r.get_array("s","2018-01").tolist(), r.household.count)
except Exception as ex: R["C19"]="ERR "+type(ex).__name__+str(ex)[:60]
for k,v in R.items(): print(k, "=>", v)
