import warnings; warnings.simplefilter("ignore")
import random, collections, sys, os
import numpy as np, openfisca_core
from openfisca_country_template import CountryTaxBenefitSystem
from openfisca_core.simulations import SimulationBuilder
random.seed(int(sys.argv[1]) if len(sys.argv)>1 else 1)
bad=collections.Counter(); ex={}
def flag(k,*i): bad[k]+=1; ex.setdefault(k,i)
tbs=CountryTaxBenefitSystem()
PV=["salary","age","capital_returns","pension"]; HV=["rent","accommodation_size"]; CALC=["income_tax","disposable_income","basic_income","housing_allowance","total_taxes","total_benefits","housing_tax"]
PER=["2018-01","2018-02","2017-12"]
sit={"persons":{"a":{"birth":{"ETERNITY":"1980-01-01"}},"b":{"birth":{"ETERNITY":"2012-01-01"}},"c":{}}, "households":{"h1":{"adults":["a"],"children":["b"]},"h2":{"adults":["c"]}}}
def obs(sim):
    out={}
    for pop in sim.populations.values():
        for v,h in pop._holders.items():
            for p in h.get_known_periods():
                a=h.get_array(p); out[(v,str(p))]=a.decode_to_str().tolist() if hasattr(a,"decode_to_str") else a.tolist()
    return out
def rnd_op():
    r=random.random()
    if r<0.4:
        if random.random()<0.6: v=random.choice(PV); vals=[float(random.randint(0,5)*1000) for _ in range(3)]
        else: v=random.choice(HV); vals=[float(random.randint(0,9)*100) for _ in range(2)]
        if v=="age": vals=[int(x//1000+20) for x in vals]
        return ("set",v,random.choice(PER),vals)
    if r<0.55: return ("del",random.choice(PV+HV+CALC),random.choice(PER+[None]))
    v=random.choice(CALC); 
    p=random.choice(PER) if tbs.get_variable(v).definition_period=="month" else random.choice(["2018","2017"])
    return ("calc",v,p)
def apply(sim,op):
    try:
        if op[0]=="set": sim.set_input(op[1],op[2],op[3])
        elif op[0]=="del": sim.delete_arrays(op[1],op[2])
        else: sim.calculate(op[1],op[2])
    except Exception as e: return type(e).__name__
for it in range(250):
    pre=[rnd_op() for _ in range(random.randint(0,5))]
    ops=[(random.choice("oc"),rnd_op()) for _ in range(random.randint(3,10))]
    A=SimulationBuilder().build_from_entities(tbs,sit)
    for op in pre: apply(A,op)
    C=A.clone()
    if obs(A)!=obs(C): flag("clone-not-equal")
    for pop in C.populations.values():
        for v,h in pop._holders.items():
            if h.simulation is not C or h.population is not pop: flag("clone-holder-binding",v)
        if hasattr(pop,"members") and pop.members is not C.persons: flag("clone-members")
    # controls
    A2=SimulationBuilder().build_from_entities(tbs,sit); C2=SimulationBuilder().build_from_entities(tbs,sit)
    for op in pre: apply(A2,op); apply(C2,op)
    for side,op in ops:
        apply(A if side=="o" else C, op); apply(A2 if side=="o" else C2, op)
        if obs(A)!=obs(A2): flag("orig-affected", pre, ops, op); break
        if obs(C)!=obs(C2): flag("clone-affected", pre, ops, op, {k:(obs(C).get(k),obs(C2).get(k)) for k in set(obs(C))|set(obs(C2)) if obs(C).get(k)!=obs(C2).get(k)}); break
print(os.path.dirname(openfisca_core.__file__), dict(bad))
for k,v in ex.items(): print(k, str(v)[:900])
