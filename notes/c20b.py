import warnings; warnings.simplefilter("ignore")
import random, collections, sys, os, json, logging
logging.disable(logging.CRITICAL)
import numpy as np, openfisca_core
from openfisca_core import entities, taxbenefitsystems, variables, periods
from openfisca_core.parameters import ParameterNode, Parameter, ParameterScale
from openfisca_core.periods import DateUnit as U
from openfisca_web_api.app import create_app
random.seed(1)
bad=collections.Counter(); ex={}
def flag(k,*i): bad[k]+=1; ex.setdefault(k,i)
DATES=["2010-01-01","2012-06-01","2015-01-01","2017-03-15","2020-01-01"]
def hist(gen, allow_null=True):
    ds=random.sample(DATES,random.randint(1,4)); return {d:{"value":(None if allow_null and random.random()<0.2 else gen())} for d in ds}
def rnd_tree():
    t={}
    for i in range(4): t[f"p{i}"]={"values":hist(lambda:random.randint(1,99))}
    for i in range(3):
        kind=random.choice(["rate","amount"])
        br=[]
        for b in range(random.randint(1,4)):
            br.append({"threshold":hist(lambda b=b:b*100+random.choice([0,0,50])), kind:hist(lambda:random.randint(1,9)/8 if kind=="rate" else random.randint(1,50))})
        t[f"s{i}"]={"brackets":br}
    return {"taxes":t}
person=entities.Entity("person","persons","","")
class CountryLike(taxbenefitsystems.TaxBenefitSystem):
    def __init__(self, data):
        super().__init__([person]); self.parameters=ParameterNode("",data=data)
        class v(variables.Variable):
            value_type=float; entity=person; definition_period=U.MONTH; end="2019-12-31"; label="v"
            def formula(p,period): return p.filled_array(1.)
            def formula_2015_06(p,period): return p.filled_array(2.)
        self.add_variable(v)
for it in range(60):
    data=rnd_tree(); tbs=CountryLike(data)
    try: app=create_app(tbs).test_client()
    except Exception as e: flag("create_app:"+type(e).__name__, str(e)[:100]); continue
    for name in data["taxes"]:
        r=app.get(f"/parameter/taxes/{name}"); 
        if r.status_code!=200: flag("status",name,r.status_code); continue
        j=r.get_json(); node=getattr(tbs.parameters.taxes,name)
        probe=DATES+["2009-01-01","2011-01-01","2016-01-01","2021-01-01"]
        if isinstance(node,Parameter):
            vals=j["values"]
            for d in probe:
                c=[k for k in vals if k<=d]; api=vals[max(c)] if c else None
                if api!=node(d): flag("param-value",name,d,api,node(d))
        else:
            br=j.get("brackets")
            if br is None: flag("no-brackets",name); continue
            for d in probe:
                c=[k for k in br if k<=d]
                api=br[max(c)] if c else None
                scale=node.get_at_instant(d)
                eng={float(t):(scale.rates[i] if hasattr(scale,"rates") else scale.amounts[i]) for i,t in enumerate(scale.thresholds)}
                apin=None if api is None else {float(k):v for k,v in api.items()}
                # engine drops brackets with undefined threshold or value; api keeps value None
                apin2=None if apin is None else {k:v for k,v in apin.items() if v is not None}
                if (apin2 or {})!=eng: flag("scale-apiNone" if apin is None else "scale-other",name,d,apin,eng,[ (b["threshold"],) for b in data["taxes"][name]["brackets"]])
    r=app.get("/variable/v").get_json()
    if set(r["formulas"])!={"0001-01-01","2015-06-01","2020-01-01"} or r["formulas"]["2020-01-01"] is not None: flag("variable-formulas",r["formulas"].keys())
print(os.path.dirname(openfisca_core.__file__), dict(bad))
for k,v in ex.items(): print(k, str(v)[:600])
