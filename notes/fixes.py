#!/usr/bin/env python3
"""Planned repairs of openfisca-core, one entry per defect of DESIGN.md section 8.

Design-phase artefact (not part of the verification framework).  Usage:

    fixes.py list
    fixes.py apply <tree> <id> [<id> ...]      # textual replacement, fails if the context moved
    fixes.py apply <tree> all

Each entry is (commit message, [(path, old, new), ...]).  Every replacement must match exactly
once.  The entries were validated together and one by one on a scratch copy of the pinned tree
(440/440 baseline tests).
"""
import pathlib
import sys

FIXES = {}


def fix(ident, message, *edits):
    FIXES[ident] = (message, list(edits))


SIM = "openfisca_core/simulations/simulation.py"
fix(
    "C02a",
    "fix: discard values computed from a cache entry already marked as spiral-tainted",
    (
        SIM,
        "        cached_array = holder.get_array(period)\n        if cached_array is not None:\n            return cached_array\n",
        "        cached_array = holder.get_array(period)\n        if cached_array is not None:\n"
        "            # A value marked for deletion was derived from a spiral default:\n"
        "            # whatever is being computed from it must be discarded as well.\n"
        "            if Cache(variable_name, period) in self.invalidated_caches:\n"
        "                for frame in self.tracer.stack:\n"
        "                    self.invalidate_cache_entry(str(frame[\"name\"]), frame[\"period\"])\n"
        "            return cached_array\n",
    ),
)

fix(
    "C02c",
    "fix: recognise a spiral-tainted value of an eternal variable read under another period",
    (
        SIM,
        "            if Cache(variable_name, period) in self.invalidated_caches:\n",
        "            # (An eternal variable has one stored value, whatever the period it\n"
        "            # was marked or is read under.)\n"
        "            if any(\n"
        "                cache.variable == variable_name\n"
        "                and (\n"
        "                    cache.period == period\n"
        "                    or variable.definition_period == periods.DateUnit.ETERNITY\n"
        "                )\n"
        "                for cache in self.invalidated_caches\n"
        "            ):\n",
    ),
)

fix(
    "C12n",
    "fix: refuse an input value outside the range of an integer variable instead of wrapping it around",
    (
        "openfisca_core/variables/variable.py",
        "        try:\n            value = numpy.array([value], dtype=self.dtype)[0]\n",
        "        try:\n"
        "            if (\n"
        "                numpy.issubdtype(self.dtype, numpy.integer)\n"
        "                and isinstance(value, (int, float))\n"
        "                and not isinstance(value, bool)\n"
        "                and not numpy.iinfo(self.dtype).min\n"
        "                <= value\n"
        "                <= numpy.iinfo(self.dtype).max\n"
        "            ):\n"
        "                # numpy would silently wrap the value around.\n"
        "                raise OverflowError\n"
        "            value = numpy.array([value], dtype=self.dtype)[0]\n",
    ),
)

fix(
    "C14f",
    "fix: give a reform its own parameter tree before an extension is merged into it",
    (
        "openfisca_core/taxbenefitsystems/tax_benefit_system.py",
        "            TaxBenefitSystem.get_parameters_at_instant.cache_clear()\n            self.parameters.merge(extension_parameters)\n",
        "            TaxBenefitSystem.get_parameters_at_instant.cache_clear()\n"
        "            if self.baseline is not None and self.parameters is self.baseline.parameters:\n"
        "                # A reform shares its baseline's tree until it changes it: the\n"
        "                # baseline is not to be mutated.\n"
        "                self.parameters = copy.deepcopy(self.parameters)\n"
        "                self._parameters_at_instant_cache = {}\n"
        "            self.parameters.merge(extension_parameters)\n",
    ),
)

fix(
    "C05",
    "fix: reject a week period given with a month-precision date (week:YYYY-MM)",
    (
        "openfisca_core/periods/helpers.py",
        "        # Reject ambiguous periods such as month:2014\n        if unit_weight(period.unit) > unit_weight(unit):\n",
        "        # Reject ambiguous periods such as month:2014 (a week is finer than a\n"
        "        # month although both weigh the same).\n"
        "        if unit_weight(period.unit) > unit_weight(unit) or (\n"
        "            unit == DateUnit.WEEK and period.unit == DateUnit.MONTH\n"
        "        ):\n",
    ),
)

fix(
    "C14g",
    "fix: never merge an extension in place into the parameter tree of a reform",
    (
        "openfisca_core/taxbenefitsystems/tax_benefit_system.py",
        "            if self.baseline is not None and self.parameters is self.baseline.parameters:\n"
        "                # A reform shares its baseline's tree until it changes it: the\n"
        "                # baseline is not to be mutated.\n",
        "            if self.baseline is not None:\n"
        "                # A reform may share its tree with any system along its chain of\n"
        "                # baselines, or with other reforms of them: never merge in place.\n",
    ),
)

fix(
    "C20d",
    "fix: print the whole computation log of a verbose YAML test when no max_depth option is given",
    (
        "openfisca_core/tools/test_runner.py",
        "    def print_computation_log(self, tracer, aggregate, max_depth) -> None:\n        tracer.print_computation_log(aggregate, max_depth)\n",
        "    def print_computation_log(self, tracer, aggregate, max_depth) -> None:\n"
        "        if max_depth is None:\n"
        "            max_depth = sys.maxsize\n"
        "        tracer.print_computation_log(aggregate, max_depth)\n",
    ),
)

fix(
    "C11b",
    "fix: join persons to the declared groups by identifier, also when a declared group has no member",
    (
        "openfisca_core/simulations/simulation_builder.py",
        "        # Maps group's identifiers to a 0-based integer range, for indexing into members_roles (see PR#876)\n"
        "        group_sorted_indices = numpy.unique(\n"
        "            persons_group_assignment,\n"
        "            return_inverse=True,\n"
        "        )[1]\n"
        "        group_population.members_entity_id = numpy.argsort(group_population.ids)[\n"
        "            group_sorted_indices\n"
        "        ]\n",
        "        # Maps each person's group identifier to the position of that group among\n"
        "        # the declared ones (see PR#876); a declared group may have no member.\n"
        "        group_ids = numpy.asarray(group_population.ids)\n"
        "        group_order = numpy.argsort(group_ids)\n"
        "        group_population.members_entity_id = group_order[\n"
        "            numpy.searchsorted(\n"
        "                group_ids,\n"
        "                numpy.asarray(persons_group_assignment),\n"
        "                sorter=group_order,\n"
        "            )\n"
        "        ]\n",
    ),
)

TBS = "openfisca_core/taxbenefitsystems/tax_benefit_system.py"
fix(
    "C07",
    "fix: forget memoised parameters-at-instant views when the parameter tree is replaced",
    (
        TBS,
        "        self.parameters = parameters\n\n    def _get_baseline_parameters_at_instant",
        "        self.parameters = parameters\n"
        "        # Views memoised by `get_parameters_at_instant` describe the former tree.\n"
        "        TaxBenefitSystem.get_parameters_at_instant.cache_clear()\n\n"
        "    def _get_baseline_parameters_at_instant",
    ),
    (
        TBS,
        "            self.parameters.merge(extension_parameters)\n",
        "            # Forget the memoised views first: a merge that stops half-way has already changed the tree.\n"
        "            TaxBenefitSystem.get_parameters_at_instant.cache_clear()\n"
        "            self.parameters.merge(extension_parameters)\n",
    ),
    (
        "openfisca_core/reforms/reform.py",
        "        self.parameters = reform_parameters\n        self._parameters_at_instant_cache = {}\n",
        "        self.parameters = reform_parameters\n        self._parameters_at_instant_cache = {}\n"
        "        # Views memoised by `get_parameters_at_instant` describe the former tree.\n"
        "        TaxBenefitSystem.get_parameters_at_instant.cache_clear()\n",
    ),
)
fix(
    "C07b",
    "fix: build the vectorial sub-node with its name and instant",
    (
        "openfisca_core/parameters/vectorial_parameter_node_at_instant.py",
        "            return VectorialParameterNodeAtInstant(result)\n",
        "            return self.__class__(self._name, result, self._instant_str)\n",
    ),
)
fix(
    "C07c",
    "fix: index parameters by date in chronological order, whatever the declaration order",
    (
        "openfisca_core/parameters/vectorial_asof_date_parameter_node_at_instant.py",
        "        subnodes_name = node._children.keys()\n",
        "        # Chronological order, whatever the declaration order: \"before\" first.\n"
        "        subnodes_name = sorted(\n            node._children.keys(),\n"
        "            key=lambda name: (not name.startswith(\"before\"), name),\n        )\n",
    ),
)

MRS = "openfisca_core/taxscales/marginal_rate_tax_scale.py"
fix(
    "C09a",
    "fix: no rate applies below the first threshold when combining tax scales",
    (
        MRS,
        "            index = bisect.bisect_right(self.thresholds, threshold_low) - 1\n            self.add_bracket(threshold_low, self.rates[index])",
        "            index = bisect.bisect_right(self.thresholds, threshold_low) - 1\n            self.add_bracket(threshold_low, self.rates[index] if index >= 0 else 0)",
    ),
    (
        MRS,
        "            index = bisect.bisect_right(self.thresholds, threshold_high) - 1\n            self.add_bracket(threshold_high, self.rates[index])",
        "            index = bisect.bisect_right(self.thresholds, threshold_high) - 1\n            self.add_bracket(threshold_high, self.rates[index] if index >= 0 else 0)",
    ),
)
fix(
    "C09b",
    "fix: keep a positive first threshold when converting a marginal scale to average rates",
    (
        MRS,
        "            previous_threshold = self.thresholds[0]\n            previous_rate = self.rates[0]\n",
        "            previous_threshold = self.thresholds[0]\n            previous_rate = self.rates[0]\n\n"
        "            # Nothing is due below the first threshold.\n"
        "            if previous_threshold > 0:\n"
        "                average_tax_scale.add_bracket(previous_threshold, 0)\n",
    ),
)
fix(
    "C09c",
    "fix: convert a single-bracket marginal scale to average rates",
    (
        MRS,
        '            average_tax_scale.add_bracket(float("Inf"), rate)\n',
        '            average_tax_scale.add_bracket(float("Inf"), previous_rate)\n',
    ),
)

GP = "openfisca_core/populations/group_population.py"
fix(
    "C10",
    "fix: group sums and member counts have one element per group, even for trailing empty groups",
    (
        GP,
        "        return numpy.bincount(self.members_entity_id, weights=array)\n",
        "        return numpy.bincount(\n            self.members_entity_id,\n            weights=array,\n            minlength=self.count,\n        )\n",
    ),
    (
        GP,
        "        return numpy.bincount(self.members_entity_id)\n",
        "        return numpy.bincount(self.members_entity_id, minlength=self.count)\n",
    ),
)

SB = "openfisca_core/simulations/simulation_builder.py"
fix(
    "C12a",
    "fix: buffer situation inputs under the canonical period key, for entities and axes",
    (
        SB,
        "        array = self.get_input(variable.name, str(period_str))\n\n        if array is None:\n            array_size",
        "        array = self.get_input(variable.name, str(periods.period(period_str)))\n\n        if array is None:\n            array_size",
    ),
    (
        SB,
        "                axis_index = axis.get(\"index\", 0)\n                axis_period = axis.get(\"period\", self.default_period)\n                axis_name",
        "                axis_index = axis.get(\"index\", 0)\n                axis_period = str(\n                    periods.period(axis.get(\"period\", self.default_period)),\n                )\n                axis_name",
    ),
    (
        SB,
        "                    axis_index = axis.get(\"index\", 0)\n                    axis_period = axis.get(\"period\", self.default_period)\n",
        "                    axis_index = axis.get(\"index\", 0)\n                    axis_period = str(\n                        periods.period(axis.get(\"period\", self.default_period)),\n                    )\n",
    ),
)
fix(
    "C12b",
    "fix: flush buffered inputs by numeric period length, not by its text",
    (
        SB,
        "            sorted_periods = sorted(unsorted_periods, key=periods.key_period_size)",
        "            sorted_periods = sorted(\n                unsorted_periods,\n"
        "                key=lambda period: (periods.unit_weight(period.unit), period.size),\n            )",
    ),
)
fix(
    "C12c",
    "fix: report a value that does not fit an input slot as a situation error",
    (
        SB,
        "        array[instance_index] = value\n",
        "        try:\n            array[instance_index] = value\n        except ValueError as error:\n"
        "            raise errors.SituationParsingError(path_in_json, *error.args)\n",
    ),
)
fix(
    "C12d",
    "fix: refuse a situation with unknown entity keys instead of returning None",
    (
        SB,
        "        if not are_entities_specified(params := input_dict, variables):\n            return self.build_from_variables(tax_benefit_system, params)\n        return None\n",
        "        if not are_entities_specified(params := input_dict, variables):\n            return self.build_from_variables(tax_benefit_system, params)\n\n"
        "        # Neither variables nor known entities: let the entities check explain why.\n"
        "        return self.build_from_entities(tax_benefit_system, input_dict)\n",
    ),
)
fix(
    "C12e",
    "fix: accept group instances keyed by integers",
    (
        SB,
        "            entity_index = entity_ids.index(instance_id)\n",
        "            entity_index = entity_ids.index(str(instance_id))\n",
    ),
    (
        SB,
        "            self.init_variable_values(entity, variables_json, instance_id)\n",
        "            self.init_variable_values(entity, variables_json, str(instance_id))\n",
    ),
)
fix(
    "C12f",
    "fix: resize buffered group inputs when persons left out get a group of their own",
    (
        SB,
        "            # Adjust previously computed ids and counts\n            self.entity_ids[entity.plural] = entity_ids\n            self.entity_counts[entity.plural] = len(entity_ids)\n",
        "            # Adjust previously computed ids and counts\n            self.entity_ids[entity.plural] = entity_ids\n            self.entity_counts[entity.plural] = len(entity_ids)\n"
        "            # Values buffered so far were sized before the new groups existed\n"
        "            for variable_name, buffer in self.input_buffer.items():\n"
        "                if self.get_variable_entity(variable_name).key != entity.key:\n"
        "                    continue\n"
        "                variable = entity.get_variable(variable_name)\n"
        "                for period_str, array in buffer.items():\n"
        "                    padded = variable.default_array(len(entity_ids))\n"
        "                    padded[: len(array)] = array\n"
        "                    buffer[period_str] = padded\n",
    ),
)

fix(
    "C13",
    "fix: a cloned simulation owns its value stores, holders and members",
    (
        GP,
        "        result = GroupPopulation(self.entity, self.members)\n        result.simulation = simulation\n        result._holders = {\n            variable: holder.clone(self) for (variable, holder) in self._holders.items()\n        }",
        "        result = GroupPopulation(self.entity, simulation.persons)\n        result.simulation = simulation\n        result._holders = {\n            variable: holder.clone(result)\n            for (variable, holder) in self._holders.items()\n        }",
    ),
    (
        "openfisca_core/holders/holder.py",
        "        new_dict[\"population\"] = population\n        new_dict[\"simulation\"] = population.simulation\n",
        "        new_dict[\"population\"] = population\n        new_dict[\"simulation\"] = population.simulation\n\n"
        "        # The clone must not share its value store with the original.\n"
        "        memory_storage = storage.InMemoryStorage(is_eternal=self._eternal)\n"
        "        memory_storage._arrays = dict(self._memory_storage._arrays)\n"
        "        new_dict[\"_memory_storage\"] = memory_storage\n",
    ),
)

fix(
    "C14a",
    "fix: a cloned tax-benefit system gets its own entities",
    (
        TBS,
        "        for entity in new_dict[\"entities\"]:\n            entity.set_tax_benefit_system(new)\n",
        "        # Entities resolve variables through their system: the clone needs its own.\n"
        "        new_dict[\"entities\"] = [copy.copy(entity) for entity in self.entities]\n"
        "        new_dict[\"person_entity\"] = next(\n            entity for entity in new_dict[\"entities\"] if entity.is_person\n        )\n"
        "        new_dict[\"group_entities\"] = [\n            entity for entity in new_dict[\"entities\"] if not entity.is_person\n        ]\n"
        "        for entity in new_dict[\"entities\"]:\n            entity.set_tax_benefit_system(new)\n",
    ),
)
fix(
    "C14b",
    "fix: cloning an updated variable keeps what it inherits from its baseline",
    (
        "openfisca_core/variables/variable.py",
        "    def clone(self):\n        return self.__class__()",
        "    def clone(self):\n        return self.__class__(baseline_variable=self.baseline_variable)",
    ),
)

fix(
    "C15",
    "fix: reject negative indices and members of other enums when encoding",
    (
        "openfisca_core/indexed_enums/_utils.py",
        "    return values[values < indices.size].astype(t.EnumDType)",
        "    return values[(values >= 0) & (values < indices.size)].astype(t.EnumDType)",
    ),
    (
        "openfisca_core/indexed_enums/enum.py",
        "        elif _is_enum_array(value) and cls == value[0].__class__:",
        "        elif _is_enum_array(value) and all(cls == item.__class__ for item in value):",
    ),
    (
        "openfisca_core/indexed_enums/enum.py",
        "        elif _is_enum_array_like(value):\n            indices = _enum_to_index(value)",
        "        elif _is_enum_array_like(value) and all(\n            cls == item.__class__ for item in value\n        ):\n            indices = _enum_to_index(value)",
    ),
)

HH = "openfisca_core/holders/helpers.py"
fix(
    "C16a",
    "fix: dispatch the given value, not an earlier one, to the sub-periods still unknown",
    (
        HH,
        "        if existing_array is None:\n            holder._set(sub_period, array)\n        else:\n"
        "            # The array of the current sub-period is reused for the next ones.\n"
        "            # TODO: refactor or document this behavior\n            array = existing_array\n",
        "        if existing_array is None:\n            holder._set(sub_period, array)\n",
    ),
)
fix(
    "C16b",
    "fix: convert the amount to the variable's type before dividing it by period",
    (
        HH,
        "    if not isinstance(array, numpy.ndarray):\n        array = numpy.array(array)\n    period_size = period.size",
        "    array = holder._to_array(array)\n    period_size = period.size",
    ),
)

fix(
    "C17",
    "fix: read back string arrays stored on disk",
    (
        "openfisca_core/data_storage/on_disk_storage.py",
        "            return EnumArray(numpy.load(file), enum)\n\n        array: t.Array[t.DTypeGeneric] = numpy.load(file)",
        "            return EnumArray(numpy.load(file), enum)\n\n"
        "        # Arrays of strings are stored as objects, hence pickled.\n"
        "        array: t.Array[t.DTypeGeneric] = numpy.load(file, allow_pickle=True)",
    ),
)
fix(
    "C19a",
    "fix: restore as many groups as were dumped, including trailing empty ones",
    (
        "openfisca_core/tools/simulation_dumper.py",
        "    population.count = max(population.members_entity_id) + 1",
        "    population.count = len(population.ids)",
    ),
)

fix(
    "C20a",
    "fix: compare enum outputs of a single entity instance in YAML tests",
    (
        "openfisca_core/tools/test_runner.py",
        "            actual_value = actual_value[entity_index]\n",
        "            # Keep an array, so that enums stay decodable.\n            actual_value = actual_value[[entity_index]]\n",
    ),
)
fix(
    "C20b",
    "fix: render fixed-length string variables as text in the web API",
    (
        "openfisca_web_api/handlers.py",
        "            entity_result = str(result[entity_index])\n",
        "            entity_result = result[entity_index]\n            if isinstance(entity_result, bytes):\n"
        "                entity_result = entity_result.decode()\n            entity_result = str(entity_result)\n",
    ),
)
TOOLS = "openfisca_core/tools/__init__.py"
fix(
    "C20c",
    "fix: compare text outputs as text in assert_near",
    (
        TOOLS,
        "    if isinstance(target_value, str):\n        target_value = commons.eval_expression(target_value)\n",
        "    if value.dtype.kind in \"OSU\" and not _is_number(target_value):\n"
        "        return assert_text_equals(value, target_value, message)\n"
        "    if isinstance(target_value, str):\n        target_value = commons.eval_expression(target_value)\n",
    ),
    (
        TOOLS,
        "def assert_enum_equals(value, target_value, message=\"\") -> None:",
        "def _is_number(target_value) -> bool:\n    import numpy\n\n    try:\n"
        "        numpy.array(target_value).astype(numpy.float32)\n    except (TypeError, ValueError):\n"
        "        return False\n    return True\n\n\n"
        "def assert_text_equals(value, target_value, message=\"\") -> None:\n    import numpy\n\n"
        "    value = numpy.array(\n        [item.decode() if isinstance(item, bytes) else str(item) for item in value.flat],\n    )\n"
        "    target_value = numpy.array(target_value).astype(str)\n"
        "    assert (\n        value == target_value\n    ).all(), f\"{message}{value} differs from {target_value}.\"\n\n\n"
        "def assert_enum_equals(value, target_value, message=\"\") -> None:",
    ),
)


# ---- repairs added while building the checks (defects found by the builders) ----
fix(
    "C03a",
    "fix: summing a variable over the eternity period is refused",
    (
        SIM,
        "                f\"the period {period}: eternal variables can't be summed \"\n                \"over time.\"\n            )\n            raise ValueError(\n                msg,\n            )\n\n        return sum(\n",
        "                f\"the period {period}: eternal variables can't be summed \"\n                \"over time.\"\n            )\n            raise ValueError(\n                msg,\n            )\n\n"
        "        if period.unit not in (\n            periods.DateUnit.isoformat + periods.DateUnit.isocalendar\n        ):\n"
        "            msg = (\n                f\"Unable to ADD variable '{variable.name}' over the period \"\n                f\"{period}: eternal periods can't be summed over time.\"\n            )\n"
        "            raise ValueError(\n                msg,\n            )\n\n        return sum(\n",
    ),
)
fix(
    "C03b",
    "fix: a day or weekday variable requested for a period of another unit is refused up front",
    (
        SIM,
        "        if period.size != 1:\n            msg = f\"Unable to compute variable '{variable.name}' for period {period}: '{variable.name}' must be computed for a whole {variable.definition_period}.",
        "        if (\n            variable.definition_period == periods.DateUnit.DAY\n            and period.unit != periods.DateUnit.DAY\n        ):\n"
        "            msg = f\"Unable to compute variable '{variable.name}' for period {period}: '{variable.name}' must be computed for a whole day. You can use the ADD option to sum '{variable.name}' over the requested period, or change the requested period to 'period.first_day'.\"\n"
        "            raise ValueError(\n                msg,\n            )\n\n"
        "        if (\n            variable.definition_period == periods.DateUnit.WEEKDAY\n            and period.unit != periods.DateUnit.WEEKDAY\n        ):\n"
        "            msg = f\"Unable to compute variable '{variable.name}' for period {period}: '{variable.name}' must be computed for a whole weekday. You can use the ADD option to sum '{variable.name}' over the requested period, or change the requested period to 'period.first_weekday'.\"\n"
        "            raise ValueError(\n                msg,\n            )\n\n"
        "        if period.size != 1:\n            msg = f\"Unable to compute variable '{variable.name}' for period {period}: '{variable.name}' must be computed for a whole {variable.definition_period}.",
    ),
)
fix(
    "C13c",
    "fix: a cloned simulation gets its own set of invalidated cache entries",
    (
        SIM,
        "        new.persons = self.persons.clone(new)\n",
        "        # The clone purges its own cache entries only.\n        new.invalidated_caches = set()\n\n        new.persons = self.persons.clone(new)\n",
    ),
)
fix(
    "C14d",
    "fix: annualising a neutralised variable keeps it neutralised",
    (
        "openfisca_core/variables/helpers.py",
        "            for key, formula in variable.formulas.items()\n        },\n    )\n\n    return new_variable\n",
        "            for key, formula in variable.formulas.items()\n        },\n    )\n    # `clone()` rebuilds from the class: carry the instance state over.\n    new_variable.is_neutralized = variable.is_neutralized\n\n    return new_variable\n",
    ),
)
fix(
    "C14e",
    "fix: successive parameter modifiers of a reform accumulate",
    (
        "openfisca_core/reforms/reform.py",
        "        baseline_parameters = self.baseline.parameters\n",
        "        # Start from the reform's current parameters, so that successive modifiers accumulate.\n        baseline_parameters = self.parameters\n",
    ),
)
fix(
    "C19c",
    "fix: restore_simulation takes the person count from the persons' own dumped ids",
    (
        "openfisca_core/tools/simulation_dumper.py",
        "        _restore_entity(population, entities_dump_dir)\n        population.count = person_count\n",
        "        _restore_entity(population, entities_dump_dir)\n        population.count = len(population.ids)\n",
    ),
)
fix(
    "C19d",
    "fix: restoring a group entity without roles leaves members_role unset instead of raising",
    (
        "openfisca_core/tools/simulation_dumper.py",
        "    if len(flattened_roles) == 0:\n        population.members_role = numpy.int16(0)\n",
        "    if len(flattened_roles) == 0:\n        population.members_role = None\n",
    ),
)


# repairs delivered by builders as JSON (id, message, file, old, new)
import json as _json
for _extra in ("c12_extra_fixes.json",):
    _p = pathlib.Path("/verif/notes") / _extra
    if _p.exists():
        for _e in _json.loads(_p.read_text()):
            fix(_e["id"], _e["message"], (_e["file"], _e["old"], _e["new"]))


# second build round: repairs kept as diffs under notes/fixes_round2/ (the registry only needs their commit messages)
fix("C12j", "fix: buffer every input of an eternal variable in one entry, whatever period key it is given under")
fix("C07d", "fix: as-of-date indexing of a several-row vector reads each row, not the first one (VectorialAsofDateParameterNodeAtInstant.__getitem__)")
fix("C13-disk", "fix: give the clone of a disk-backed simulation its own temporary directory and its own copies of the stored files (Simulation.clone, Holder.clone)")
fix("C17-proxy-keys", "fix: keep the state of the tracing parameter proxy in private attributes, so that parameters called tracer or parameter_node_at_instant are not shadowed when tracing is on")
fix("C12-errclass-axes", "fix: refuse an axis over an unknown variable or an unreadable period with a situation error")


def apply(tree, idents):
    tree = pathlib.Path(tree)
    for ident in idents:
        message, edits = FIXES[ident]
        for path, old, new in edits:
            file = tree / path
            text = file.read_text()
            if text.count(old) != 1:
                raise SystemExit(f"{ident}: context found {text.count(old)} times in {path}")
            file.write_text(text.replace(old, new))
        print(f"applied {ident}: {message}")


if __name__ == "__main__":
    if len(sys.argv) >= 2 and sys.argv[1] == "list":
        for ident, (message, edits) in FIXES.items():
            print(f"{ident:6} {message}  [{', '.join(sorted({e[0] for e in edits}))}]")
    elif len(sys.argv) >= 4 and sys.argv[1] == "apply":
        wanted = list(FIXES) if sys.argv[3:] == ["all"] else sys.argv[3:]
        apply(sys.argv[2], wanted)
    else:
        raise SystemExit(__doc__)
