import warnings; warnings.simplefilter("ignore")
import random, collections, itertools
from fractions import Fraction as F
import numpy as np
from openfisca_core import taxscales
random.seed(5)
bad=collections.Counter(); ex={}
def flag(k,*i): bad[k]+=1; ex.setdefault(k,i)
def near(x, f): return abs(F(float(x))-f) < F(1,2**20)
INF=None
def spec_mr(ts, rs, b):
    tot=F(0)
    for i,(t,r) in enumerate(zip(ts,rs)):
        hi = ts[i+1] if i+1<len(ts) else None
        top = b if hi is None else min(b,hi)
        tot += r*max(F(0), top-t)
    return tot
for it in range(4000):
    n=random.randint(1,8)
    ths=sorted(random.sample(range(-8,40),n)); ths=[F(t*25) for t in ths]
    if random.random()<0.5: ths=[t for t in ths if t>=0] or [F(0)]
    rs=[F(random.randint(-4,16),16) for _ in ths]; ams=[F(random.randint(0,50)) for _ in ths]
    order=list(range(len(ths))); random.shuffle(order)
    mr=taxscales.MarginalRateTaxScale(); ma=taxscales.MarginalAmountTaxScale(); sa=taxscales.SingleAmountTaxScale(); la=taxscales.LinearAverageRateTaxScale()
    for i in order:
        mr.add_bracket(float(ths[i]), float(rs[i])); ma.add_bracket(float(ths[i]), float(ams[i])); sa.add_bracket(float(ths[i]), float(ams[i])); la.add_bracket(float(ths[i]), float(rs[i]))
    if [F(x) for x in mr.thresholds]!=ths or [F(x) for x in mr.rates]!=rs: flag("order",ths,mr.thresholds)
    bases=set(ths)|{t+F(1,4) for t in ths}|{t-F(1,4) for t in ths}|{ths[0]-100, ths[-1]+1000, F(0), F(-3)}
    bases=sorted(bases); arr=np.array([float(b) for b in bases])
    out=mr.calc(arr); bi=mr.bracket_indices(arr); mrates=mr.marginal_rates(arr)
    oma=ma.calc(arr); osa=sa.calc(arr); ola=la.calc(arr) if len(ths)>0 else None
    for j,b in enumerate(bases):
        if not near(out[j], spec_mr(ths,rs,b)): flag("mr-calc",ths,rs,b,out[j],spec_mr(ths,rs,b))
        # single element same as vector
        if mr.calc(np.array([float(b)]))[0]!=out[j]: flag("vec",b)
        k=bi[j]
        if b>=ths[0]:
            if not (0<=k<len(ths) and ths[k]<=b and (k+1==len(ths) or b<=ths[k+1])): flag("bracket-closed",ths,b,k)
            if F(float(mrates[j]))!=rs[k]: flag("mrate",ths,b)
        exp_ma=sum(a for t,a in zip(ths,ams) if t<b)
        if F(float(oma[j]))!=exp_ma: flag("ma",ths,ams,b,oma[j],exp_ma)
        exp_sa=F(0)
        for i,t in enumerate(ths):
            if t<=b and (i+1==len(ths) or b<ths[i+1]): exp_sa=ams[i]
        if F(float(osa[j]))!=exp_sa: flag("sa",ths,ams,b,osa[j],exp_sa)
        if len(ths)>1 and ths[0]<=b<ths[-1]:
            for i in range(len(ths)-1):
                if ths[i]<=b<ths[i+1]:
                    rate=rs[i]+(rs[i+1]-rs[i])*(b-ths[i])/(ths[i+1]-ths[i]); 
                    if not near(ola[j], b*rate): flag("la",ths,rs,b,ola[j],b*rate)
print(dict(bad))
for k,v in ex.items(): print(k,v)
