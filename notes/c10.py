import warnings; warnings.simplefilter("ignore")
import random, collections, sys, os
import numpy as np, openfisca_core
from openfisca_core import entities, taxbenefitsystems, simulations, populations
from openfisca_core.parameters import ParameterNode
random.seed(int(sys.argv[1]) if len(sys.argv)>1 else 1)
bad=collections.Counter(); ex={}
def flag(k,*i): bad[k]+=1; ex.setdefault(k,i)
person=entities.Entity("person","persons","","")
hh=entities.GroupEntity("household","households","","", roles=[{"key":"parent","plural":"parents","subroles":["first_parent","second_parent"]},{"key":"child","plural":"children"},{"key":"ref","max":1}])
tbs=taxbenefitsystems.TaxBenefitSystem([person,hh])
ROLES={r.key:r for r in hh.flattened_roles}; PARENT=hh.roles[0]; CHILD=hh.roles[1]; REF=hh.roles[2]
for it in range(3000):
    n=random.randint(1,14); g=random.randint(1,6)
    sim=simulations.Simulation(tbs, tbs.instantiate_entities())
    P=sim.persons; H=sim.household
    P.count=n; P.ids=[f"p{i}" for i in range(n)]; H.count=g; H.ids=[f"h{j}" for j in range(g)]
    used=random.sample(range(g), random.randint(1,g))
    meid=np.array([random.choice(used) for _ in range(n)])
    # roles: at most one ref per group
    roles=[]; hasref=set()
    for i in range(n):
        r=random.choice(["first_parent","second_parent","child","child","ref"])
        if r=="ref":
            if meid[i] in hasref: r="child"
            else: hasref.add(meid[i])
        roles.append(ROLES[r])
    H.members_entity_id=meid; H.members_role=roles
    a=np.array([float(random.randint(-9,9)) for _ in range(n)]); ab=a>0
    members=lambda j,role=None:[i for i in range(n) if meid[i]==j and (role is None or roles[i].key in role)]
    RK={None:None, PARENT:("first_parent","second_parent"), CHILD:("child",), REF:("ref",), ROLES["first_parent"]:("first_parent",)}
    try:
        for role,keys in RK.items():
            kw={} if role is None else {"role":role}
            exp=[sum(a[i] for i in members(j,keys)) for j in range(g)]
            got=H.sum(a,**kw)
            if list(got)!=exp: flag("sum",role,list(got),exp,list(meid))
            if list(H.nb_persons(**kw))!=[len(members(j,keys)) for j in range(g)]: flag("nb",role,list(H.nb_persons(**kw)),list(meid))
            if list(H.max(a,**kw))!=[max([a[i] for i in members(j,keys)],default=-np.inf) for j in range(g)]: flag("max",role)
            if list(H.min(a,**kw))!=[min([a[i] for i in members(j,keys)],default=np.inf) for j in range(g)]: flag("min",role)
            if list(H.any(ab,**kw))!=[any(ab[i] for i in members(j,keys)) for j in range(g)]: flag("any",role)
            if list(H.all(ab,**kw))!=[all(ab[i] for i in members(j,keys)) for j in range(g)]: flag("all",role)
        for k in range(0,4):
            exp=[a[members(j)[k]] if len(members(j))>k else -7.0 for j in range(g)]
            if list(H.value_nth_person(k,a,default=-7.0))!=exp: flag("nth",k,list(meid))
        exp=[a[members(j,("ref",))[0]] if members(j,("ref",)) else 0.0 for j in range(g)]
        if list(H.value_from_person(a,REF))!=exp: flag("from-role",list(meid),[r.key for r in roles],list(H.value_from_person(a,REF)),exp)
        hv=np.array([float(j*10) for j in range(g)])
        if list(H.project(hv))!=[hv[meid[i]] for i in range(n)]: flag("project")
        if list(H.project(hv,role=CHILD))!=[hv[meid[i]] if roles[i].key=="child" else 0 for i in range(n)]: flag("project-role")
        if list(P.household.sum(a))!=[sum(a[i2] for i2 in members(meid[i])) for i in range(n)]: flag("chain")
        crit=np.array(random.sample(range(100),n),dtype=float); cond=np.array([random.random()<0.7 for _ in range(n)])
        rk=P.get_rank(H,crit,condition=cond)
        for i in range(n):
            e=-1 if not cond[i] else sum(1 for i2 in members(meid[i]) if cond[i2] and crit[i2]<crit[i])
            if rk[i]!=e: flag("rank",list(meid),list(crit),list(cond),list(rk)); break
        if list(H.members_position)!=[sum(1 for i2 in range(i) if meid[i2]==meid[i]) for i in range(n)]: flag("position")
        for arr in [H.sum(a),H.nb_persons(),H.max(a),H.any(ab),H.value_nth_person(0,a),H.value_from_person(a,REF)]:
            if len(arr)!=g: flag("length")
    except Exception as e: flag("exc:"+type(e).__name__, str(e)[:80], list(meid), g)
print(os.path.dirname(openfisca_core.__file__), dict(bad))
for k,v in ex.items(): print(k, str(v)[:400])
