import warnings; warnings.simplefilter("ignore")
import random, collections, sys, os, tempfile, shutil, datetime
import numpy as np, openfisca_core
from openfisca_core import periods, entities, taxbenefitsystems, variables, simulations, indexed_enums
from openfisca_core.parameters import ParameterNode
from openfisca_core.periods import DateUnit as U
from openfisca_core.simulations import SimulationBuilder
from openfisca_core.tools import simulation_dumper as sd
random.seed(int(sys.argv[1]) if len(sys.argv)>1 else 1)
bad=collections.Counter(); ex={}
def flag(k,*i): bad[k]+=1; ex.setdefault(k,i)
person=entities.Entity("person","persons","","")
hh=entities.GroupEntity("household","households","","", roles=[{"key":"parent","plural":"parents","max":2,"subroles":["first_parent","second_parent"]},{"key":"child","plural":"children"}])
class Col(indexed_enums.Enum):
    red="r"; green="g"; blue="b"
tbs=taxbenefitsystems.TaxBenefitSystem([person,hh]); tbs.parameters=ParameterNode("",data={})
def mk(name, vt, dp=U.MONTH, ent=person, **kw):
    d=dict(value_type=vt, entity=ent, definition_period=dp); d.update(kw); tbs.add_variable(type(name,(variables.Variable,),d))
mk("f",float); mk("i",int); mk("b",bool); mk("s",str); mk("d",datetime.date,U.ETERNITY); mk("e",indexed_enums.Enum,possible_values=Col,default_value=Col.green)
mk("w",float,U.WEEK); mk("wd",float,U.WEEKDAY); mk("dy",float,U.DAY); mk("y",float,U.YEAR); mk("hy",float,U.YEAR,hh); mk("he",indexed_enums.Enum,U.ETERNITY,hh,possible_values=Col,default_value=Col.red)
def fsum(p, period): return p("f",period)*2+p("i",period)
mk("calc_m",float,formula=fsum)
def fh(h, period): return h.sum(h.members("calc_m", period.first_month))
mk("calc_h",float,U.YEAR,hh,formula=fh)
VAL={"f":lambda:random.randint(0,99)/4,"i":lambda:random.randint(-5,50),"b":lambda:random.random()<0.5,"s":lambda:random.choice(["","x","hello world","é"]),"d":lambda:f"19{random.randint(10,99)}-0{random.randint(1,9)}-1{random.randint(0,9)}","e":lambda:random.choice(["red","green","blue"]),
     "w":lambda:random.randint(0,9)*1.0,"wd":lambda:random.randint(0,9)*1.0,"dy":lambda:random.randint(0,9)*1.0,"y":lambda:random.randint(0,9)*1.0,"hy":lambda:random.randint(0,9)*1.0,"he":lambda:random.choice(["red","green","blue"])}
PERS={"f":["2018-01","2018-02"],"i":["2018-01"],"b":["2018-01"],"s":["2018-01"],"d":["ETERNITY"],"e":["2018-01","2017-12"],"w":["2015-W53","2018-W01","2020-W53"],"wd":["2018-W01-3","2015-W53-7"],"dy":["2018-01-31","2020-02-29"],"y":["2018","year:2018-03"],"hy":["2018","year:2017-07"],"he":["ETERNITY"]}
def vals(sim):
    out={}
    for pop in sim.populations.values():
        for v,h in pop._holders.items():
            for p in h.get_known_periods():
                a=h.get_array(p); out[(v,str(p))]=(type(a).__name__, a.dtype.kind, a.decode_to_str().tolist() if isinstance(a, indexed_enums.EnumArray) else a.tolist())
    return out
for it in range(150):
    np_=random.randint(1,6); pids=[f"p{i}" for i in range(np_)]; random.shuffle(pids)
    ng=random.randint(1,3); groups={f"g{j}":{} for j in range(ng)}
    if random.random()<0.3: groups["gempty"]={}
    for pid in pids:
        if random.random()<0.15: continue
        g=groups[random.choice([k for k in groups if k!="gempty"])]
        if len(g.get("parents",[]))<2 and random.random()<0.6: g.setdefault("parents",[]).append(pid)
        else: g.setdefault("children",[]).append(pid)
    persons={pid:{} for pid in pids}
    for v in ["f","i","b","s","d","e","w","wd","dy","y"]:
        for pid in pids:
            if random.random()<0.3: persons[pid].setdefault(v,{})[random.choice(PERS[v])]=VAL[v]()
    for gk,g in groups.items():
        for v in ["hy","he"]:
            if random.random()<0.4: g.setdefault(v,{})[random.choice(PERS[v])]=VAL[v]()
    sit={"persons":persons,"households":dict(random.sample(list(groups.items()),len(groups)))}
    try: sim=SimulationBuilder().build_from_entities(tbs,sit)
    except Exception as e: flag("build:"+type(e).__name__, str(e)[:100]); continue
    for _ in range(random.randint(0,3)):
        try:
            if random.random()<0.5: sim.calculate("calc_m",random.choice(["2018-01","2018-02"]))
            else: sim.calculate("calc_h",random.choice(["2018","2017"]))
        except Exception as e: flag("calc:"+type(e).__name__, str(e)[:100])
    d=tempfile.mkdtemp()+"/dump"
    try:
        sd.dump_simulation(sim,d); r=sd.restore_simulation(d,tbs)
    except Exception as e: flag("dump/restore:"+type(e).__name__, str(e)[:120], sit); shutil.rmtree(os.path.dirname(d)); continue
    a=vals(sim); b=vals(r)
    if a!=b: flag("values", {k:(a.get(k),b.get(k)) for k in set(a)|set(b) if a.get(k)!=b.get(k)})
    o=sim.household; n=r.household
    if list(o.ids)!=list(n.ids) or o.count!=n.count or list(o.members_entity_id)!=list(n.members_entity_id) or list(o.members_position)!=list(n.members_position) or [x.key for x in o.members_role]!=[x.key for x in n.members_role]: flag("structure", list(o.ids), list(n.ids), o.count, n.count)
    if list(sim.person.ids)!=list(r.person.ids) or sim.person.count!=r.person.count: flag("persons")
    for v,p in [("calc_m","2018-01"),("calc_h","2018"),("calc_h","2017")]:
        try:
            if sim.calculate(v,p).tolist()!=r.calculate(v,p).tolist(): flag("calc-diff",v,p)
        except Exception as e: flag("calc2:"+type(e).__name__, str(e)[:100])
    shutil.rmtree(os.path.dirname(d))
print(os.path.dirname(openfisca_core.__file__), dict(bad))
for k,v in ex.items(): print(k, str(v)[:700])
