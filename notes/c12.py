import warnings; warnings.simplefilter("ignore")
import random, collections, sys, os, datetime, copy
import numpy as np, openfisca_core
from openfisca_core import periods, entities, taxbenefitsystems, variables, simulations, indexed_enums, holders, errors
from openfisca_core.parameters import ParameterNode
from openfisca_core.periods import DateUnit as U
from openfisca_core.simulations import SimulationBuilder
random.seed(int(sys.argv[1]) if len(sys.argv)>1 else 1)
bad=collections.Counter(); ex={}
def flag(k,*i): bad[k]+=1; ex.setdefault(k,i)
person=entities.Entity("person","persons","","")
hh=entities.GroupEntity("household","households","","", roles=[{"key":"parent","plural":"parents","max":2,"subroles":["first_parent","second_parent"]},{"key":"child","plural":"children"}])
fam=entities.GroupEntity("family","families","","", roles=[{"key":"head","max":1},{"key":"other","plural":"others"}])
class Col(indexed_enums.Enum):
    red="r"; green="g"; blue="b"
tbs=taxbenefitsystems.TaxBenefitSystem([person,hh,fam]); tbs.parameters=ParameterNode("",data={})
def mk(name, vt, dp=U.MONTH, ent=person, **kw):
    d=dict(value_type=vt, entity=ent, definition_period=dp); d.update(kw); tbs.add_variable(type(name,(variables.Variable,),d))
mk("f",float); mk("i",int); mk("b",bool); mk("s",str); mk("d",datetime.date,U.ETERNITY); mk("e",indexed_enums.Enum,possible_values=Col,default_value=Col.green)
mk("dv",float,set_input=holders.set_input_divide_by_period); mk("ds",int,set_input=holders.set_input_dispatch_by_period)
mk("y",float,U.YEAR); mk("hf",float,ent=hh); mk("he",indexed_enums.Enum,U.ETERNITY,hh,possible_values=Col,default_value=Col.red); mk("ff",float,U.YEAR,fam)
SPELL={"2018-01":["2018-01","month:2018-01","month:2018-01:1"],"2018-02":["2018-02","month:2018-02"],"ETERNITY":["ETERNITY","eternity","Eternity"],"2018":["2018","year:2018","year:2018:1","month:2018-01:12",2018],"2017":["2017","year:2017"]}
VARS={"f":(["2018-01","2018-02"],lambda:random.randint(0,99)/4),"i":(["2018-01"],lambda:random.randint(-5,50)),"b":(["2018-01"],lambda:random.random()<0.5),"s":(["2018-01"],lambda:random.choice(["x","hello"])),
      "d":(["ETERNITY"],lambda:f"19{random.randint(10,99)}-0{random.randint(1,9)}-1{random.randint(0,9)}"),"e":(["2018-01"],lambda:random.choice(["red","blue"])),"y":(["2018","2017"],lambda:float(random.randint(0,9)))}
GV={"hf":(["2018-01","2018-02"],lambda:float(random.randint(0,9)),"households"),"he":(["ETERNITY"],lambda:random.choice(["green","blue"]),"households"),"ff":(["2018","2017"],lambda:float(random.randint(0,9)),"families")}
def canon_val(v,x):
    vt=tbs.get_variable(v).value_type
    if vt is float: return float(np.float32(x))
    if vt is datetime.date: return datetime.date.fromisoformat(x)
    return x
def read(sim,v,p):
    a=sim.get_array(v,p)
    if a is None: return None
    return a.decode_to_str().tolist() if isinstance(a,indexed_enums.EnumArray) else a.tolist()
for it in range(600):
    n=random.randint(1,6); pids=[f"p{i}" for i in range(n)]; random.shuffle(pids)
    persons={pid:{} for pid in pids}; expect={}  # (var, canonical period, entity id) -> value
    for v,(pers,gen) in VARS.items():
        for pid in pids:
            for cp in pers:
                if random.random()<0.35:
                    x=gen(); persons[pid].setdefault(v,{})[random.choice(SPELL[cp])]=x; expect[(v,cp,pid)]=canon_val(v,x)
    doc={"persons":persons}
    membership={}
    for ent,plural,rolespec in [("household","households",[("parents",2),("children",None)]),("family","families",[("head",1),("others",None)])]:
        if random.random()<0.2: continue   # entity omitted -> default groups
        ng=random.randint(1,3); groups={f"{ent[0]}{j}":{} for j in range(ng)}
        if random.random()<0.3: groups[f"{ent[0]}empty"]={}
        for pid in pids:
            if random.random()<0.2: continue
            gk=random.choice([k for k in groups if not k.endswith("empty")]); g=groups[gk]
            opts=[r for r,mx in rolespec if mx is None or len(g.get(r,[]))<mx]
            r=random.choice(opts); g.setdefault(r,[]).append(pid); membership[(plural,pid)]=(gk,r,len(g[r])-1)
        for gv,(pers,gen,pl) in GV.items():
            if pl!=plural: continue
            for gk in groups:
                for cp in pers:
                    if random.random()<0.35:
                        x=gen(); groups[gk].setdefault(gv,{})[random.choice(SPELL[cp])]=x; expect[(gv,cp,gk)]=canon_val(gv,x)
        items=list(groups.items()); random.shuffle(items); doc[plural]=dict(items)
    try: sim=SimulationBuilder().build_from_dict(tbs, copy.deepcopy(doc))
    except Exception as e: flag("build:"+type(e).__name__, str(e)[:150], doc); continue
    if sim is None: flag("none",doc); continue
    if list(sim.person.ids)!=pids: flag("person-ids")
    for plural,key in [("households","household"),("families","family")]:
        pop=sim.populations[key]; ids=list(pop.ids)
        if plural in doc:
            declared=list(doc[plural].keys())
            if ids[:len(declared)]!=declared: flag("group-ids",ids,declared)
            if pop.count!=len(ids): flag("count")
            for i,pid in enumerate(pids):
                gid=ids[pop.members_entity_id[i]]; role=pop.members_role[i].key
                if (plural,pid) in membership:
                    gk,r,idx=membership[(plural,pid)]
                    exprole=(["first_parent","second_parent"][idx] if r=="parents" else {"children":"child","head":"head","others":"other"}[r])
                    if gid!=gk or role!=exprole: flag("membership",plural,pid,gid,gk,role,exprole)
                else:
                    if gid!=pid or sum(1 for i2 in range(n) if pop.members_entity_id[i2]==pop.members_entity_id[i])!=1: flag("own-group",plural,pid,gid)
        else:
            if ids!=pids or list(pop.members_entity_id)!=list(range(n)): flag("default-groups",ids)
    # values
    byvp=collections.defaultdict(dict)
    for (v,cp,eid),x in expect.items(): byvp[(v,cp)][eid]=x
    for (v,cp),m in byvp.items():
        pop=sim.get_variable_population(v); arr=read(sim,v,cp)
        if arr is None: flag("missing",v,cp,doc); continue
        var=tbs.get_variable(v); dflt=var.default_value.name if var.value_type is indexed_enums.Enum else var.default_value
        for i,eid in enumerate(pop.ids):
            e=m.get(eid,dflt)
            if arr[i]!=e: flag("value",v,cp,eid,arr[i],e,doc); break
print(os.path.dirname(openfisca_core.__file__), dict(bad))
for k,v in ex.items(): print(k, str(v)[:600])
