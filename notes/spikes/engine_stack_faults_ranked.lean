-- Spike 2: memoised machine with evaluation stack, cycle detection, faults and try/finally
-- discipline, against a cache-less meaning.  Shape of C01_calculate_eq_den + C18 stack clause.
inductive Expr where
  | const (c : Int)
  | ref (v p : Nat)
  | add (a b : Expr)
  | fail                       -- a formula that raises

abbrev Node := Nat × Nat

inductive Err where
  | cycle | fault
deriving DecidableEq, Repr

abbrev Res := Except Err Int

structure Sys where
  formula : Nat → Nat → Option Expr
  input   : Nat → Nat → Option Int

abbrev Cache := List (Node × Int)

def lookup (c : Cache) (k : Node) : Option Int :=
  match c with
  | [] => none
  | (k', x) :: r => if k' = k then some x else lookup r k

structure St where
  cache : Cache
  stack : List Node

-- meaning: cache-less, path-sensitive (cycle = node already on the path), fuel-bounded
mutual
def den (sys : Sys) : Nat → List Node → Nat → Nat → Option Res
  | 0, _, _, _ => none
  | n+1, path, v, p =>
    match sys.input v p with
    | some x => some (.ok x)
    | none =>
      if (v, p) ∈ path then some (.error .cycle) else
      match sys.formula v p with
      | none => some (.ok 0)
      | some e => denE sys n ((v, p) :: path) e
def denE (sys : Sys) : Nat → List Node → Expr → Option Res
  | _, _, .const c => some (.ok c)
  | _, _, .fail => some (.error .fault)
  | n, path, .ref v p => den sys n path v p
  | n, path, .add a b =>
    match denE sys n path a with
    | none => none
    | some (.error e) => some (.error e)        -- exception propagates, b is not evaluated
    | some (.ok x) =>
      match denE sys n path b with
      | none => none
      | some (.error e) => some (.error e)
      | some (.ok y) => some (.ok (x + y))
end

-- machine: cache lookup, cycle check on the stack, push, formula, pop (finally), store on success
mutual
def run (sys : Sys) : Nat → St → Nat → Nat → Option (Res × St)
  | 0, _, _, _ => none
  | n+1, s, v, p =>
    match lookup s.cache (v, p) with
    | some x => some (.ok x, s)
    | none =>
      match sys.input v p with
      | some x => some (.ok x, s)
      | none =>
        if (v, p) ∈ s.stack then some (.error .cycle, s) else
        match sys.formula v p with
        | none => some (.ok 0, { s with cache := ((v, p), 0) :: s.cache })
        | some e =>
          match runE sys n { s with stack := (v, p) :: s.stack } e with
          | none => none
          | some (.error er, s') => some (.error er, { s' with stack := s'.stack.tail })   -- finally: pop
          | some (.ok x, s') => some (.ok x, { cache := ((v, p), x) :: s'.cache, stack := s'.stack.tail })
def runE (sys : Sys) : Nat → St → Expr → Option (Res × St)
  | _, s, .const k => some (.ok k, s)
  | _, s, .fail => some (.error .fault, s)
  | n, s, .ref v p => run sys n s v p
  | n, s, .add a b =>
    match runE sys n s a with
    | none => none
    | some (.error e, s1) => some (.error e, s1)
    | some (.ok x, s1) =>
      match runE sys n s1 b with
      | none => none
      | some (.error e, s2) => some (.error e, s2)
      | some (.ok y, s2) => some (.ok (x + y), s2)
end

-- stack discipline: whatever happens, the stack comes back (C17/C18 stack clause)
mutual
theorem run_stack (sys : Sys) : ∀ n s v p r s', run sys n s v p = some (r, s') → s'.stack = s.stack
  | 0, _, _, _, _, _, h => by simp [run] at h
  | n+1, s, v, p, r, s', h => by
    unfold run at h
    split at h
    · cases h; rfl
    · split at h
      · cases h; rfl
      · split at h
        · cases h; rfl
        · split at h
          · cases h; rfl
          · split at h
            · cases h
            · rename_i er s1 hr
              have := runE_stack sys n _ _ _ _ hr
              cases h; simp [this]
            · rename_i x s1 hr
              have := runE_stack sys n _ _ _ _ hr
              cases h; simp [this]
theorem runE_stack (sys : Sys) : ∀ n s e r s', runE sys n s e = some (r, s') → s'.stack = s.stack
  | _, s, .const k, r, s', h => by simp [runE] at h; rw [← h.2]
  | _, s, .fail, r, s', h => by simp [runE] at h; rw [← h.2]
  | n, s, .ref v p, r, s', h => by simp only [runE] at h; exact run_stack sys n s v p r s' h
  | n, s, .add a b, r, s', h => by
    simp only [runE] at h
    split at h
    · cases h
    · rename_i e s1 ha
      cases h; exact runE_stack sys n s a _ _ ha
    · rename_i x s1 ha
      have h1 := runE_stack sys n s a _ _ ha
      split at h
      · cases h
      · rename_i e s2 hb
        cases h; rw [runE_stack sys n s1 b _ _ hb, h1]
      · rename_i y s2 hb
        cases h; rw [runE_stack sys n s1 b _ _ hb, h1]
end


-- ---------- ranked (acyclic) systems: machine = meaning, from any consistent state ----------
def refs : Expr → List Node
  | .const _ => []
  | .fail => []
  | .ref v p => [(v, p)]
  | .add a b => refs a ++ refs b

def Ranked (sys : Sys) (rk : Node → Nat) : Prop :=
  ∀ v p e, sys.formula v p = some e → ∀ k ∈ refs e, rk k < rk (v, p)

def Above (rk : Node → Nat) (path : List Node) (k : Node) : Prop := ∀ j ∈ path, rk k < rk j

-- fuel monotonicity
mutual
theorem den_mono (sys : Sys) : ∀ n path v p r, den sys n path v p = some r → den sys (n+1) path v p = some r
  | 0, _, _, _, _, h => by simp [den] at h
  | n+1, path, v, p, r, h => by
    unfold den at h ⊢
    split at h
    · exact h
    · by_cases hm : (v, p) ∈ path
      · simp only [hm, if_true] at h ⊢; exact h
      · simp only [hm, if_false] at h ⊢
        split at h
        · exact h
        · exact denE_mono sys n _ _ r h
theorem denE_mono (sys : Sys) : ∀ n path e r, denE sys n path e = some r → denE sys (n+1) path e = some r
  | _, _, .const c, r, h => by simpa [denE] using h
  | _, _, .fail, r, h => by simpa [denE] using h
  | n, path, .ref v p, r, h => by
    simp only [denE] at h ⊢; exact den_mono sys n path v p r h
  | n, path, .add a b, r, h => by
    simp only [denE] at h ⊢
    split at h
    · cases h
    · rename_i e ha
      rw [denE_mono sys n path a _ ha]; exact h
    · rename_i x ha
      rw [denE_mono sys n path a _ ha]
      simp only
      split at h
      · cases h
      · rename_i e hb
        rw [denE_mono sys n path b _ hb]; exact h
      · rename_i y hb
        rw [denE_mono sys n path b _ hb]; exact h
end

theorem den_mono_le (sys : Sys) {n m path v p r} (h : den sys n path v p = some r) (hle : n ≤ m) :
    den sys m path v p = some r := by
  induction hle with
  | refl => exact h
  | step _ ih => exact den_mono sys _ path v p r ih

theorem den_det (sys : Sys) {n m path v p r r'} (h1 : den sys n path v p = some r) (h2 : den sys m path v p = some r') : r = r' := by
  have a := den_mono_le sys h1 (Nat.le_max_left n m)
  have b := den_mono_le sys h2 (Nat.le_max_right n m)
  rw [a] at b; exact Option.some.inj b

-- in a ranked system the path does not matter for nodes below it
mutual
theorem den_path (sys : Sys) (rk : Node → Nat) (hr : Ranked sys rk) :
    ∀ n path v p, Above rk path (v, p) → den sys n path v p = den sys n [] v p
  | 0, _, _, _, _ => by simp [den]
  | n+1, path, v, p, ha => by
    unfold den
    split
    · rfl
    · have hnot : (v, p) ∉ path := fun hm => Nat.lt_irrefl _ (ha _ hm)
      simp only [hnot, if_false, List.not_mem_nil]
      split
      · rfl
      · rename_i e he
        have h1 := denE_path sys rk hr n ((v, p) :: path) e (fun k hk j hj => by
          rcases List.mem_cons.mp hj with rfl | hj
          · exact hr v p e he k hk
          · exact Nat.lt_trans (hr v p e he k hk) (ha j hj))
        have h2 := denE_path sys rk hr n [(v, p)] e (fun k hk j hj => by
          rcases List.mem_cons.mp hj with rfl | hj
          · exact hr v p e he k hk
          · cases hj)
        rw [h1, h2]
theorem denE_path (sys : Sys) (rk : Node → Nat) (hr : Ranked sys rk) :
    ∀ n path e, (∀ k ∈ refs e, Above rk path k) → denE sys n path e = denE sys n [] e
  | _, _, .const c, _ => by simp [denE]
  | _, _, .fail, _ => by simp [denE]
  | n, path, .ref v p, h => by
    simp only [denE]; exact den_path sys rk hr n path v p (h (v, p) (by simp [refs]))
  | n, path, .add a b, h => by
    simp only [denE]
    rw [denE_path sys rk hr n path a (fun k hk => h k (by simp [refs, hk])),
        denE_path sys rk hr n path b (fun k hk => h k (by simp [refs, hk]))]
end
#print axioms den_path

/-- every cached value is the (successful) meaning from the empty path -/
def Cons (sys : Sys) (c : Cache) : Prop :=
  ∀ k x, lookup c k = some x → ∃ n, den sys n [] k.1 k.2 = some (.ok x)

theorem cons_insert (sys : Sys) {c : Cache} {v p x n} (hc : Cons sys c)
    (h : den sys n [] v p = some (.ok x)) : Cons sys (((v, p), x) :: c) := by
  intro k y hk
  simp only [lookup] at hk
  split at hk
  · rename_i heq; cases heq; cases hk; exact ⟨n, h⟩
  · exact hc k y hk

mutual
theorem run_eq_den (sys : Sys) (rk : Node → Nat) (hr : Ranked sys rk) :
    ∀ n s v p r, Cons sys s.cache → Above rk s.stack (v, p) → den sys n s.stack v p = some r →
      ∃ s', run sys n s v p = some (r, s') ∧ Cons sys s'.cache ∧ s'.stack = s.stack
  | 0, _, _, _, _, _, _, h => by simp [den] at h
  | n+1, s, v, p, r, hc, ha, h => by
    have hnot : (v, p) ∉ s.stack := fun hm => Nat.lt_irrefl _ (ha _ hm)
    unfold run
    split
    · -- cache hit
      rename_i y hy
      obtain ⟨m, hm⟩ := hc (v, p) y hy
      have h' := h
      rw [den_path sys rk hr (n+1) s.stack v p ha] at h'
      have := den_det sys hm h'
      subst this
      exact ⟨s, rfl, hc, rfl⟩
    · unfold den at h
      split at h
      · rename_i y hy
        cases h
        exact ⟨s, rfl, hc, rfl⟩
      · rename_i hin
        simp only [hnot, if_false] at h ⊢
        split at h
        · rename_i hf
          cases h
          refine ⟨_, rfl, cons_insert sys hc (n := 1) ?_, rfl⟩
          simp [den, hin, hf]
        · rename_i e hf
          have hab : ∀ k ∈ refs e, Above rk ((v, p) :: s.stack) k := fun k hk j hj => by
            rcases List.mem_cons.mp hj with rfl | hj
            · exact hr v p e hf k hk
            · exact Nat.lt_trans (hr v p e hf k hk) (ha j hj)
          obtain ⟨s1, hr1, hc1, hs1⟩ :=
            runE_eq_den sys rk hr n { s with stack := (v, p) :: s.stack } e r hc hab h
          simp only [hr1]
          cases r with
          | error er =>
            refine ⟨_, rfl, hc1, ?_⟩
            simp [hs1]
          | ok x =>
            refine ⟨_, rfl, cons_insert sys hc1 (n := n+1) ?_, ?_⟩
            · -- the stored value is the meaning from the empty path
              have hp := denE_path sys rk hr n ((v, p) :: s.stack) e hab
              have hp2 := denE_path sys rk hr n [(v, p)] e (fun k hk j hj => by
                rcases List.mem_cons.mp hj with rfl | hj
                · exact hr v p e hf k hk
                · cases hj)
              simp only [den, hin, List.not_mem_nil, if_false, hf]
              rw [hp2, ← hp]; exact h
            · simp [hs1]
theorem runE_eq_den (sys : Sys) (rk : Node → Nat) (hr : Ranked sys rk) :
    ∀ n s e r, Cons sys s.cache → (∀ k ∈ refs e, Above rk s.stack k) → denE sys n s.stack e = some r →
      ∃ s', runE sys n s e = some (r, s') ∧ Cons sys s'.cache ∧ s'.stack = s.stack
  | _, s, .const k, r, hc, _, h => by
    simp only [denE] at h; cases h; exact ⟨s, by simp [runE], hc, rfl⟩
  | _, s, .fail, r, hc, _, h => by
    simp only [denE] at h; cases h; exact ⟨s, by simp [runE], hc, rfl⟩
  | n, s, .ref v p, r, hc, ha, h => by
    simp only [denE] at h
    simpa [runE] using run_eq_den sys rk hr n s v p r hc (ha (v, p) (by simp [refs])) h
  | n, s, .add a b, r, hc, ha, h => by
    simp only [denE] at h
    have haa : ∀ k ∈ refs a, Above rk s.stack k := fun k hk => ha k (by simp [refs, hk])
    have hab : ∀ k ∈ refs b, Above rk s.stack k := fun k hk => ha k (by simp [refs, hk])
    split at h
    · cases h
    · rename_i er hda
      obtain ⟨s1, h1, hc1, hs1⟩ := runE_eq_den sys rk hr n s a _ hc haa hda
      cases h
      exact ⟨s1, by simp [runE, h1], hc1, hs1⟩
    · rename_i x hda
      obtain ⟨s1, h1, hc1, hs1⟩ := runE_eq_den sys rk hr n s a _ hc haa hda
      split at h
      · cases h
      · rename_i er hdb
        obtain ⟨s2, h2, hc2, hs2⟩ := runE_eq_den sys rk hr n s1 b _ hc1 (by rw [hs1]; exact hab) (by rw [hs1]; exact hdb)
        cases h
        exact ⟨s2, by simp [runE, h1, h2], hc2, by rw [hs2, hs1]⟩
      · rename_i y hdb
        obtain ⟨s2, h2, hc2, hs2⟩ := runE_eq_den sys rk hr n s1 b _ hc1 (by rw [hs1]; exact hab) (by rw [hs1]; exact hdb)
        cases h
        exact ⟨s2, by simp [runE, h1, h2], hc2, by rw [hs2, hs1]⟩
end

/-- corollary: from the initial state and after ANY list of earlier requests (successful or
    failed), a request returns its meaning: order independence + "as if the failed request
    was never made". -/
theorem request_independent (sys : Sys) (rk : Node → Nat) (hr : Ranked sys rk)
    (s : St) (hc : Cons sys s.cache) (hs : s.stack = []) (n v p r)
    (h : den sys n [] v p = some r) :
    ∃ s', run sys n s v p = some (r, s') ∧ Cons sys s'.cache ∧ s'.stack = [] := by
  have := run_eq_den sys rk hr n s v p r hc (by rw [hs]; intro j hj; cases hj) (by rw [hs]; exact h)
  obtain ⟨s', h1, h2, h3⟩ := this
  exact ⟨s', h1, h2, by rw [h3, hs]⟩

#print axioms run_eq_den
#print axioms request_independent
