import Mathlib.Tactic.Linarith
import Mathlib.Tactic.Ring
import Mathlib.Algebra.Order.Field.Rat
-- Spike: marginal-rate mcalc equals the "rate increment" form  Σ (r_i - r_{i-1}) * (x - t_i)⁺

abbrev Scale := List (Rat × Rat)

def pos (a : Rat) : Rat := max 0 a

/-- the code's clip formula, bracket by bracket (last bracket unbounded) -/
def mcalc : Scale → Rat → Rat
  | [], _ => 0
  | [(t, r)], x => r * pos (x - t)
  | (t, r) :: (t', r') :: rest, x => r * pos (min x t' - t) + mcalc ((t', r') :: rest) x

/-- increment form, `prev` = rate of the previous bracket -/
def calcD : Rat → Scale → Rat → Rat
  | _, [], _ => 0
  | prev, (t, r) :: rest, x => (r - prev) * pos (x - t) + calcD r rest x

def SortedT : Scale → Prop
  | [] => True
  | [_] => True
  | (t, _) :: (t', r') :: rest => t < t' ∧ SortedT ((t', r') :: rest)

theorem pos_clip (x t t' : Rat) (h : t < t') : pos (min x t' - t) = pos (x - t) - pos (x - t') := by
  unfold pos
  rcases le_total x t' with h1 | h1
  · rw [min_eq_left h1, max_eq_left (by linarith : x - t' ≤ 0)]; ring
  · rw [min_eq_right h1, max_eq_right (by linarith : 0 ≤ t' - t), max_eq_right (by linarith : 0 ≤ x - t),
        max_eq_right (by linarith : 0 ≤ x - t')]; ring

theorem mcalc_eq_calcD : ∀ (s : Scale) (prev : Rat) (x : Rat), SortedT s →
    calcD prev s x = mcalc s x - prev * (match s with | [] => 0 | (t, _) :: _ => pos (x - t))
  | [], _, _, _ => by simp [mcalc, calcD]
  | [(t, r)], prev, x, _ => by simp [mcalc, calcD]; ring
  | (t, r) :: (t', r') :: rest, prev, x, h => by
    have ih := mcalc_eq_calcD ((t', r') :: rest) r x h.2
    simp only [calcD] at ih ⊢
    simp only [mcalc]
    rw [pos_clip x t t' h.1]
    linarith [ih]

theorem mcalc_incr (s : Scale) (x : Rat) (h : SortedT s) : mcalc s x = calcD 0 s x := by
  have := mcalc_eq_calcD s 0 x h
  simp at this; linarith

#print axioms mcalc_incr
