def dby (y : Int) : Int := 365*(y-1) + (y-1)/4 - (y-1)/100 + (y-1)/400
theorem year_part (n n400 n100 n4 n1 r4 : Int)
  (e : n = 146097*n400 + 36524*n100 + 1461*n4 + 365*n1 + r4)
  (b100 : 0 ≤ n100 ∧ n100 ≤ 3) (b4 : 0 ≤ n4 ∧ n4 ≤ 24) (b1 : 0 ≤ n1 ∧ n1 ≤ 3) :
  dby (400*n400 + 100*n100 + 4*n4 + n1 + 1) + r4 = n := by
  unfold dby; omega
-- full: from ediv/emod
theorem year_part' (n : Int) (h0 : 0 ≤ n) :
  let n400 := n / 146097; let r1 := n % 146097
  let n100 := r1 / 36524; let r2 := r1 % 36524
  let n4 := r2 / 1461; let r3 := r2 % 1461
  let n1 := r3 / 365; let r4 := r3 % 365
  n100 ≠ 4 → n1 ≠ 4 → dby (400*n400 + 100*n100 + 4*n4 + n1 + 1) + r4 = n := by
  intro n400 r1 n100 r2 n4 r3 n1 r4 h100 h1
  have := year_part n n400 n100 n4 n1 r4 (by omega) (by omega) (by omega) (by omega)
  exact this
