-- Spike: Parameter.update (closed range) — pointwise theorem and sortedness (C06)
structure Entry (V : Type) where
  date : Int
  val  : Option V

variable {V : Type}

def pget (l : List (Entry V)) (d : Int) : Option V :=
  match l with
  | [] => none
  | e :: r => if e.date ≤ d then e.val else pget r d

/-- all dates of `l` are < `b` and strictly decreasing -/
def SortedBelow : Int → List (Entry V) → Prop
  | _, [] => True
  | b, e :: r => e.date < b ∧ SortedBelow e.date r

/-- value in force at `s` in `l` when every entry of `l` is < s : that of the head -/
def headVal (l : List (Entry V)) : Option V :=
  match l with
  | [] => none
  | e :: _ => e.val

/-- `upd l a s v`: the code's update for the range [a, s-1] (s = stop + 1), as a structural
    recursion over the reverse-chronological list. Phases: keep entries ≥ s; re-open at s
    (unless an entry is dated exactly s); insert (a, v); drop entries in [a, s); keep the rest. -/
def dropGe (l : List (Entry V)) (a : Int) : List (Entry V) :=
  match l with
  | [] => []
  | e :: r => if a ≤ e.date then dropGe r a else e :: r

def upd (l : List (Entry V)) (a s : Int) (v : Option V) : List (Entry V) :=
  match l with
  | [] => [⟨s, none⟩, ⟨a, v⟩]
  | e :: r =>
    if s < e.date then e :: upd r a s v
    else if s = e.date then e :: ⟨a, v⟩ :: dropGe r a
    else ⟨s, e.val⟩ :: ⟨a, v⟩ :: dropGe (e :: r) a

theorem sortedBelow_mono {b b' : Int} {l : List (Entry V)} (h : SortedBelow b l) (hb : b ≤ b') : SortedBelow b' l := by
  cases l with
  | nil => trivial
  | cons e r => exact ⟨by have := h.1; omega, h.2⟩

theorem pget_of_lt {b : Int} {l : List (Entry V)} (h : SortedBelow b l) : ∀ e ∈ l, e.date < b := by
  induction l generalizing b with
  | nil => intro e he; cases he
  | cons x r ih =>
    intro e he
    rcases List.mem_cons.mp he with rfl | he'
    · exact h.1
    · have := ih h.2 e he'; have := h.1; omega

theorem pget_dropGe {b : Int} (l : List (Entry V)) (a d : Int) (h : SortedBelow b l) (hd : d < a) :
    pget (dropGe l a) d = pget l d := by
  induction l generalizing b with
  | nil => rfl
  | cons e r ih =>
    simp only [dropGe]
    split
    · rename_i hge
      rw [ih h.2]
      simp only [pget]
      rw [if_neg (by omega)]
    · rfl

theorem sorted_dropGe {b : Int} (l : List (Entry V)) (a : Int) (h : SortedBelow b l) :
    SortedBelow a (dropGe l a) := by
  induction l generalizing b with
  | nil => trivial
  | cons e r ih =>
    simp only [dropGe]
    split
    · exact ih h.2
    · rename_i hlt
      exact ⟨by omega, h.2⟩

/-- pointwise effect of an update on [a, s) -/
theorem pget_upd {b : Int} (l : List (Entry V)) (a s : Int) (v : Option V) (has : a < s)
    (h : SortedBelow b l) (d : Int) :
    pget (upd l a s v) d = if a ≤ d ∧ d < s then v else pget l d := by
  induction l generalizing b with
  | nil =>
    simp only [upd, pget]
    by_cases h1 : s ≤ d
    · simp [h1]; intro _; omega
    · by_cases h2 : a ≤ d
      · simp [h1, h2]
        try omega
      · simp [h1, h2]
  | cons e r ih =>
    simp only [upd]
    split
    · rename_i hlt
      simp only [pget]
      by_cases hed : e.date ≤ d
      · simp [hed]; intro _; omega
      · simp only [hed, if_false]
        exact ih h.2
    · split
      · rename_i _ heq
        simp only [pget]
        by_cases hed : e.date ≤ d
        · simp [hed]; intro _; omega
        · simp only [hed, if_false]
          by_cases had : a ≤ d
          · simp [had]; omega
          · simp only [had, false_and, if_false]
            exact pget_dropGe r a d h.2 (by omega)
      · rename_i hnlt hne
        have hes : e.date < s := by omega
        simp only [pget]
        by_cases hsd : s ≤ d
        · have : e.date ≤ d := by omega
          simp [hsd, this]; intro _; omega
        · simp only [hsd, if_false]
          by_cases had : a ≤ d
          · simp [had]; omega
          · simp only [had, false_and, if_false]
            have := pget_dropGe (e :: r) a d h (by omega)
            simpa [pget] using this

theorem sorted_upd {b : Int} (l : List (Entry V)) (a s : Int) (v : Option V) (has : a < s)
    (h : SortedBelow b l) (hb : s < b) : SortedBelow b (upd l a s v) := by
  induction l generalizing b with
  | nil => exact ⟨hb, has, trivial⟩
  | cons e r ih =>
    simp only [upd]
    split
    · rename_i hlt
      exact ⟨h.1, ih h.2 hlt⟩
    · split
      · rename_i _ heq
        exact ⟨h.1, by show a < e.date; omega, sorted_dropGe r a h.2⟩
      · exact ⟨hb, has, sorted_dropGe (e :: r) a h⟩

#print axioms pget_upd
#print axioms sorted_upd
#eval (upd [⟨10, some 1⟩, ⟨5, some 2⟩, ⟨0, some 3⟩] 4 8 (some 9)).map (fun e => (e.date, e.val))
