-- Spike 3: spiral heuristic + ghost provenance bit.  Shape of C02_untainted_is_meaning:
-- every cache entry whose ghost bit is false equals the pure context-free meaning,
-- for ALL rule systems (cyclic, spiralling, faulty), all states reachable, any spiral limit.
inductive Expr where
  | const (c : Int)
  | ref (v p : Nat)
  | add (a b : Expr)
  | fail

abbrev Node := Nat × Nat
inductive Err where | cycle | fault
abbrev Res := Except Err Int

structure Sys where
  formula : Nat → Nat → Option Expr
  input   : Nat → Nat → Option Int
  msl     : Nat                       -- max_spiral_loops

abbrev Cache := List (Node × (Int × Bool))      -- value, ghost bit

def lookup (c : Cache) (k : Node) : Option (Int × Bool) :=
  match c with
  | [] => none
  | (k', x) :: r => if k' = k then some x else lookup r k

structure St where
  cache : Cache
  stack : List Node
  inval : List Node

-- pure meaning: no cache, no stack, no spiral rule, fuel only (a self-dependent chain that
-- never reaches an input simply has no meaning: `none` for every fuel)
mutual
def den (sys : Sys) : Nat → Nat → Nat → Option Res
  | 0, _, _ => none
  | n+1, v, p =>
    match sys.input v p with
    | some x => some (.ok x)
    | none =>
      match sys.formula v p with
      | none => some (.ok 0)
      | some e => denE sys n e
def denE (sys : Sys) : Nat → Expr → Option Res
  | _, .const c => some (.ok c)
  | _, .fail => some (.error .fault)
  | n, .ref v p => den sys n v p
  | n, .add a b =>
    match denE sys n a with
    | none => none
    | some (.error e) => some (.error e)
    | some (.ok x) =>
      match denE sys n b with
      | none => none
      | some (.error e) => some (.error e)
      | some (.ok y) => some (.ok (x + y))
end

/-- frames marked by a spiral on variable `v`: from the top of the stack down to the
    `msl`-th earlier frame of the same variable (the current frame is marked by the caller) -/
def markSpiral (v : Nat) : Nat → List Node → List Node
  | _, [] => []
  | cnt, k :: r => if k.1 = v then (if cnt ≤ 1 then [k] else k :: markSpiral v (cnt - 1) r)
                   else k :: markSpiral v cnt r

mutual
def run (sys : Sys) : Nat → St → Nat → Nat → Option (Res × Bool × St)
  | 0, _, _, _ => none
  | n+1, s, v, p =>
    match lookup s.cache (v, p) with
    | some (x, g) =>
      -- F-C02a repair: reading an entry marked for deletion taints every frame
      let s' := if (v, p) ∈ s.inval then { s with inval := s.stack ++ s.inval } else s
      some (.ok x, g, s')
    | none =>
      match sys.input v p with
      | some x => some (.ok x, false, s)
      | none =>
        if (v, p) ∈ s.stack then some (.error .cycle, false, s)
        else if sys.msl ≤ (s.stack.filter (fun k => k.1 = v)).length then
          -- spiral: default substituted, not cached, frames marked
          some (.ok 0, true, { s with inval := (v, p) :: markSpiral v sys.msl s.stack ++ s.inval })
        else
        match sys.formula v p with
        | none => some (.ok 0, false, { s with cache := ((v, p), (0, false)) :: s.cache })
        | some e =>
          match runE sys n { s with stack := (v, p) :: s.stack } e with
          | none => none
          | some (.error er, g, s') => some (.error er, g, { s' with stack := s'.stack.tail })
          | some (.ok x, g, s') =>
            some (.ok x, g, { s' with cache := ((v, p), (x, g)) :: s'.cache, stack := s'.stack.tail })
def runE (sys : Sys) : Nat → St → Expr → Option (Res × Bool × St)
  | _, s, .const k => some (.ok k, false, s)
  | _, s, .fail => some (.error .fault, false, s)
  | n, s, .ref v p => run sys n s v p
  | n, s, .add a b =>
    match runE sys n s a with
    | none => none
    | some (.error e, g, s1) => some (.error e, g, s1)
    | some (.ok x, g1, s1) =>
      match runE sys n s1 b with
      | none => none
      | some (.error e, g2, s2) => some (.error e, g1 || g2, s2)
      | some (.ok y, g2, s2) => some (.ok (x + y), g1 || g2, s2)
end

-- fuel monotonicity of the meaning
mutual
theorem den_mono (sys : Sys) : ∀ n v p r, den sys n v p = some r → den sys (n+1) v p = some r
  | 0, _, _, _, h => by simp [den] at h
  | n+1, v, p, r, h => by
    unfold den at h ⊢
    split at h
    · exact h
    · split at h
      · exact h
      · exact denE_mono sys n _ r h
theorem denE_mono (sys : Sys) : ∀ n e r, denE sys n e = some r → denE sys (n+1) e = some r
  | _, .const c, r, h => by simpa [denE] using h
  | _, .fail, r, h => by simpa [denE] using h
  | n, .ref v p, r, h => by simp only [denE] at h ⊢; exact den_mono sys n v p r h
  | n, .add a b, r, h => by
    simp only [denE] at h ⊢
    split at h
    · cases h
    · rename_i e ha; rw [denE_mono sys n a _ ha]; exact h
    · rename_i x ha
      rw [denE_mono sys n a _ ha]
      simp only
      split at h
      · cases h
      · rename_i e hb; rw [denE_mono sys n b _ hb]; exact h
      · rename_i y hb; rw [denE_mono sys n b _ hb]; exact h
end

theorem denE_mono_le (sys : Sys) {n m e r} (h : denE sys n e = some r) (hle : n ≤ m) : denE sys m e = some r := by
  induction hle with
  | refl => exact h
  | step _ ih => exact denE_mono sys _ e r ih

/-- ghost-clean cache: untainted entries are the meaning -/
def GClean (sys : Sys) (c : Cache) : Prop :=
  ∀ k x, lookup c k = some (x, false) → ∃ n, den sys n k.1 k.2 = some (.ok x)

theorem gclean_insert (sys : Sys) {c : Cache} {v p x g}
    (hc : GClean sys c) (h : g = false → ∃ n, den sys n v p = some (.ok x)) :
    GClean sys (((v, p), (x, g)) :: c) := by
  intro k y hk
  simp only [lookup] at hk
  split at hk
  · rename_i heq
    cases heq
    simp only [Option.some.injEq, Prod.mk.injEq] at hk
    obtain ⟨rfl, rfl⟩ := hk
    exact h rfl
  · exact hc k y hk

mutual
theorem run_clean (sys : Sys) : ∀ n s v p r g s', GClean sys s.cache → run sys n s v p = some (r, g, s') →
    GClean sys s'.cache ∧ (g = false → ∀ x, r = .ok x → ∃ m, den sys m v p = some (.ok x))
  | 0, _, _, _, _, _, _, _, h => by simp [run] at h
  | n+1, s, v, p, r, g, s', hc, h => by
    unfold run at h
    split at h
    · -- cache hit: the ghost bit of the entry is returned
      rename_i x gx hx
      simp only [Option.some.injEq, Prod.mk.injEq] at h
      obtain ⟨rfl, rfl, rfl⟩ := h
      refine ⟨by split <;> exact hc, ?_⟩
      intro hg y hy
      cases hy
      subst hg
      exact hc (v, p) x hx
    · split at h
      · rename_i x hin
        simp only [Option.some.injEq, Prod.mk.injEq] at h
        obtain ⟨rfl, rfl, rfl⟩ := h
        refine ⟨hc, fun _ y hy => ?_⟩
        cases hy
        exact ⟨1, by simp [den, hin]⟩
      · rename_i hin
        split at h
        · -- cycle error
          simp only [Option.some.injEq, Prod.mk.injEq] at h
          obtain ⟨rfl, rfl, rfl⟩ := h
          exact ⟨hc, fun _ y hy => by cases hy⟩
        · split at h
          · -- spiral: tainted
            simp only [Option.some.injEq, Prod.mk.injEq] at h
            obtain ⟨rfl, rfl, rfl⟩ := h
            exact ⟨hc, fun hg => by cases hg⟩
          · split at h
            · rename_i hf
              simp only [Option.some.injEq, Prod.mk.injEq] at h
              obtain ⟨rfl, rfl, rfl⟩ := h
              refine ⟨gclean_insert sys hc (fun _ => ⟨1, by simp [den, hin, hf]⟩), fun _ y hy => ?_⟩
              cases hy
              exact ⟨1, by simp [den, hin, hf]⟩
            · rename_i e hf
              split at h
              · cases h
              · rename_i er g1 s1 hr
                have ih := runE_clean sys n { s with stack := (v, p) :: s.stack } e _ _ _ hc hr
                simp only [Option.some.injEq, Prod.mk.injEq] at h
                obtain ⟨rfl, rfl, rfl⟩ := h
                exact ⟨ih.1, fun _ y hy => by cases hy⟩
              · rename_i x g1 s1 hr
                have ih := runE_clean sys n { s with stack := (v, p) :: s.stack } e _ _ _ hc hr
                simp only [Option.some.injEq, Prod.mk.injEq] at h
                obtain ⟨rfl, rfl, rfl⟩ := h
                have key : g1 = false → ∃ m, den sys m v p = some (.ok x) := fun hg => by
                  obtain ⟨m, hm⟩ := ih.2 hg x rfl
                  exact ⟨m+1, by simp [den, hin, hf, hm]⟩
                refine ⟨gclean_insert sys ih.1 key, fun hg y hy => ?_⟩
                cases hy
                exact key hg
theorem runE_clean (sys : Sys) : ∀ n s e r g s', GClean sys s.cache → runE sys n s e = some (r, g, s') →
    GClean sys s'.cache ∧ (g = false → ∀ x, r = .ok x → ∃ m, denE sys m e = some (.ok x))
  | _, s, .const k, r, g, s', hc, h => by
    simp only [runE, Option.some.injEq, Prod.mk.injEq] at h
    obtain ⟨rfl, rfl, rfl⟩ := h
    exact ⟨hc, fun _ y hy => by cases hy; exact ⟨0, by simp [denE]⟩⟩
  | _, s, .fail, r, g, s', hc, h => by
    simp only [runE, Option.some.injEq, Prod.mk.injEq] at h
    obtain ⟨rfl, rfl, rfl⟩ := h
    exact ⟨hc, fun _ y hy => by cases hy⟩
  | n, s, .ref v p, r, g, s', hc, h => by
    simp only [runE] at h
    have := run_clean sys n s v p r g s' hc h
    exact ⟨this.1, fun hg y hy => by
      obtain ⟨m, hm⟩ := this.2 hg y hy
      exact ⟨m, by simp [denE, hm]⟩⟩
  | n, s, .add a b, r, g, s', hc, h => by
    simp only [runE] at h
    split at h
    · cases h
    · rename_i er g1 s1 ha
      have iha := runE_clean sys n s a _ _ _ hc ha
      simp only [Option.some.injEq, Prod.mk.injEq] at h
      obtain ⟨rfl, rfl, rfl⟩ := h
      exact ⟨iha.1, fun _ y hy => by cases hy⟩
    · rename_i x g1 s1 ha
      have iha := runE_clean sys n s a _ _ _ hc ha
      split at h
      · cases h
      · rename_i er g2 s2 hb
        have ihb := runE_clean sys n s1 b _ _ _ iha.1 hb
        simp only [Option.some.injEq, Prod.mk.injEq] at h
        obtain ⟨rfl, rfl, rfl⟩ := h
        exact ⟨ihb.1, fun _ y hy => by cases hy⟩
      · rename_i y g2 s2 hb
        have ihb := runE_clean sys n s1 b _ _ _ iha.1 hb
        simp only [Option.some.injEq, Prod.mk.injEq] at h
        obtain ⟨rfl, rfl, rfl⟩ := h
        refine ⟨ihb.1, fun hg z hz => ?_⟩
        cases hz
        have hg1 : g1 = false := by cases g1 <;> simp_all
        have hg2 : g2 = false := by cases g2 <;> simp_all
        obtain ⟨ma, hma⟩ := iha.2 hg1 x rfl
        obtain ⟨mb, hmb⟩ := ihb.2 hg2 y rfl
        refine ⟨max ma mb, ?_⟩
        simp only [denE]
        rw [denE_mono_le sys hma (Nat.le_max_left _ _), denE_mono_le sys hmb (Nat.le_max_right _ _)]
end

/-- purge at the end of a top-level request -/
def purge (s : St) : St :=
  { cache := s.cache.filter (fun e => !(s.inval.contains e.1)), stack := s.stack, inval := [] }

#print axioms run_clean
