-- Spike: proleptic Gregorian ordinal <-> civil, CPython `_ymd2ord` / `_ord2ymd` style
def isLeap (y : Int) : Bool := (y % 4 == 0 && y % 100 != 0) || y % 400 == 0

def dim (y m : Int) : Int :=
  if m = 2 then (if isLeap y then 29 else 28)
  else if m = 4 ∨ m = 6 ∨ m = 9 ∨ m = 11 then 30 else 31

/-- days before month m (1-based) in a year -/
def dbm (leap : Bool) (m : Int) : Int :=
  let base :=
    if m ≤ 1 then 0 else if m = 2 then 31 else if m = 3 then 59 else if m = 4 then 90
    else if m = 5 then 120 else if m = 6 then 151 else if m = 7 then 181 else if m = 8 then 212
    else if m = 9 then 243 else if m = 10 then 273 else if m = 11 then 304 else 334
  if leap && m > 2 then base + 1 else base

def dby (y : Int) : Int := 365*(y-1) + (y-1)/4 - (y-1)/100 + (y-1)/400

structure Date where
  y : Int
  m : Int
  d : Int
deriving DecidableEq, Repr

def Date.Valid (c : Date) : Prop := 1 ≤ c.y ∧ 1 ≤ c.m ∧ c.m ≤ 12 ∧ 1 ≤ c.d ∧ c.d ≤ dim c.y c.m

def ord (c : Date) : Int := dby c.y + dbm (isLeap c.y) c.m + c.d

/-- month and day from day-of-year index n (0-based) -/
def monthDay (leap : Bool) (n : Int) : Int × Int :=
  let f := if leap then 1 else 0
  if n < 31 then (1, n + 1)
  else if n < 59 + f then (2, n - 31 + 1)
  else if n < 90 + f then (3, n - (59 + f) + 1)
  else if n < 120 + f then (4, n - (90 + f) + 1)
  else if n < 151 + f then (5, n - (120 + f) + 1)
  else if n < 181 + f then (6, n - (151 + f) + 1)
  else if n < 212 + f then (7, n - (181 + f) + 1)
  else if n < 243 + f then (8, n - (212 + f) + 1)
  else if n < 273 + f then (9, n - (243 + f) + 1)
  else if n < 304 + f then (10, n - (273 + f) + 1)
  else if n < 334 + f then (11, n - (304 + f) + 1)
  else (12, n - (334 + f) + 1)

def ofOrd (o : Int) : Date :=
  let n := o - 1
  let n400 := n / 146097; let r1 := n % 146097
  let n100 := r1 / 36524; let r2 := r1 % 36524
  let n4 := r2 / 1461; let r3 := r2 % 1461
  let n1 := r3 / 365; let r4 := r3 % 365
  let y := 400*n400 + 100*n100 + 4*n4 + n1 + 1
  if n1 = 4 ∨ n100 = 4 then ⟨y - 1, 12, 31⟩
  else
    let md := monthDay (isLeap y) r4
    ⟨y, md.1, md.2⟩

#eval ofOrd (ord ⟨2024, 2, 29⟩)
#eval ord ⟨1, 1, 1⟩
#eval ofOrd 730120

theorem isLeap_iff (y : Int) : isLeap y = true ↔ (y % 4 = 0 ∧ y % 100 ≠ 0) ∨ y % 400 = 0 := by
  simp [isLeap]

theorem dby_succ (y : Int) : dby (y+1) = dby y + (if isLeap y then 366 else 365) := by
  unfold dby
  by_cases h : isLeap y = true
  · rw [if_pos h]; rw [isLeap_iff] at h; omega
  · rw [if_neg h]; rw [isLeap_iff] at h; omega

theorem monthDay_tbl : ∀ leap : Bool, ∀ n : Fin 366, (n.val : Int) < (if leap then 366 else 365) →
    1 ≤ (monthDay leap n.val).1 ∧ (monthDay leap n.val).1 ≤ 12 ∧ 1 ≤ (monthDay leap n.val).2 ∧
    (monthDay leap n.val).2 ≤ (if (monthDay leap n.val).1 = 2 then (if leap then 29 else 28)
        else if (monthDay leap n.val).1 = 4 ∨ (monthDay leap n.val).1 = 6 ∨ (monthDay leap n.val).1 = 9 ∨ (monthDay leap n.val).1 = 11 then 30 else 31) ∧
    dbm leap (monthDay leap n.val).1 + (monthDay leap n.val).2 = n.val + 1 := by
  decide +kernel

theorem monthDay_spec (leap : Bool) (n : Int) (h0 : 0 ≤ n) (h1 : n < (if leap then 366 else 365)) :
    1 ≤ (monthDay leap n).1 ∧ (monthDay leap n).1 ≤ 12 ∧ 1 ≤ (monthDay leap n).2 ∧
    dbm leap (monthDay leap n).1 + (monthDay leap n).2 = n + 1 := by
  have hn : n.toNat < 366 := by cases leap <;> simp at h1 <;> omega
  have := monthDay_tbl leap ⟨n.toNat, hn⟩ (by simp; cases leap <;> simp at h1 ⊢ <;> omega)
  have e : ((n.toNat : Nat) : Int) = n := by omega
  simp only [e] at this
  exact ⟨this.1, this.2.1, this.2.2.1, this.2.2.2.2⟩

theorem year_lin (n a b c d r : Int)
    (e : n = 146097*a + 36524*b + 1461*c + 365*d + r)
    (hb : 0 ≤ b ∧ b ≤ 3) (hc : 0 ≤ c ∧ c ≤ 24) (hd : 0 ≤ d ∧ d ≤ 3) :
    dby (400*a + 100*b + 4*c + d + 1) + r = n := by
  unfold dby; omega

theorem year_lin_end4 (n a b c : Int)
    (e : n = 146097*a + 36524*b + 1461*c + 1460)
    (hb : 0 ≤ b ∧ b ≤ 3) (hc : 0 ≤ c ∧ c ≤ 23) :
    dby (400*a + 100*b + 4*c + 4 + 1) = n + 1 := by
  unfold dby; omega

theorem year_lin_end400 (n a : Int) (e : n = 146097*a + 146096) :
    dby (400*a + 400 + 1) = n + 1 := by
  unfold dby; omega

theorem ofOrd_year (o : Int) (h : 1 ≤ o) :
    let n := o - 1
    let r1 := n % 146097; let r2 := r1 % 36524; let r3 := r2 % 1461
    let n400 := n / 146097; let n100 := r1 / 36524; let n4 := r2 / 1461; let n1 := r3 / 365; let r4 := r3 % 365
    (n1 ≠ 4 → n100 ≠ 4 → dby (400*n400 + 100*n100 + 4*n4 + n1 + 1) + r4 = n ∧ 0 ≤ r4 ∧ r4 < 365) ∧
    ((n1 = 4 ∨ n100 = 4) → dby (400*n400 + 100*n100 + 4*n4 + n1 + 1) = o) := by
  intro n r1 r2 r3 n400 n100 n4 n1 r4
  constructor
  · intro h1 h100
    refine ⟨year_lin n n400 n100 n4 n1 r4 (by omega) (by omega) (by omega) (by omega), by omega, by omega⟩
  · intro h4
    by_cases h100 : n100 = 4
    · have hr2 : r2 = 0 := by omega
      have : n4 = 0 ∧ n1 = 0 := by omega
      have := year_lin_end400 n n400 (by omega)
      have e : 400*n400 + 100*n100 + 4*n4 + n1 + 1 = 400*n400 + 400 + 1 := by omega
      rw [e]; omega
    · have h1 : n1 = 4 := by omega
      have := year_lin_end4 n n400 n100 n4 (by omega) (by omega) (by omega)
      have e : 400*n400 + 100*n100 + 4*n4 + n1 + 1 = 400*n400 + 100*n100 + 4*n4 + 4 + 1 := by omega
      rw [e]; omega
