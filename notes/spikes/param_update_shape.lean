-- Spike: Parameter.update model + pointwise theorem (C06)
structure Entry (V : Type) where
  date : Int
  val  : Option V
deriving Repr

variable {V : Type}

def get (l : List (Entry V)) (d : Int) : Option V :=
  match l with
  | [] => none
  | e :: r => if e.date ≤ d then e.val else get r d

/-- strictly decreasing dates -/
def Sorted : List (Entry V) → Prop
  | [] => True
  | [_] => True
  | a :: b :: r => b.date < a.date ∧ Sorted (b :: r)

/-- `update` with a closed range [a, b]; `s = b+1` is the first day after. Mirrors the 5 phases. -/
def future (l : List (Entry V)) (s : Int) : List (Entry V) := l.takeWhile (fun e => decide (s ≤ e.date))
def rest   (l : List (Entry V)) (s : Int) : List (Entry V) := l.dropWhile (fun e => decide (s ≤ e.date))

def reopen (fut rst : List (Entry V)) (s : Int) : List (Entry V) :=
  match fut.getLast? with
  | some e => if e.date = s then [] else
      match rst with
      | r :: _ => [⟨s, r.val⟩]
      | [] => [⟨s, none⟩]
  | none =>
      match rst with
      | r :: _ => [⟨s, r.val⟩]
      | [] => [⟨s, none⟩]

def update (l : List (Entry V)) (a b : Int) (v : Option V) : List (Entry V) :=
  let s := b + 1
  let fut := future l s
  let rst := rest l s
  fut ++ reopen fut rst s ++ [⟨a, v⟩] ++ rest rst a

-- helper facts
theorem get_append_of_all_gt (l₁ l₂ : List (Entry V)) (d : Int) (h : ∀ e ∈ l₁, d < e.date) :
    get (l₁ ++ l₂) d = get l₂ d := by
  induction l₁ with
  | nil => rfl
  | cons e r ih =>
    have he := h e (by simp)
    simp only [List.cons_append, get]
    rw [if_neg (by omega)]
    exact ih (fun x hx => h x (by simp [hx]))

theorem sorted_tail {a : Entry V} {r : List (Entry V)} (h : Sorted (a :: r)) : Sorted r := by
  cases r with
  | nil => trivial
  | cons b r => exact h.2

theorem sorted_lt {a : Entry V} {r : List (Entry V)} (h : Sorted (a :: r)) : ∀ e ∈ r, e.date < a.date := by
  induction r generalizing a with
  | nil => intro e he; cases he
  | cons b r ih =>
    intro e he
    rcases List.mem_cons.mp he with rfl | he'
    · exact h.1
    · have := ih h.2 e he'; have := h.1; omega

theorem get_of_all_gt (l : List (Entry V)) (d : Int) (h : ∀ e ∈ l, d < e.date) : get l d = none := by
  have := get_append_of_all_gt l [] d h
  simpa [get] using this

#eval (update [⟨10, some 1⟩, ⟨5, some 2⟩, ⟨0, some 3⟩] 4 7 (some 9)).map (fun e => (e.date, e.val))
