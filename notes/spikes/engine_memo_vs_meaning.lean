-- Spike: memoised evaluation agrees with cache-less meaning (shape of C01_calculate_eq_den)
inductive Expr where
  | const (c : Int)
  | ref (v p : Nat)
  | add (a b : Expr)

structure Sys where
  formula : Nat → Nat → Option Expr
  input   : Nat → Nat → Option Int

abbrev Node := Nat × Nat
abbrev Cache := List (Node × Int)

def lookup (c : Cache) (k : Node) : Option Int :=
  match c with
  | [] => none
  | (k', x) :: r => if k' = k then some x else lookup r k

-- meaning: cache-less, fuel-bounded
mutual
def den (sys : Sys) : Nat → Nat → Nat → Option Int
  | 0, _, _ => none
  | n+1, v, p =>
    match sys.input v p with
    | some x => some x
    | none =>
      match sys.formula v p with
      | none => some 0
      | some e => denE sys n e
def denE (sys : Sys) : Nat → Expr → Option Int
  | _, .const c => some c
  | n, .ref v p => den sys n v p
  | n, .add a b =>
    match denE sys n a, denE sys n b with
    | some x, some y => some (x + y)
    | _, _ => none
end

-- machine: memoised
mutual
def run (sys : Sys) : Nat → Cache → Nat → Nat → Option (Int × Cache)
  | 0, _, _, _ => none
  | n+1, c, v, p =>
    match lookup c (v, p) with
    | some x => some (x, c)
    | none =>
      match sys.input v p with
      | some x => some (x, c)
      | none =>
        match sys.formula v p with
        | none => some (0, ((v, p), 0) :: c)
        | some e =>
          match runE sys n c e with
          | some (x, c') => some (x, ((v, p), x) :: c')
          | none => none
def runE (sys : Sys) : Nat → Cache → Expr → Option (Int × Cache)
  | _, c, .const k => some (k, c)
  | n, c, .ref v p => run sys n c v p
  | n, c, .add a b =>
    match runE sys n c a with
    | some (x, c1) =>
      match runE sys n c1 b with
      | some (y, c2) => some (x + y, c2)
      | none => none
    | none => none
end

-- fuel monotonicity of the meaning
mutual
theorem den_mono (sys : Sys) : ∀ n v p x, den sys n v p = some x → den sys (n+1) v p = some x
  | 0, _, _, _, h => by simp [den] at h
  | n+1, v, p, x, h => by
    unfold den at h ⊢
    split at h
    · simpa using h
    · split at h
      · simpa using h
      · rename_i e he
        exact denE_mono sys n e x h
theorem denE_mono (sys : Sys) : ∀ n e x, denE sys n e = some x → denE sys (n+1) e = some x
  | _, .const c, x, h => by simpa [denE] using h
  | n, .ref v p, x, h => by
    simp only [denE] at h ⊢
    exact den_mono sys n v p x h
  | n, .add a b, x, h => by
    simp only [denE] at h ⊢
    split at h
    · rename_i xa xb ha hb
      rw [denE_mono sys n a xa ha, denE_mono sys n b xb hb]; simpa using h
    · simp at h
end

theorem den_mono_le (sys : Sys) {n m v p x} (h : den sys n v p = some x) (hle : n ≤ m) : den sys m v p = some x := by
  induction hle with
  | refl => exact h
  | step _ ih => exact den_mono sys _ v p x ih

/-- every cached value is the meaning (for some fuel) -/
def Cons (sys : Sys) (c : Cache) : Prop := ∀ k x, lookup c k = some x → ∃ n, den sys n k.1 k.2 = some x

theorem den_det (sys : Sys) {n m v p x y} (h1 : den sys n v p = some x) (h2 : den sys m v p = some y) : x = y := by
  have a := den_mono_le sys h1 (Nat.le_max_left n m)
  have b := den_mono_le sys h2 (Nat.le_max_right n m)
  rw [a] at b; exact Option.some.inj b

theorem cons_insert (sys : Sys) {c : Cache} {v p x n} (hc : Cons sys c) (h : den sys n v p = some x) : Cons sys (((v,p),x) :: c) := by
  intro k y hk
  simp only [lookup] at hk
  split at hk
  · rename_i heq; cases heq; cases hk; exact ⟨n, h⟩
  · exact hc k y hk

mutual
theorem run_eq_den (sys : Sys) : ∀ n c v p x, Cons sys c → den sys n v p = some x →
    ∃ c', run sys n c v p = some (x, c') ∧ Cons sys c'
  | 0, _, _, _, _, _, h => by simp [den] at h
  | n+1, c, v, p, x, hc, h => by
    unfold run
    split
    · rename_i y hy
      obtain ⟨m, hm⟩ := hc (v,p) y hy
      have := den_det sys hm h
      subst this
      exact ⟨c, rfl, hc⟩
    · unfold den at h
      split at h
      · rename_i y hy
        try rw [hy]
        cases h
        exact ⟨c, rfl, hc⟩
      · rename_i hin
        try rw [hin]
        split at h
        · rename_i hf
          try rw [hf]
          cases h
          refine ⟨_, rfl, cons_insert sys hc (n := 1) ?_⟩
          simp [den, hin, hf]
        · rename_i e hf
          try rw [hf]
          obtain ⟨c', hr, hc'⟩ := runE_eq_den sys n c e x hc h
          simp only [hr]
          refine ⟨_, rfl, cons_insert sys hc' (n := n+1) ?_⟩
          simp [den, hin, hf, h]
theorem runE_eq_den (sys : Sys) : ∀ n c e x, Cons sys c → denE sys n e = some x →
    ∃ c', runE sys n c e = some (x, c') ∧ Cons sys c'
  | _, c, .const k, x, hc, h => by
    simp only [denE] at h; cases h; exact ⟨c, by simp [runE], hc⟩
  | n, c, .ref v p, x, hc, h => by
    simp only [denE] at h
    simpa [runE] using run_eq_den sys n c v p x hc h
  | n, c, .add a b, x, hc, h => by
    simp only [denE] at h
    split at h
    · rename_i xa xb ha hb
      obtain ⟨c1, h1, hc1⟩ := runE_eq_den sys n c a xa hc ha
      obtain ⟨c2, h2, hc2⟩ := runE_eq_den sys n c1 b xb hc1 hb
      refine ⟨c2, ?_, hc2⟩
      simp only [runE, h1, h2]; cases h; rfl
    · simp at h
end

#print axioms run_eq_den
