-- Spike: fixed-width date text, char-level print/parse round trip (shape of C05 lexer lemmas)
def dg (k : Nat) : Char := Char.ofNat (48 + k)
def rd (c : Char) : Option Nat := if 48 ≤ c.toNat ∧ c.toNat ≤ 57 then some (c.toNat - 48) else none

theorem rd_dg (k : Nat) (h : k < 10) : rd (dg k) = some k := by
  have : ∀ k : Fin 10, rd (dg k.val) = some k.val := by decide
  exact this ⟨k, h⟩

theorem dg_ne_dash (k : Nat) (h : k < 10) : dg k ≠ '-' := by
  have : ∀ k : Fin 10, dg k.val ≠ '-' := by decide
  exact this ⟨k, h⟩

def d2 (n : Nat) : List Char := [dg (n / 10), dg (n % 10)]
def d4 (n : Nat) : List Char := [dg (n / 1000), dg (n / 100 % 10), dg (n / 10 % 10), dg (n % 10)]

def printYMD (y m d : Nat) : List Char := d4 y ++ '-' :: d2 m ++ '-' :: d2 d

def parseYMD : List Char → Option (Nat × Nat × Nat)
  | [a, b, c, d, '-', e, f, '-', g, h] => do
      let a ← rd a; let b ← rd b; let c ← rd c; let d ← rd d
      let e ← rd e; let f ← rd f; let g ← rd g; let h ← rd h
      some (1000*a + 100*b + 10*c + d, 10*e + f, 10*g + h)
  | _ => none

theorem parse_print (y m d : Nat) (hy : y < 10000) (hm : m < 100) (hd : d < 100) :
    parseYMD (printYMD y m d) = some (y, m, d) := by
  simp only [printYMD, d4, d2, List.cons_append, List.nil_append, parseYMD]
  rw [rd_dg _ (by omega), rd_dg _ (by omega), rd_dg _ (by omega), rd_dg _ (by omega),
      rd_dg _ (by omega), rd_dg _ (by omega), rd_dg _ (by omega), rd_dg _ (by omega)]
  simp only [Option.bind_eq_bind, Option.bind_some, Option.some.injEq, Prod.mk.injEq]
  omega

#print axioms parse_print
