import warnings; warnings.simplefilter("ignore")
import datetime as dt, random, collections, calendar
from openfisca_core import periods
from openfisca_core.periods import Period, Instant, DateUnit as U
random.seed(11)
bad=collections.Counter(); ex={}
def flag(k,*i):
    bad[k]+=1; ex.setdefault(k,i)
def O(i): return dt.date(*i).toordinal()
seen={}
N=0
for it in range(60000):
    u=random.choice([U.YEAR,U.MONTH,U.DAY,U.WEEK,U.WEEKDAY])
    y=random.choice([1000,1001,1999,2000,2004,2015,2016,2020,2021,2026,9000,9990]+[random.randint(1000,9990)]*6)
    m=random.randint(1,12); d=random.randint(1,calendar.monthrange(y,m)[1])
    if u in (U.YEAR,U.MONTH): d=1
    if u==U.YEAR and random.random()<0.5: m=1
    if u==U.WEEK:
        x=dt.date(y,m,d); x-=dt.timedelta(days=x.weekday())
        if x.year<1000: continue
        y,m,d=x.year,x.month,x.day
    n=random.choice([1,1,2,3,7,12,24,52,53,100,365,500])
    p=Period((u,Instant((y,m,d)),n)); N+=1
    try:
        s=str(p); q=periods.period(s); s2=str(q)
        if s2!=s: flag("reprint",p,s,q,s2)
        same_days = (O(q.start)==O(p.start) and q.stop==p.stop)
        if not same_days: flag("days",p,s,q)
        if q.unit!=p.unit and not (p.unit==U.MONTH and p.size==12 and q.unit==U.YEAR and q.size==1): flag("unit",p,s,q)
        key=(u,s)
        if key in seen and seen[key]!=p: flag("collision",p,seen[key],s)
        seen[key]=p
    except Exception as e: flag("exc:"+type(e).__name__,p,str(e)[:60])
    i=Instant((y,m,d))
    if periods.instant(str(i))!=i: flag("instant",i)
print("N",N,dict(bad))
for k,v in ex.items(): print(k,v)
