import warnings; warnings.simplefilter("ignore")
import random, collections, sys, os, json, copy, logging
logging.disable(logging.CRITICAL)
import numpy as np, openfisca_core
from openfisca_country_template import CountryTaxBenefitSystem
from openfisca_core.simulations import SimulationBuilder
from openfisca_core import indexed_enums
from openfisca_web_api.app import create_app
random.seed(int(sys.argv[1]) if len(sys.argv)>1 else 1)
bad=collections.Counter(); ex={}
def flag(k,*i): bad[k]+=1; ex.setdefault(k,i)
tbs=CountryTaxBenefitSystem()
app=create_app(tbs).test_client()
byent={}
for n,v in tbs.variables.items(): byent.setdefault(v.entity.key,[]).append(n)
def per_for(v):
    dp=tbs.get_variable(v).definition_period
    return {"month":["2018-01","2017-12","month:2018-02"],"year":["2018","2017"],"eternity":["ETERNITY","2018-01"],"day":["2018-01-01"]}[dp.value if hasattr(dp,"value") else dp]
INPUTS={"salary":lambda:random.randint(0,8)*500,"age":lambda:random.randint(0,80),"birth":lambda:f"19{random.randint(30,99)}-0{random.randint(1,9)}-1{random.randint(0,9)}","capital_returns":lambda:random.randint(0,9)*100,
        "rent":lambda:random.randint(0,9)*100,"accommodation_size":lambda:random.randint(10,200),"housing_occupancy_status":lambda:random.choice(["owner","tenant","free_lodger","homeless"]),"postal_code":lambda:random.choice(["75001","1234","abc"])}
def render(v,val):
    var=tbs.get_variable(v)
    return val
def engine_value(doc_inputs, ent_plural, eid, v, p):
    sim=SimulationBuilder().build_from_entities(tbs, doc_inputs)
    r=sim.calculate(v,p); pop=sim.get_population(ent_plural); i=pop.get_index(eid)
    var=tbs.get_variable(v)
    if isinstance(r, indexed_enums.EnumArray): return r.decode()[i].name
    x=r[i]
    if var.value_type is float: return float(np.float32(x))
    if var.value_type is int: return int(x)
    if var.value_type is bool: return bool(x)
    if var.value_type is str: return x.decode() if isinstance(x,bytes) else str(x)
    return str(x)  # date -> ISO
docs=[]
for it in range(120):
    pids=[f"p{i}" for i in range(random.randint(1,4))]; 
    hs={}; 
    for pid in pids:
        h=hs.setdefault(random.choice(["h1","h2"]),{"adults":[]}); h["adults"].append(pid)
    doc={"persons":{pid:{} for pid in pids},"households":hs}
    slots=[]
    for pid in pids:
        for v in random.sample(byent["person"],3):
            for p in random.sample(per_for(v),1):
                if v in INPUTS and random.random()<0.5: doc["persons"][pid].setdefault(v,{})[p]=INPUTS[v]()
                else: doc["persons"][pid].setdefault(v,{})[p]=None; slots.append(("persons",pid,v,p))
    for hid in hs:
        for v in random.sample(byent["household"],3):
            for p in random.sample(per_for(v),1):
                if v in INPUTS and random.random()<0.5: hs[hid].setdefault(v,{})[p]=INPUTS[v]()
                else: hs[hid].setdefault(v,{})[p]=None; slots.append(("households",hid,v,p))
    docs.append((doc,slots))
def post(doc): 
    r=app.post("/calculate",data=json.dumps(doc),content_type="application/json"); return r.status_code, r.get_json()
first={}
for idx,(doc,slots) in enumerate(docs):
    code,out=post(doc); first[idx]=(code,out)
    if code!=200:
        # engine must also fail
        try:
            sim=SimulationBuilder().build_from_entities(tbs, copy.deepcopy(doc))
            for (e,i,v,p) in slots: sim.calculate(v,p)
            flag("api-error-engine-ok", code, out, doc)
        except Exception: pass
        continue
    # inputs unchanged, nothing added
    def walk(a,b,path=()):
        if isinstance(a,dict):
            if set(a)!=set(b): flag("keys",path,set(a)^set(b)); return
            for k in a: walk(a[k],b[k],path+(k,))
        elif a is not None and a!=b: flag("input-changed",path,a,b)
    walk(doc,out)
    for (e,i,v,p) in slots:
        got=out[e][i][v][p]
        try: exp=engine_value(copy.deepcopy(doc),e,i,v,p)
        except Exception as ex_: flag("engine-exc",type(ex_).__name__); continue
        vt=tbs.get_variable(v).value_type.__name__
        if got!=exp: flag(f"value-{vt}", v,p,got,exp)
# order independence: replay in shuffled order on same app
order=list(range(len(docs))); random.shuffle(order)
for idx in order:
    if post(docs[idx][0])!=first[idx]: flag("history-dependent", idx)
print(os.path.dirname(openfisca_core.__file__), dict(bad))
for k,v in ex.items(): print(k, str(v)[:500])
