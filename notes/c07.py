import warnings; warnings.simplefilter("ignore")
import random, collections, sys, os, tempfile, yaml
import numpy as np, openfisca_core
from openfisca_core import entities, taxbenefitsystems, reforms, periods
from openfisca_core.parameters import ParameterNode
random.seed(int(sys.argv[1]) if len(sys.argv)>1 else 1)
bad=collections.Counter(); ex={}
def flag(k,*i): bad[k]+=1; ex.setdefault(k,i)
person=entities.Entity("person","persons","","")
NAMES=["a","b","c"]
DATES=["2014-06-01","2015-01-01","2015-06-15","2016-01-01","2017-03-01","2018-01-01"]
def rnd_tree():
    return {"g":{n:{"values":{d:{"value":random.randint(1,99)} for d in random.sample(DATES[1:4],random.randint(1,3))}} for n in NAMES}}
def write_dir(data):
    d=tempfile.mkdtemp(); os.mkdir(d+"/g")
    for n,v in data["g"].items(): open(f"{d}/g/{n}.yaml","w").write(yaml.safe_dump(v))
    return d
def check(tbs,tag):
    for d in random.sample(DATES,3):
        view=tbs.get_parameters_at_instant(d)
        for n in NAMES:
            tree=getattr(tbs.parameters.g,n)(d)
            v=getattr(view.g,n) if n in view.g._children else None
            if v!=tree: flag("stale:"+tag,d,n,v,tree)
        keys=np.array(random.choices(NAMES,k=4))
        try:
            got=view.g[keys].tolist(); exp=[getattr(tbs.parameters.g,k)(d) for k in keys]
            if got!=exp: flag("fancy:"+tag,d,list(keys),got,exp)
        except Exception as e:
            if all(getattr(tbs.parameters.g,k)(d) is not None for k in NAMES): flag("fancy-exc:"+tag,type(e).__name__)
for it in range(200):
    tbs=taxbenefitsystems.TaxBenefitSystem([person]); tbs.load_parameters(write_dir(rnd_tree()))
    cur=tbs; chain=[tbs]
    for step in range(random.randint(3,8)):
        op=random.choice(["read","read","reload","reform","reform-readfirst"])
        if op=="read": check(cur,"read")
        elif op=="reload":
            check(cur,"pre-reload"); cur.load_parameters(write_dir(rnd_tree())); check(cur,"post-reload")
        else:
            n=random.choice(NAMES); a=random.choice(DATES[1:]); val=random.randint(100,199)
            readfirst=(op=="reform-readfirst")
            class R(reforms.Reform):
                def apply(self):
                    if readfirst: check(self,"in-apply-before")
                    def mod(p): getattr(p.g,n).update(start=periods.instant(a), value=val); return p
                    self.modify_parameters(mod)
                    check(self,"in-apply-after")
            before={(d,m):getattr(cur.parameters.g,m)(d) for d in DATES for m in NAMES}
            new=R(cur)
            after={(d,m):getattr(cur.parameters.g,m)(d) for d in DATES for m in NAMES}
            if before!=after: flag("baseline-params-changed")
            check(cur,"baseline-after-reform"); check(new,"reform")
            for d in DATES:
                e=val if d>=a else before[(d,n)]
                if getattr(new.parameters.g,n)(d)!=e: flag("reform-value",d,a)
            chain.append(new); cur=random.choice(chain)
print(os.path.dirname(openfisca_core.__file__), dict(bad))
for k,v in ex.items(): print(k, str(v)[:300])
