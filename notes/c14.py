import warnings; warnings.simplefilter("ignore")
import random, collections, sys, os
import numpy as np, openfisca_core
from openfisca_country_template import CountryTaxBenefitSystem
from openfisca_core import reforms, variables, periods
from openfisca_core.simulations import SimulationBuilder
random.seed(int(sys.argv[1]) if len(sys.argv)>1 else 1)
bad=collections.Counter(); ex={}
def flag(k,*i): bad[k]+=1; ex.setdefault(k,i)
sit={"persons":{"a":{"salary":{"2018-01":3000},"birth":{"ETERNITY":"1980-01-01"}},"b":{"salary":{"2018-01":500}}}, "households":{"h":{"adults":["a","b"],"rent":{"2018-01":400}}}}
OUT=[("income_tax","2018-01"),("disposable_income","2018-01"),("basic_income","2018-01"),("housing_allowance","2018-01"),("salary","2018-01"),("total_taxes","2018-01"),("age","2018-01")]
def snapshot(t):
    sim=SimulationBuilder().build_from_entities(t,sit); out={}
    for v,p in OUT:
        try: out[(v,p)]=sim.calculate(v,p).tolist()
        except Exception as e: out[(v,p)]="ERR:"+type(e).__name__
    out["vars"]=sorted(t.variables)
    out["via-entity"]={v:(t.person_entity.get_variable(v) is t.get_variable(v)) for v in ["salary","income_tax","age"]}
    out["neutral"]={v:t.get_variable(v).is_neutralized for v in ["salary","income_tax","basic_income"]}
    out["params"]=(t.parameters.taxes.income_tax_rate("2018-01-01"), t.parameters.benefits.basic_income("2018-01-01"), t.get_parameters_at_instant("2018-01-01").taxes.income_tax_rate)
    out["formulas"]={v:list(t.get_variable(v).formulas) for v in ["income_tax","basic_income"]}
    return out
def modify(t, k):
    op=random.choice(["neutralize","replace","update","add","param","annualize"])
    if op=="neutralize": t.neutralize_variable(random.choice(["salary","income_tax","basic_income","age"]))
    elif op=="replace":
        class salary(variables.Variable):
            value_type=float; entity=t.person_entity; definition_period=periods.MONTH
            def formula(p, period): return p.filled_array(77.)
        t.replace_variable(salary)
    elif op=="update":
        class income_tax(variables.Variable):
            def formula_2018(p, period, parameters): return p("salary", period)*0.5
        t.update_variable(income_tax)
    elif op=="add":
        nm=f"newvar{k}"
        t.add_variable(type(nm,(variables.Variable,),dict(value_type=float, entity=t.person_entity, definition_period=periods.MONTH)))
    elif op=="param": t.parameters.taxes.income_tax_rate.update(period="year:2018:3", value=random.choice([0.3,0.6]))
    else: t.annualize_variable("basic_income")
    return op
for it in range(120):
    base=CountryTaxBenefitSystem(); s0=snapshot(base); cur=base; hist=[]
    derived=[]
    for k in range(random.randint(1,5)):
        how=random.choice(["clone","reform"])
        src=random.choice([base]+derived)
        if how=="clone":
            d=src.clone(); ops=[modify(d,f"{it}_{k}_{j}") for j in range(random.randint(1,3))]
        else:
            ops=[]
            class R(reforms.Reform):
                def apply(self):
                    for j in range(random.randint(1,3)):
                        o=random.choice(["neutralize","update","add","paramfn"])
                        if o=="paramfn":
                            def mod(p): p.benefits.basic_income.update(period="year:2018:3", value=1.0); return p
                            self.modify_parameters(mod)
                        elif o=="neutralize": self.neutralize_variable(random.choice(["salary","income_tax"]))
                        elif o=="update":
                            class income_tax(variables.Variable):
                                def formula_2018(p, period, parameters): return p("salary", period)*0.5
                            self.update_variable(income_tax)
                        else: self.add_variable(type(f"rv{it}_{k}_{j}",(variables.Variable,),dict(value_type=float, entity=self.person_entity, definition_period=periods.MONTH)))
                        ops.append(o)
            try: d=R(src)
            except Exception as e: flag("reform-exc:"+type(e).__name__, ops, str(e)[:80]); continue
        hist.append((how,"base" if src is base else "derived",ops)); derived.append(d)
        srcsnap_after=snapshot(base)
        if srcsnap_after!=s0: flag("base-changed",hist,{k2:(s0[k2],srcsnap_after[k2]) for k2 in s0 if s0[k2]!=srcsnap_after[k2]}); break
print(os.path.dirname(openfisca_core.__file__), dict(bad))
for k,v in ex.items(): print(k, str(v)[:500])
