import warnings; warnings.simplefilter("ignore")
import datetime as dt, random, collections
from openfisca_core import periods
from openfisca_core.periods import Period, Instant, DateUnit as U
random.seed(7)
def O(i): return dt.date(*i).toordinal()
def addm(d, n):
    y, m = divmod(d.year*12 + d.month-1 + n, 12); m += 1
    import calendar
    return dt.date(y, m, min(d.day, calendar.monthrange(y,m)[1]))
def end_ord(p):
    u, s, n = p; d = dt.date(*s)
    if u==U.YEAR: e = addm(d, 12*n)
    elif u==U.MONTH: e = addm(d, n)
    elif u==U.WEEK: e = d+dt.timedelta(days=7*n)
    else: e = d+dt.timedelta(days=n)
    return e.toordinal()-1
bad = collections.Counter(); ex={}
def flag(k, *info):
    bad[k]+=1
    if k not in ex: ex[k]=info
units=[U.YEAR,U.MONTH,U.DAY,U.WEEK,U.WEEKDAY]
fam = {U.YEAR:"c",U.MONTH:"c",U.DAY:"c",U.WEEK:"w",U.WEEKDAY:"w"}
def rand_date():
    r=random.random()
    if r<0.5:
        y=random.choice([1999,2000,2001,2004,2015,2016,2020,2021,2100,1900,2400]); m=random.randint(1,12)
        import calendar
        d=random.choice([1,2,27,28,29,30,31]); d=min(d,calendar.monthrange(y,m)[1]); return (y,m,d)
    return tuple((dt.date(1,1,1)+dt.timedelta(days=random.randint(400, 3_600_000))).timetuple()[:3])
N=0
for it in range(40000):
    u=random.choice(units); s=rand_date(); n=random.choice([1,1,1,2,3,5,12,13,24,36,52,53,100])
    if s[0]+ (n if u==U.YEAR else n//12+1) > 9990: continue
    p=Period((u,Instant(s),n)); N+=1
    lo=O(s); hi=end_ord(p)
    try:
        if O(p.stop)!=hi: flag("stop",p,p.stop)
        if p.days!=hi-lo+1: flag("days",p,p.days)
        if u in (U.YEAR,U.MONTH,U.DAY,U.WEEK,U.WEEKDAY) and p.size_in_days!=hi-lo+1: flag("size_in_days",p,p.size_in_days,hi-lo+1)
        if u==U.YEAR and p.size_in_months!=12*n: flag("sim",p)
        if u==U.WEEK and p.size_in_weekdays!=7*n: flag("siw",p)
    except Exception as e: flag("exc-basic:"+type(e).__name__, p, str(e)[:50])
    # aligned subperiods
    aligned = (u in (U.YEAR,U.MONTH) and s[2]==1 and (u==U.MONTH or True)) or (u==U.WEEK and dt.date(*s).weekday()==0) or u in (U.DAY,U.WEEKDAY)
    for tu in units:
        if fam[tu]!=fam[u]: continue
        if periods.unit_weight(tu)>periods.unit_weight(u): continue
        al = aligned and not (tu==U.YEAR and (s[1]!=1 or s[2]!=1)) and not (tu==U.MONTH and s[2]!=1)
        if not al or n>36: continue
        try:
            subs=p.get_subperiods(tu)
            cur=lo
            for q in subs:
                if q.unit!=tu or q.size!=1: flag("sub-unit",p,tu,q)
                if O(q.start)!=cur: flag("sub-gap",p,tu,q); break
                cur=O(q.stop)+1
            if cur!=hi+1: flag("sub-cover",p,tu,len(subs),cur,hi+1)
        except Exception as e: flag("exc-sub:"+type(e).__name__, p, tu, str(e)[:50])
    # offset roundtrip
    for ou in [u, U.DAY, U.MONTH, U.YEAR, U.WEEK]:
        k=random.choice([1,2,3,11,12,13,-1,-5,-12,40])
        try:
            q=p.offset(k,ou); r=q.offset(-k,ou)
            clip = ou in (U.MONTH,U.YEAR) and s[2]>28
            if r!=p and not clip: flag("offset-rt",p,k,ou,q,r)
        except Exception as e:
            if "year" in str(e) and "range" in str(e): continue
            flag("exc-off:"+type(e).__name__, p,k,ou,str(e)[:50])
    # contains / intersection vs day sets
    u2=random.choice(units); s2=tuple((dt.date(*s)+dt.timedelta(days=random.randint(-400,400))).timetuple()[:3]) if s[0]>2 else s
    n2=random.choice([1,2,3,12,30,400])
    p2=Period((u2,Instant(s2),n2))
    try:
        lo2=O(s2); hi2=end_ord(p2)
        if p.contains(p2)!=(lo<=lo2 and hi2<=hi): flag("contains",p,p2)
        a=Instant(s2); b=Instant(tuple(dt.date.fromordinal(hi2).timetuple()[:3]))
        for (aa,bb) in [(a,b),(None,b),(a,None)]:
            r=p.intersection(aa,bb)
            L=max(lo, lo2 if aa else lo); H=min(hi, hi2 if bb else hi)
            if L>H:
                if r is not None: flag("inter-nonempty",p,aa,bb,r)
            else:
                if r is None: flag("inter-none",p,aa,bb)
                elif O(r.start)!=L or O(r.stop)!=H: flag("inter-days",p,aa,bb,r,L,H)
    except Exception as e: flag("exc-ci:"+type(e).__name__, p,p2,str(e)[:50])
    # named
    try:
        ty=p.this_year; 
        if ty!=Period((U.YEAR,Instant((s[0],1,1)),1)): flag("this_year",p,ty)
        fm=p.first_month
        if fm!=Period((U.MONTH,Instant((s[0],s[1],1)),1)): flag("first_month",p,fm)
        lm=p.last_month; e=addm(dt.date(s[0],s[1],1),-1)
        if lm!=Period((U.MONTH,Instant((e.year,e.month,1)),1)): flag("last_month",p,lm)
        fw=p.first_week; mon=dt.date(*s)-dt.timedelta(days=dt.date(*s).weekday())
        if fw!=Period((U.WEEK,Instant((mon.year,mon.month,mon.day)),1)): flag("first_week",p,fw)
        if p.last_year!=Period((U.YEAR,Instant((s[0]-1,1,1)),1)): flag("last_year",p)
        if p.n_2!=Period((U.YEAR,Instant((s[0]-2,1,1)),1)): flag("n_2",p)
        l3=p.last_3_months; e=addm(dt.date(s[0],s[1],1),-3)
        if l3!=Period((U.MONTH,Instant((e.year,e.month,1)),3)): flag("l3m",p,l3)
    except Exception as e:
        if s[0]>3: flag("exc-named:"+type(e).__name__,p,str(e)[:50])
print("N",N,"bad",dict(bad))
for k,v in ex.items(): print(k, v)
