import warnings; warnings.simplefilter("ignore")
import random, collections, sys, os, enum as pyenum
import numpy as np, openfisca_core
from openfisca_core import indexed_enums as ie
random.seed(1)
bad=collections.Counter(); ex={}
def flag(k,*i): bad[k]+=1; ex.setdefault(k,i)
def mkenum(name,n):
    names=[f"m{j}" for j in range(n)]; random.shuffle(names)
    return ie.Enum(name, {nm: nm.upper() for nm in names})
class Other(ie.Enum):
    A="a"; B="b"
for it in range(3000):
    n=random.choice([1,2,3,5,17,200]); E=mkenum(f"E{it}",n); members=list(E); names=[m.name for m in members]
    L=random.randint(0,6)
    kind=random.choice(["names","idx","members","badname","badidx","foreign","mixed","float"])
    dt=random.choice([np.int8,np.int16,np.int32,np.int64,np.uint8,np.uint16,np.uint32,np.uint64])
    idx=[random.randrange(n) for _ in range(L)]
    if kind=="names": items=[names[i] for i in idx]; valid=True
    elif kind=="idx": items=idx; valid=True
    elif kind=="members": items=[members[i] for i in idx]; valid=True
    elif kind=="badname": items=[names[i] for i in idx]+["zzz"]; idx=None; valid=False
    elif kind=="badidx": items=idx+[random.choice([-1,-2,n,n+1,255,-128])]; valid=False
    elif kind=="foreign": items=[members[i] for i in idx]+[Other.B]; valid=False
    elif kind=="mixed": items=[names[0], 0]; valid=False
    else: items=[0.0]; valid=False
    for as_array in (False,True):
        x=items
        if as_array:
            try:
                if kind in("idx","badidx"):
                    if any(v<np.iinfo(dt).min or v>np.iinfo(dt).max for v in items): continue
                    x=np.array(items,dtype=dt)
                elif kind in ("members","foreign","mixed"): x=np.array(items,dtype=object)
                else: x=np.array(items)
            except Exception: continue
        try:
            r=E.encode(x); ok=True
        except Exception as e: ok=False
        if valid:
            if not ok: flag("valid-rejected",kind,as_array,items[:3]); continue
            if list(np.asarray(r))!=idx: flag("wrong-index",kind,as_array)
            if list(r.decode())!=[members[i] for i in idx] or list(r.decode_to_str())!=[names[i] for i in idx]: flag("decode",kind)
            if list(np.asarray(E.encode(r)))!=idx: flag("idempotent")
        else:
            if ok and len(items)>0:
                flag("invalid-accepted",kind,as_array,str(items)[:60],list(np.asarray(r))[:5],n)
print(os.path.dirname(openfisca_core.__file__), dict(bad))
for k,v in ex.items(): print(k, str(v)[:300])
