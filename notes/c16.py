import warnings; warnings.simplefilter("ignore")
import random, collections, sys, os
import numpy as np, openfisca_core
from openfisca_core import periods, entities, taxbenefitsystems, variables, simulations, holders
from openfisca_core.periods import DateUnit as U
random.seed(int(sys.argv[1]) if len(sys.argv)>1 else 1)
bad=collections.Counter(); ex={}
def flag(k,*i): bad[k]+=1; ex.setdefault(k,i)
person=entities.Entity("person","persons","","")
tbs=taxbenefitsystems.TaxBenefitSystem([person])
for du in [U.DAY,U.MONTH,U.YEAR]:
    for rule,f in [("div",holders.set_input_divide_by_period),("disp",holders.set_input_dispatch_by_period)]:
        tbs.add_variable(type(f"{rule}_{du.value}",(variables.Variable,),dict(value_type=float, entity=person, definition_period=du, set_input=f)))
LONG={U.DAY:["2018-02","2020-02","2018","2020","month:2018-01:3","year:2018-03","day:2018-02-27:5","2018-12"],
      U.MONTH:["2018","year:2018-03","month:2018-01:3","year:2018:2","month:2017-11:4"],
      U.YEAR:["year:2018:2","year:2018:3","year:2016:5"]}
for it in range(1500):
    du=random.choice([U.DAY,U.MONTH,U.YEAR]); rule=random.choice(["div","disp"]); v=f"{rule}_{du.value}"
    sim=simulations.SimulationBuilder().build_default_simulation(tbs,2)
    P=periods.period(random.choice(LONG[du])); subs=P.get_subperiods(du); n=len(subs)
    pre={}
    k=random.choice([0,0,1,2,n//2,n-1,n])
    for q in random.sample(subs,min(k,n)):
        val=[float(random.randint(0,9)*4), float(random.randint(0,9)*4)]; sim.set_input(v,q,val); pre[str(q)]=val
    unknown=n-len(pre)
    if rule=="div":
        base=[sum(x[i] for x in pre.values()) for i in range(2)]
        amt=[base[i]+ (unknown*random.randint(0,6)*8 if unknown else 0) for i in range(2)]
        if unknown==0 and random.random()<0.5: amt[0]+=8
    else: amt=[float(random.randint(1,9)), float(random.randint(1,9))]
    use_int = random.random()<0.3
    arg=[int(a) for a in amt] if use_int else [float(a) for a in amt]
    try:
        sim.set_input(v,P,arg)
    except ValueError as e:
        if rule=="div" and unknown==0 and amt!=[sum(x[i] for x in pre.values()) for i in range(2)]: continue
        flag("unexpected-error:"+type(e).__name__, v, str(P), pre, arg, str(e)[:80]); continue
    except Exception as e:
        flag("exc:"+type(e).__name__, v, str(P), pre, arg, str(e)[:80]); continue
    if rule=="div" and unknown==0 and amt!=[sum(x[i] for x in pre.values()) for i in range(2)]: flag("inconsistent-accepted", v,str(P)); continue
    got={str(q): sim.get_array(v,q).tolist() for q in subs}
    for q,val in pre.items():
        if got[q]!=val: flag("overwritten",v,str(P),q)
    if rule=="div":
        tot=sim.calculate_add(v,P).tolist()
        if tot!=amt: flag("not-conserved",v,str(P),pre,amt,tot)
        if unknown:
            share=[(amt[i]-sum(x[i] for x in pre.values()))/unknown for i in range(2)]
            for q in got:
                if q not in pre and got[q]!=share: flag("share",v,str(P),q,got[q],share)
    else:
        for q in got:
            if q not in pre and got[q]!=amt: flag("dispatch-value",v,str(P),q,got[q],amt,pre)
print(os.path.dirname(openfisca_core.__file__), dict(bad))
for k,v in ex.items(): print(k, str(v)[:500])
