import OFCore.Drv.Per
/-! Line protocol driver: one request per line on stdin, one canonical answer per line. -/
open OFCore.Drv

def dispatch (line : String) : String :=
  match (line.trimAscii.toString.splitOn " ").filter (· ≠ "") with
  | [] => "-"
  | dom :: args =>
    if dom.startsWith "#" then "-" else
    match dom with
    | "cal" => handleCal args
    | "per" => handlePer args
    | "txt" => handleTxt args
    | _ => "BAD"

partial def loop (h : IO.FS.Stream) (out : IO.FS.Stream) : IO Unit := do
  let line ← h.getLine
  if line.isEmpty then return ()
  out.putStrLn (dispatch line)
  loop h out

def main : IO Unit := do
  let out ← IO.getStdout
  loop (← IO.getStdin) out
  out.flush
