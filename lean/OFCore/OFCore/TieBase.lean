import OFCore.Period
/-!
# Vocabulary shared by the generated decision code and the tie theorems (import-free)

`GeneratedGuards.lean` is regenerated on every run from the source of the tree under test
(`harness/ofverif/translate.py`).  It speaks about Python attribute NAMES (`period.this_year`,
`calculation_period.size_in_days`); this file says which model function each name denotes, and gives
the model's own decisions in the shape the generated file falls back to when a function of the code
can no longer be translated.
-/
namespace OFCore.Tie

/-- the model function a `Period` attribute name denotes (the ones `calculate_divide` selects from) -/
def namedPeriod (attr : String) (p : Period) : Except String Period :=
  if attr = "this_year" then p.thisYear
  else if attr = "first_month" then p.firstMonth
  else if attr = "first_day" then .ok p.firstDay
  else if attr = "first_week" then p.firstWeek
  else if attr = "first_weekday" then .ok p.firstWeekday
  else .error "unknown attribute"

/-- the model function a `Period.size_in_*` attribute name denotes -/
def namedSize (attr : String) (c : Period) : Except String Int :=
  if attr = "size_in_years" then c.sizeInYears
  else if attr = "size_in_months" then c.sizeInMonths
  else if attr = "size_in_days" then c.sizeInDays
  else if attr = "size_in_weeks" then c.sizeInWeeks
  else if attr = "size_in_weekdays" then c.sizeInWeekdays
  else .error "unknown attribute"

/-- is `a` a contiguous sub-list of `b`? -/
def infixB (a : List Char) : List Char → Bool
  | [] => a.isEmpty
  | c :: cs => a.isPrefixOf (c :: cs) || infixB a cs

/-- `DateUnit.A in unit` on a `StrEnum`: the NAME of `A` occurs inside the name of `unit`
    ("week" in "weekday" holds) -/
def nameInfix (a b : DUnit) : Bool := infixB a.name.toList b.name.toList

/-- `start = self.start.date; cease = start.add(years=self.size); start.diff(cease).in_weeks()` -/
def weeksAfterYears (p : Period) : Except String Int :=
  if dateOk p.start then do
    let c ← chk (addMonths p.start (12 * p.size)); .ok (inWeeks p.start c) else .error "date"

/-- the same with `months=self.size` -/
def weeksAfterMonths (p : Period) : Except String Int :=
  if dateOk p.start then do
    let c ← chk (addMonths p.start p.size); .ok (inWeeks p.start c) else .error "date"

/-- `unit in DateUnit.isoformat + DateUnit.isocalendar` (tuples extracted from the source) -/
def dated (u : DUnit) : Bool :=
  Generated.isoformatUnits.contains u.name || Generated.isocalendarUnits.contains u.name

/-- the decision of `_check_period_consistency` as the models state it (`true` = refused) -/
def consistencyGuards (du pu : DUnit) (sz : Int) : Bool :=
  if du == .eternity then false else (pu != du || sz != 1)

/-- the decision of `Holder._set` as the models state it -/
def holderSetGuards (du pu : DUnit) (sz : Int) : Bool :=
  if du == .eternity then false else (du != pu || decide (sz > 1))

/-- does `calculate_add` refuse before it looks at the sub-periods, as the models state it? -/
def addGuards (du pu : DUnit) (_sz : Int) : Bool :=
  decide (unitWeight du > unitWeight pu) || !dated du || !dated pu

/-- does `calculate_divide` refuse before it computes anything, as the models state it? -/
def divideGuards (du pu : DUnit) (sz : Int) : Bool :=
  decide (unitWeight du < unitWeight pu ∨ sz > 1) || !dated du || (!dated pu || decide (sz ≠ 1))

def enclosingName : DUnit → String
  | .year => "this_year" | .month => "first_month" | .day => "first_day"
  | .week => "first_week" | .weekday => "first_weekday" | .eternity => "first_weekday"

def denominatorName : DUnit → String
  | .year => "size_in_years" | .month => "size_in_months" | .day => "size_in_days"
  | .week => "size_in_weeks" | .weekday => "size_in_weekdays" | .eternity => "size_in_weekdays"

end OFCore.Tie
