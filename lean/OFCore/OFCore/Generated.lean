-- REGENERATED from the tree under test by harness/ofverif/extract.py on every run. Do not edit.
namespace OFCore.Generated
def unitWeightTable : List (String × Int) := [("weekday", 100), ("week", 200), ("day", 100), ("month", 200), ("year", 300), ("eternity", 400)]
def isoformatUnits : List String := ["day", "month", "year"]
def isocalendarUnits : List String := ["weekday", "week", "year"]
def maxSpiralLoops : Nat := 1
end OFCore.Generated
