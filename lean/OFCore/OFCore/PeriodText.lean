import OFCore.Period
/-!
# Text forms of periods and instants (import-free)

`Period.__str__`, `Instant.__str__`, `helpers.period(str)`, `helpers.instant(str)`,
`_parsers.parse_period/parse_instant/parse_unit` and the two ISO regular expressions of
`types.py`, on ASCII text (`List Char`).  `pendulum.parse(…, exact=True)` is modelled on the
strings those regular expressions let through: calendar validity of Y-M-D, week ≤ weeks of
the ISO year, year in 1..9999.
-/
namespace OFCore

def digitVal (c : Char) : Option Nat :=
  if '0' ≤ c ∧ c ≤ '9' then some (c.toNat - '0'.toNat) else none

def isDigit (c : Char) : Bool := (digitVal c).isSome

/-- value of a string of ASCII digits -/
def digitsVal : List Char → Option Nat
  | [] => none
  | cs => cs.foldl (fun acc c => match acc, digitVal c with
      | some a, some d => some (a * 10 + d) | _, _ => none) (some 0)

/-- decimal digits of a natural number, most significant first -/
def natDigits (n : Nat) : List Char := (Nat.toDigits 10 n)

/-- zero-padded to width `w` -/
def pad (w : Nat) (n : Nat) : List Char :=
  let ds := natDigits n
  List.replicate (w - ds.length) '0' ++ ds

def intText (i : Int) : List Char :=
  if i < 0 then '-' :: natDigits i.natAbs else natDigits i.natAbs

inductive Tok
  | y (y : Nat)
  | ym (y m : Nat)
  | ymd (y m d : Nat)
  | yw (y w : Nat)
  | ywd (y w d : Nat)
  | yd (y d : Nat)       -- "2015-3": matches the ISO-calendar expression, pendulum refuses
deriving DecidableEq, Repr

/-- number of `-`-separated components -/
def Tok.length : Tok → Nat
  | .y _ => 1 | .ym .. => 2 | .ymd .. => 3 | .yw .. => 2 | .ywd .. => 3 | .yd .. => 2

/-- matched by `iso_calendar` (note: a bare year matches both expressions) -/
def Tok.isCalendar : Tok → Bool
  | .y _ => true | .yw .. => true | .ywd .. => true | .yd .. => true | _ => false

def two (a b : Char) : Option Nat :=
  match digitVal a, digitVal b with
  | some x, some y => some (x * 10 + y) | _, _ => none

/-- the two regular expressions `iso_format` and `iso_calendar` -/
def lexIso (cs : List Char) : Option Tok :=
  match cs with
  | a :: b :: c :: d :: rest =>
    match digitsVal [a, b, c, d] with
    | none => none
    | some y =>
      match rest with
      | [] => some (.y y)
      | ['-', m1, m2] =>
        match two m1 m2 with
        | some m => if 1 ≤ m ∧ m ≤ 12 then some (.ym y m) else none
        | none => none
      | ['-', m1, m2, '-', d1, d2] =>
        match two m1 m2, two d1 d2 with
        | some m, some dd => if 1 ≤ m ∧ m ≤ 12 ∧ 1 ≤ dd ∧ dd ≤ 31 then some (.ymd y m dd) else none
        | _, _ => none
      | ['-', 'W', w1, w2] =>
        match two w1 w2 with
        | some w => if 1 ≤ w ∧ w ≤ 53 then some (.yw y w) else none
        | none => none
      | ['-', 'W', w1, w2, '-', d1] =>
        match two w1 w2, digitVal d1 with
        | some w, some dd => if 1 ≤ w ∧ w ≤ 53 ∧ 1 ≤ dd ∧ dd ≤ 7 then some (.ywd y w dd) else none
        | _, _ => none
      | ['-', d1] =>
        match digitVal d1 with
        | some dd => if 1 ≤ dd ∧ dd ≤ 7 then some (.yd y dd) else none
        | none => none
      | _ => none
  | _ => none

/-- `pendulum.parse(value, exact=True)` on a string matched by one of the expressions -/
def tokDate (t : Tok) : Option Date :=
  let fin (c : Date) : Option Date := if dateOk c then some c else none
  match t with
  | .y y => fin ⟨y, 1, 1⟩
  | .ym y m => fin ⟨y, m, 1⟩
  | .ymd y m d => fin ⟨y, m, d⟩
  | .yw y w => if 1 ≤ y ∧ y ≤ 9999 ∧ (w : Int) ≤ isoWeeksIn y then fin (ofIso y w 1) else none
  | .ywd y w d => if 1 ≤ y ∧ y ≤ 9999 ∧ (w : Int) ≤ isoWeeksIn y then fin (ofIso y w d) else none
  | .yd _ _ => none

def unitOfName? (s : String) : Option DUnit := DUnit.ofName s

/-- `parse_unit`: `DateUnit.isocalendar[-length]` or `DateUnit.isoformat[-length]` -/
def tokUnit (t : Tok) : Option DUnit :=
  let tbl := if t.isCalendar then Generated.isocalendarUnits else Generated.isoformatUnits
  if t.length ≤ tbl.length then (tbl[tbl.length - t.length]?).bind unitOfName? else none

/-- `parse_period` -/
def parseIsoPeriod (cs : List Char) : Except String Period :=
  match lexIso cs with
  | none => .error "instant"
  | some t =>
    match tokDate t, tokUnit t with
    | some c, some u => .ok ⟨u, c, 1⟩
    | _, _ => .error "parse"

/-- Python `str.split(sep)` -/
def splitOn (sep : Char) : List Char → List (List Char)
  | [] => [[]]
  | c :: cs =>
    if c = sep then [] :: splitOn sep cs
    else match splitOn sep cs with
      | [] => [[c]]
      | h :: t => (c :: h) :: t

def isSpace (c : Char) : Bool :=
  c = ' ' ∨ c = '\t' ∨ c = '\n' ∨ c = '\r' ∨ c = '\x0b' ∨ c = '\x0c'

/-- digits with single underscores between digits (Python `int()` literal body) -/
def pyDigits : List Char → Option Nat
  | [] => none
  | c :: cs =>
    match digitVal c with
    | none => none
    | some d0 =>
      let rec go (acc : Nat) : List Char → Option Nat
        | [] => some acc
        | '_' :: c :: cs => match digitVal c with
            | some d => go (acc * 10 + d) cs
            | none => none
        | c :: cs => match digitVal c with
            | some d => go (acc * 10 + d) cs
            | none => none
      go d0 cs

/-- Python `int(str)` on ASCII text -/
def pyInt (cs : List Char) : Option Int :=
  let cs := (cs.dropWhile isSpace).reverse.dropWhile isSpace |>.reverse
  match cs with
  | '-' :: r => (pyDigits r).map (fun n => - (n : Int))
  | '+' :: r => (pyDigits r).map (fun n => (n : Int))
  | r => (pyDigits r).map (fun n => (n : Int))

def lower (cs : List Char) : List Char := cs.map Char.toLower

/-- the optional size field of `unit:date[:size]`; more than one extra field is an error -/
def sizeField : List (List Char) → Except String Int
  | [] => .ok 1
  | [s] => match pyInt s with
    | some n => .ok n
    | none => .error "period"
  | _ :: _ :: _ => .error "period"

/-- the test of `helpers.period` on `unit:date`: the unit is finer than the precision of the date —
    the date's own unit outweighs it (`unit_weights`), or the unit is the week and the date has
    month precision (a week is finer than a month although both weigh the same; repair F-C05) -/
def finerThanDate (unit base : DUnit) : Bool :=
  decide (unitWeight base > unitWeight unit) || (unit == .week && base == .month)

/-- the `unit:date[:size]` form, already split on ':' -/
def parseUnitForm (u mid : List Char) (rest : List (List Char)) : Except String Period :=
  if (lexIso mid).isNone then .error "period" else
  match unitOfName? (String.ofList u) with
  | none => .error "period"
  | some .eternity => .error "period"
  | some unit =>
    match parseIsoPeriod mid with
    | .error e => .error e
    | .ok base =>
      match sizeField rest with
      | .error e => .error e
      | .ok n =>
        if finerThanDate unit base.unit then .error "period"
        else .ok ⟨unit, base.start, n⟩

/-- `helpers.period(value: str)` -/
def parsePeriod (cs : List Char) : Except String Period :=
  if lower cs = "eternity".toList then .ok Period.eternity
  else if (lexIso cs).isSome then parseIsoPeriod cs
  else
    match splitOn ':' cs with
    | [] => .error "period"
    | [_] => .error "period"
    | u :: mid :: rest => parseUnitForm u mid rest

/-- `helpers.instant(value: str)` -/
def parseInstant (cs : List Char) : Except String Date :=
  match lexIso cs with
  | none => .error "instant"
  | some t => match tokDate t with
    | some c => .ok c
    | none => .error "parse"

/-- `Instant.__str__` = `date.isoformat()` -/
def instantText (c : Date) : List Char :=
  pad 4 c.y.toNat ++ ['-'] ++ pad 2 c.m.toNat ++ ['-'] ++ pad 2 c.d.toNat

def weekText (cy w : Int) : List Char := intText cy ++ ['-', 'W'] ++ pad 2 w.toNat

/-- `Period.__str__` -/
def Period.text (p : Period) : List Char :=
  if p.unit = .eternity then "ETERNITY".toList else
  let y := p.start.y; let m := p.start.m; let d := p.start.d
  let (cy, w, wd) := toIso p.start
  let ym := intText y ++ ['-'] ++ pad 2 m.toNat
  let ymd := ym ++ ['-'] ++ pad 2 d.toNat
  if (p.unit = .month ∧ p.size = 12) ∨ (p.unit = .year ∧ p.size = 1) then
    if m = 1 then intText y else "year:".toList ++ ym
  else if p.unit = .month ∧ p.size = 1 then ym
  else if p.unit = .year ∧ m = 1 then "year:".toList ++ intText y ++ [':'] ++ intText p.size
  else if p.unit = .day then
    if p.size = 1 then ymd else "day:".toList ++ ymd ++ [':'] ++ intText p.size
  else if p.unit = .week ∧ p.size = 1 then weekText cy w
  else if p.unit = .week ∧ p.size > 1 then "week:".toList ++ weekText cy w ++ [':'] ++ intText p.size
  else if p.unit = .weekday ∧ p.size = 1 then weekText cy w ++ ['-'] ++ intText wd
  else if p.unit = .weekday ∧ p.size > 1 then
    "weekday:".toList ++ weekText cy w ++ ['-'] ++ intText wd ++ [':'] ++ intText p.size
  else p.unit.name.toList ++ [':'] ++ ym ++ [':'] ++ intText p.size

/-- `_parsers.parse_unit(value: str)` called directly -/
def parseUnit (cs : List Char) : Except String DUnit :=
  match lexIso cs with
  | none => .error "instant"
  | some t => match tokUnit t with
    | some u => .ok u
    | none => .error "index"

/-- `helpers.key_period_size`: `f"{unit_weight(period.unit)}_{period.size}"` -/
def keyPeriodSize (p : Period) : List Char := intText (unitWeight p.unit) ++ ['_'] ++ intText p.size

/-! ## `helpers.instant(value)` and `helpers.period(value)` on every accepted argument type

The argument as the caller writes it.  `date` is a `datetime.date` (also `pendulum.Date`,
`datetime.datetime`): a real calendar date by construction.  `seq` is a list / tuple (any `Sequence`)
of `int`s.  A `DateUnit` member is a `str` (its name).  `other` is anything else (a float, a dict, a
sequence holding something that is not an `int`, a numpy integer …). -/
inductive PyVal
  | none
  | int (i : Int)
  | str (cs : List Char)
  | instant (c : Date)
  | period (p : Period)
  | date (c : Date)
  | seq (xs : List Int)
  | other
deriving Repr, Inhabited

/-- `Instant((list(value) + [1] * 3)[:3])` -/
def seqDate (xs : List Int) : Option Date :=
  match (xs ++ List.replicate 3 1).take 3 with
  | [y, m, d] => some ⟨y, m, d⟩
  | _ => none

/-- `helpers.instant(value)` (single dispatch on the type of the argument); nothing is validated
    except text -/
def instantOf : PyVal → Except String Date
  | .none => .error "instant"
  | .int i => .ok ⟨i, 1, 1⟩
  | .str cs => parseInstant cs
  | .instant c => .ok c
  | .period p => .ok p.start
  | .date c => .ok c
  | .seq xs => if xs.isEmpty then .error "instant" else
      match seqDate xs with
      | some c => .ok c
      | none => .error "instant"
  | .other => .error "instant"

/-- `helpers.period(value)` (single dispatch on the type of the argument) -/
def periodOf : PyVal → Except String Period
  | .none => .error "period"
  | .int i => do let c ← instantOf (.int i); .ok ⟨.year, c, 1⟩
  | .str cs => parsePeriod cs
  | .instant c => .ok ⟨.day, c, 1⟩
  | .period p => .ok p
  | .date c => do let s ← instantOf (.date c); .ok ⟨.day, s, 1⟩
  | .seq _ => .error "period"
  | .other => .error "period"

end OFCore
