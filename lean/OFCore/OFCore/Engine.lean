/-!
# The calculation engine, at node level (import-free)

A *node* is a pair (variable, period).  A node-level rule system gives, for every node, the
formula in force there as an expression whose reads are again nodes (`RuleSys.lean` computes
this from a declarative system: dated formulas, end dates, period transforms, ADD expansion),
the inputs, the defaults and the casts.

Two semantics:

* `den` — the **meaning**: cache-less, stack-less, no spiral rule; input wins, no formula ⇒
  default, the formula in force is applied to recursively evaluated dependencies, the result
  is cast.  Fuel-bounded (`none` = not enough fuel; a chain that never reaches an input has no
  meaning at all).
* `run` — the **machine**: a transcription of `Simulation.calculate/_calculate/_check_for_cycle/
  invalidate_spiral_variables/purge_cache_of_invalid_values`, `Holder.get_array/put_in_cache`
  (with the F-C02a repair): cache look-up, input, cycle check on the evaluation stack, spiral
  heuristic (`max_spiral_loops`), push, formula, pop (`finally`), cast, store on success only.
  Every result and cache entry carries a ghost *provenance bit* (true = derived from a
  substituted spiral default) that no decision of the machine reads.
-/
namespace OFCore.Engine

abbrev Val := List Int

inductive Err where
  | cycle   -- circular definition
  | fault   -- a formula raised / invalid-period dependency / unknown variable
deriving DecidableEq, Repr

abbrev Res := Except Err Val

/-- formula expressions; `P` is the type of periods -/
inductive Expr (P : Type) where
  | const (c : Val)
  | ref (v : Nat) (p : P)                -- `population(variable, period)`
  | op1 (o : Nat) (a : Expr P)
  | op2 (o : Nat) (a b : Expr P)
  | fail (id : Nat) (a : Expr P)         -- raises when fault `id` is armed, else evaluates `a`
  | bad                                  -- always raises
deriving Repr

structure Sys (P : Type) where
  formula : Nat → P → Option (Expr P)    -- formula in force at the node, if any
  input : Nat → P → Option Val           -- supplied inputs (and neutralised variables)
  dflt : Nat → Val                       -- declared default, as a vector
  post : Nat → Val → Val                 -- cast to the declared type
  f1 : Nat → Val → Val                   -- unary operations (incl. aggregations, projections)
  f2 : Nat → Val → Val → Val             -- binary operations
  armed : Nat → Bool                     -- armed faults
  msl : Nat                              -- max_spiral_loops
  noStore : Nat → Bool                   -- variables that are not cached (drop / blacklist)
  ckey : Nat → P → P                     -- the period a value is stored under (ETERNITY for an
                                         -- eternal variable, the period itself otherwise)
  markAll : Bool := false                -- what-if switch (candidate repair of F-C02b, NOT the code):
                                         -- a spiral marks every frame on the stack

abbrev Node (P : Type) := Nat × P

/-- cache entries: value and ghost provenance bit -/
abbrev Cache (P : Type) := List (Node P × (Val × Bool))

def lookup {P : Type} [DecidableEq P] (c : Cache P) (k : Node P) : Option (Val × Bool) :=
  match c with
  | [] => none
  | (k', x) :: r => if k' = k then some x else lookup r k

structure St (P : Type) where
  cache : Cache P
  stack : List (Node P)
  inval : List (Node P)                  -- `invalidated_caches`

def St.init {P : Type} : St P := ⟨[], [], []⟩

variable {P : Type} [DecidableEq P]

/-! ## meaning -/
mutual
def den (sys : Sys P) : Nat → Nat → P → Option Res
  | 0, _, _ => none
  | n+1, v, p =>
    match sys.input v p with
    | some x => some (.ok x)
    | none =>
      match sys.formula v p with
      | none => some (.ok (sys.post v (sys.dflt v)))
      | some e =>
        match denE sys n e with
        | none => none
        | some (.error er) => some (.error er)
        | some (.ok x) => some (.ok (sys.post v x))
def denE (sys : Sys P) : Nat → Expr P → Option Res
  | _, .const c => some (.ok c)
  | _, .bad => some (.error .fault)
  | n, .ref v p => den sys n v p
  | n, .fail id a => if sys.armed id then some (.error .fault) else denE sys n a
  | n, .op1 o a =>
    match denE sys n a with
    | none => none
    | some (.error e) => some (.error e)
    | some (.ok x) => some (.ok (sys.f1 o x))
  | n, .op2 o a b =>
    match denE sys n a with
    | none => none
    | some (.error e) => some (.error e)
    | some (.ok x) =>
      match denE sys n b with
      | none => none
      | some (.error e) => some (.error e)
      | some (.ok y) => some (.ok (sys.f2 o x y))
end

/-! ## machine -/

/-- frames marked by a spiral on variable `v`: from the top of the stack down to the `msl`-th
    earlier frame of the same variable (the current frame is marked by the caller) -/
def markSpiral (v : Nat) : Nat → List (Node P) → List (Node P)
  | _, [] => []
  | cnt, k :: r => if k.1 = v then (if cnt ≤ 1 then [k] else k :: markSpiral v (cnt - 1) r)
                   else k :: markSpiral v cnt r

/-- `put_in_cache` -/
def store (sys : Sys P) (c : Cache P) (k : Node P) (x : Val) (g : Bool) : Cache P :=
  if sys.noStore k.1 then c else (k, (x, g)) :: c

/-- the cache slot of a node: `Holder.get_array` / `put_in_cache` go through the storage key -/
def Sys.slot (sys : Sys P) (k : Node P) : Node P := (k.1, sys.ckey k.1 k.2)

mutual
def run (sys : Sys P) : Nat → St P → Nat → P → Option (Res × Bool × St P)
  | 0, _, _, _ => none
  | n+1, s, v, p =>
    match lookup s.cache (sys.slot (v, p)) with
    | some (x, g) =>
      -- (F-C02a / F-C02c repair) reading an entry already marked for deletion marks every frame;
      -- the entry is recognised by its storage slot (an eternal variable marked under one period
      -- and read under another is the same entry)
      let s' := if sys.slot (v, p) ∈ s.inval.map sys.slot then { s with inval := s.stack ++ s.inval } else s
      some (.ok x, g, s')
    | none =>
      match sys.input v p with
      | some x => some (.ok x, false, s)
      | none =>
        if (v, p) ∈ s.stack then some (.error .cycle, false, s)
        else if sys.msl ≤ (s.stack.filter (fun k => k.1 = v)).length then
          -- spiral: the default is substituted, not cached; frames are marked
          some (.ok (sys.dflt v), true,
            { s with inval := (v, p) :: markSpiral v (if sys.markAll then s.stack.length + 1 else sys.msl) s.stack ++ s.inval })
        else
        match sys.formula v p with
        | none =>
          let x := sys.post v (sys.dflt v)
          some (.ok x, false, { s with cache := store sys s.cache (sys.slot (v, p)) x false })
        | some e =>
          match runE sys n { s with stack := (v, p) :: s.stack } e with
          | none => none
          | some (.error er, g, s') => some (.error er, g, { s' with stack := s'.stack.tail })
          | some (.ok x, g, s') =>
            some (.ok (sys.post v x), g,
              { s' with cache := store sys s'.cache (sys.slot (v, p)) (sys.post v x) g, stack := s'.stack.tail })
def runE (sys : Sys P) : Nat → St P → Expr P → Option (Res × Bool × St P)
  | _, s, .const k => some (.ok k, false, s)
  | _, s, .bad => some (.error .fault, false, s)
  | n, s, .ref v p => run sys n s v p
  | n, s, .fail id a => if sys.armed id then some (.error .fault, false, s) else runE sys n s a
  | n, s, .op1 o a =>
    match runE sys n s a with
    | none => none
    | some (.error e, g, s1) => some (.error e, g, s1)
    | some (.ok x, g, s1) => some (.ok (sys.f1 o x), g, s1)
  | n, s, .op2 o a b =>
    match runE sys n s a with
    | none => none
    | some (.error e, g, s1) => some (.error e, g, s1)
    | some (.ok x, g1, s1) =>
      match runE sys n s1 b with
      | none => none
      | some (.error e, g2, s2) => some (.error e, g1 || g2, s2)
      | some (.ok y, g2, s2) => some (.ok (sys.f2 o x y), g1 || g2, s2)
end

/-- `purge_cache_of_invalid_values`, at the end of a top-level request: `holder.delete_arrays`
    of every marked (variable, period) deletes its storage slot -/
def purge (sys : Sys P) (s : St P) : St P :=
  { cache := s.cache.filter (fun e => !((s.inval.map sys.slot).contains e.1)), stack := s.stack, inval := [] }

/-- a top-level `Simulation.calculate`: run, then purge when the stack is empty -/
def request (sys : Sys P) (fuel : Nat) (s : St P) (k : Node P) : Option (Res × Bool × St P) :=
  match run sys fuel s k.1 k.2 with
  | none => none
  | some (r, g, s') => some (r, g, if s'.stack = [] then purge sys s' else s')

/-- a sequence of top-level requests (errors do not stop the sequence) -/
def requests (sys : Sys P) (fuel : Nat) : St P → List (Node P) → Option (List Res × St P)
  | s, [] => some ([], s)
  | s, k :: ks =>
    match request sys fuel s k with
    | none => none
    | some (r, _, s') =>
      match requests sys fuel s' ks with
      | none => none
      | some (rs, s'') => some (r :: rs, s'')

/-- a sequence of top-level requests during which the armed faults change: every step runs under
    its own system (same rules, its own armed set); errors do not stop the sequence -/
def requestsF (fuel : Nat) : St P → List (Sys P × Node P) → Option (List Res × St P)
  | s, [] => some ([], s)
  | s, st :: sts =>
    match request st.1 fuel s st.2 with
    | none => none
    | some (r, _, s') =>
      match requestsF fuel s' sts with
      | none => none
      | some (rs, s'') => some (r :: rs, s'')

/-- the nodes an expression reads -/
def refs : Expr P → List (Node P)
  | .const _ => []
  | .bad => []
  | .ref v p => [(v, p)]
  | .fail _ a => refs a
  | .op1 _ a => refs a
  | .op2 _ a b => refs a ++ refs b

end OFCore.Engine
