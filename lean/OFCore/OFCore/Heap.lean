import OFCore.Period
/-!
# Object-identity model of simulations (C13) — import-free apart from the period model

A pure model erases object identity, and `Simulation.clone` is *about* identity: which parts of
the copy are new objects and which are the original's objects reached through a second
reference.  Here objects live in a **heap** and are designated by **ids**; a field that holds
another object holds its id.  `cloneSim` is the transcription of `Simulation.clone`,
`Population.clone`, `GroupPopulation.clone`, `Holder.clone` (repaired code, `notes/fixes.py`
entries C13 and C13c) as an *allocation pattern*: which fields are freshly allocated, which are
copied by reference.  The operations (`set_input` — with `set_input_dispatch_by_period` for the variables
that declare it —, `delete_arrays`, `calculate`, `calculate_add`, `trace = …`, `get_holder`,
`invalidate_cache_entry`) read and write **through ids**, navigating exactly
the references the Python code navigates (`holder.population.count`,
`holder.simulation.memory_config`, `population.simulation.calculate`, `group.members`,
`population.simulation.populations[…]`, …).

Ids are pairs `(region, index)`: an allocation made on behalf of a simulation goes to the end of
that simulation's region; `cloneSim` opens a new region.  Nothing can observe the numeric value
of an id (the model only compares ids for equality), so *any* allocation discipline that hands
out fresh ids is a faithful model of `id()`; this one makes "the clone owns what it reaches"
a statement about regions.

What is a value and what is an object: vectors (`numpy` arrays) are values (no operation of the
property mutates an array in place; clone and original do share the array objects); the
tax-benefit system, the entities, the variables, `ids`, `members_entity_id`, `MemoryConfig` are
immutable here and are values too (C14 is about the system).  Objects: simulation, population,
holder, `InMemoryStorage` (with its `_arrays` dict), `OnDiskStorage` (with its `_files` dict),
the temporary directory on the file system, tracer, the `invalidated_caches` set.
-/
namespace OFCore.Heap

structure Id where
  reg : Nat
  idx : Nat
deriving DecidableEq, Repr, Inhabited

abbrev Var := Nat
abbrev Vec := List Int
/-- a calculation node / a cache key / a tracer frame -/
abbrev Key := Var × Period

inductive Err where
  | bad      -- dangling id / object of the wrong class (never happens on heaps built by `build`)
  | value    -- `ValueError`, `PeriodMismatchError`, `VariableNotFoundError`, `KeyError` …
  | cycle    -- `CycleError`
  | spiral   -- `SpiralError` (always caught inside `_calculate`)
  | fuel
deriving DecidableEq, Repr

/-! ## the rule system (a value shared by a simulation and its clone) -/

/-- how a formula reaches a dependency -/
inductive Via where
  | same      -- `population(dep, period)`
  | members   -- `group.sum(group.members(dep, period))`
  | project   -- `person.<group>(dep, period)`
  | membersRole (role : List Nat)     -- `group.sum(group.members(dep, period), role=ROLE)`
  | nbPersons (role : List Nat)       -- `group.nb_persons(role=ROLE)` (no dependency)
  | hasRole (g : Nat) (role : List Nat)   -- `person.has_role(ROLE)`, `ROLE` a role of group entity `g` (no dependency)
  | param                             -- `parameters(period).p0` in a three-argument formula (no dependency)
  | nth (k : Nat)                     -- `group.value_nth_person(k, group.members(dep, period), default=0)`
  | enumIs (k : Nat)                  -- `population(dep, period) == ENUM.<member k>`: an `EnumArray` compared with a member
deriving DecidableEq, Repr

/-- the value of the one parameter of the generated systems (parameters are C06/C07's subject) -/
def paramValue : Int := 7

/-- A role argument is the list of *flattened* role indices a member may hold to satisfy it (a role with
sub-roles is satisfied by any of them).  The role table used throughout the correspondence: `r0` with
sub-roles `r0s0, r0s1` (flattened 0, 1), `r1` (2), `r2` with `max = 1` (3); the first flattened role is
the one `members_role` falls back to when no role was ever assigned. -/
def stdRoles : List (List Nat) := [[0, 1], [0], [1], [2], [3]]

inductive PT where
  | same | lastMonth
deriving DecidableEq, Repr

structure Term where
  coef : Int
  dep : Var
  via : Via
  pt : PT
deriving DecidableEq, Repr

structure VarDecl where
  entity : Nat               -- 0 = the person entity, k ≥ 1 = a group entity
  defPeriod : DUnit
  dflt : Int
  formula : Option (Int × List Term)    -- constant + Σ coef · term
  blacklisted : Bool := false           -- listed in `tax_benefit_system.cache_blacklist`
  isEnum : Bool := false                -- `value_type = Enum`: its vectors are `EnumArray`s (member indices)
  dispatch : Bool := false              -- `set_input = set_input_dispatch_by_period`
deriving Repr

abbrev Sys := List VarDecl

/-! ## objects -/

/-- `InMemoryStorage` -/
structure StoreObj where
  eternal : Bool
  arrays : List (Period × Vec)
deriving DecidableEq, Repr

/-- `OnDiskStorage`: `storage_dir` = (the temporary directory, the variable's sub-directory) -/
structure DiskObj where
  eternal : Bool
  var : Var
  dir : Id
  files : List Period
deriving DecidableEq, Repr

/-- the temporary directory: (sub-directory, file name) ↦ content -/
structure DirObj where
  files : List (Key × Vec)
deriving DecidableEq, Repr

structure HolderObj where
  var : Var
  pop : Id
  sim : Id
  mem : Id
  disk : Option Id
  noStore : Bool             -- `_do_not_store` (the variable is in `memory_config.variables_to_drop`)
deriving DecidableEq, Repr

structure PopObj where
  entity : Nat
  sim : Id
  holders : List (Var × Id)
  count : Nat
  ids : List Nat
  members : Option Id
  membersEntityId : List Nat
  membersRole : Option (List Nat)    -- `_members_role`: `None`, or the flattened role of each person
  membersPosition : Option (List Nat)   -- `_members_position`: `None`, or the assigned position of each person
deriving DecidableEq, Repr

structure TracerObj where
  full : Bool
  stack : List Key
  roots : List Key          -- `FullTracer.trees` (name and period of each root)
deriving DecidableEq, Repr

/-- `MemoryConfig(max_memory_occupation=0, priority_variables=…, variables_to_drop=…)` -/
structure MemConfig where
  priority : List Var
  drop : List Var := []
deriving DecidableEq, Repr

structure SimObj where
  persons : Id
  pops : List (Nat × Id)     -- `populations`: entity ↦ population
  tracer : Id
  inval : Id                 -- `invalidated_caches`
  trace : Bool
  memConfig : Option MemConfig
  dir : Option Id            -- `_data_storage_dir`
  debug : Bool := false
  optOut : Bool := false     -- `opt_out_cache`
  msl : Nat := Generated.maxSpiralLoops    -- `max_spiral_loops`
deriving DecidableEq, Repr

inductive Obj where
  | sim (o : SimObj)
  | pop (o : PopObj)
  | holder (o : HolderObj)
  | store (o : StoreObj)
  | disk (o : DiskObj)
  | dir (o : DirObj)
  | tracer (o : TracerObj)
  | inval (o : List Key)
deriving DecidableEq, Repr

def Obj.sim? : Obj → Option SimObj
  | .sim o => some o | .pop _ => none | .holder _ => none | .store _ => none
  | .disk _ => none | .dir _ => none | .tracer _ => none | .inval _ => none
def Obj.pop? : Obj → Option PopObj
  | .sim _ => none | .pop o => some o | .holder _ => none | .store _ => none
  | .disk _ => none | .dir _ => none | .tracer _ => none | .inval _ => none
def Obj.holder? : Obj → Option HolderObj
  | .sim _ => none | .pop _ => none | .holder o => some o | .store _ => none
  | .disk _ => none | .dir _ => none | .tracer _ => none | .inval _ => none
def Obj.store? : Obj → Option StoreObj
  | .sim _ => none | .pop _ => none | .holder _ => none | .store o => some o
  | .disk _ => none | .dir _ => none | .tracer _ => none | .inval _ => none
def Obj.disk? : Obj → Option DiskObj
  | .sim _ => none | .pop _ => none | .holder _ => none | .store _ => none
  | .disk o => some o | .dir _ => none | .tracer _ => none | .inval _ => none
def Obj.dir? : Obj → Option DirObj
  | .sim _ => none | .pop _ => none | .holder _ => none | .store _ => none
  | .disk _ => none | .dir o => some o | .tracer _ => none | .inval _ => none
def Obj.tracer? : Obj → Option TracerObj
  | .sim _ => none | .pop _ => none | .holder _ => none | .store _ => none
  | .disk _ => none | .dir _ => none | .tracer o => some o | .inval _ => none
def Obj.inval? : Obj → Option (List Key)
  | .sim _ => none | .pop _ => none | .holder _ => none | .store _ => none
  | .disk _ => none | .dir _ => none | .tracer _ => none | .inval o => some o

/-! ## the heap -/

abbrev Heap := List (List Obj)

def Heap.get? (h : Heap) (p : Id) : Option Obj := (h[p.reg]?).bind (fun r => r[p.idx]?)
def Heap.put (h : Heap) (p : Id) (o : Obj) : Heap := h.modify p.reg (fun r => r.set p.idx o)
def Heap.size (h : Heap) (r : Nat) : Nat := (h[r]?.getD []).length
def Heap.push (h : Heap) (r : Nat) (o : Obj) : Heap := h.modify r (fun l => l ++ [o])

/-- heap computations: an exception leaves the heap as it was when it was raised -/
def HM (α : Type) : Type := Heap → Except Err α × Heap

namespace HM
def pure' {α : Type} (a : α) : HM α := fun h => (.ok a, h)
def bind' {α β : Type} (m : HM α) (f : α → HM β) : HM β := fun h =>
  match m h with
  | (.ok a, h1) => f a h1
  | (.error e, h1) => (.error e, h1)
instance : Monad HM where
  pure := pure'
  bind := bind'
def fail {α : Type} (e : Err) : HM α := fun h => (.error e, h)
/-- `try: m finally: fin` -/
def tryFinally {α : Type} (m : HM α) (fin : HM Unit) : HM α := fun h =>
  match fin (m h).2 with
  | (.ok _, h2) => ((m h).1, h2)
  | (.error e, h2) => (.error e, h2)
/-- `try: m except SpiralError: handler` -/
def catchSpiral {α : Type} (m : HM α) (handler : HM α) : HM α := fun h =>
  match m h with
  | (.ok a, h1) => (.ok a, h1)
  | (.error .spiral, h1) => handler h1
  | (.error .bad, h1) => (.error .bad, h1)
  | (.error .value, h1) => (.error .value, h1)
  | (.error .cycle, h1) => (.error .cycle, h1)
  | (.error .fuel, h1) => (.error .fuel, h1)
def ofOption {α : Type} (e : Err) : Option α → HM α
  | some a => pure a
  | none => fail e
/-- an exception raised by the period model -/
def ofPeriod {α : Type} : Except String α → HM α
  | .ok a => pure a
  | .error _ => fail .value
end HM
open HM

/-- read the object designated by an id -/
def rd (p : Id) : HM Obj := fun h =>
  match h.get? p with
  | some o => (.ok o, h)
  | none => (.error .bad, h)
/-- assign the fields of an existing object -/
def wr (p : Id) (o : Obj) : HM Unit := fun h =>
  match h.get? p with
  | some _ => (.ok (), h.put p o)
  | none => (.error .bad, h)
/-- storages, directories, tracers and sets: the objects that refer to nothing a simulation is made of -/
def Obj.leafKind : Obj → Nat
  | .sim _ => 0 | .pop _ => 0 | .holder _ => 0
  | .store _ => 1 | .disk _ => 2 | .dir _ => 3 | .tracer _ => 4 | .inval _ => 5

/-- assign the content of a storage / directory / tracer / set: the object keeps its class -/
def wrLeaf (p : Id) (o : Obj) : HM Unit := fun h =>
  match h.get? p with
  | some old => if old.leafKind = o.leafKind ∧ o.leafKind ≠ 0 then (.ok (), h.put p o) else (.error .bad, h)
  | none => (.error .bad, h)

/-- allocate a new object at the end of region `r` -/
def new (r : Nat) (o : Obj) : HM Id := fun h =>
  match h[r]? with
  | some l => (.ok ⟨r, l.length⟩, h.push r o)
  | none => (.error .bad, h)
/-- open a new, empty region -/
def newRegion : HM Nat := fun h => (.ok h.length, h ++ [[]])

/-- `[f(a) for a in l]` -/
def mapMH {α β : Type} (f : α → HM β) : List α → HM (List β)
  | [] => pure []
  | a :: r => do
    let b ← f a
    let bs ← mapMH f r
    pure (b :: bs)

def rdSim (p : Id) : HM SimObj := do ofOption .bad (← rd p).sim?
/-- assign attributes of a simulation -/
def updSim (x : Id) (f : SimObj → SimObj) : HM Unit := do
  let so ← rdSim x
  wr x (.sim (f so))

def rdPop (p : Id) : HM PopObj := do ofOption .bad (← rd p).pop?
/-- assign attributes of a population -/
def updPop (p : Id) (f : PopObj → PopObj) : HM Unit := do
  let po ← rdPop p
  wr p (.pop (f po))

def rdHolder (p : Id) : HM HolderObj := do ofOption .bad (← rd p).holder?
def rdStore (p : Id) : HM StoreObj := do ofOption .bad (← rd p).store?
def rdDisk (p : Id) : HM DiskObj := do ofOption .bad (← rd p).disk?
def rdDir (p : Id) : HM DirObj := do ofOption .bad (← rd p).dir?
def rdTracer (p : Id) : HM TracerObj := do ofOption .bad (← rd p).tracer?
def rdInval (p : Id) : HM (List Key) := do ofOption .bad (← rd p).inval?

/-! ## association lists (Python dicts: assignment to an existing key keeps its position) -/

def alGet {κ β : Type} [DecidableEq κ] : List (κ × β) → κ → Option β
  | [], _ => none
  | (k', v) :: r, k => if k' = k then some v else alGet r k

def alPut {κ β : Type} [DecidableEq κ] : List (κ × β) → κ → β → List (κ × β)
  | [], k, v => [(k, v)]
  | (k', v') :: r, k, v => if k' = k then (k', v) :: r else (k', v') :: alPut r k v

def insertNew {κ : Type} [DecidableEq κ] (l : List κ) (k : κ) : List κ := if k ∈ l then l else l ++ [k]

/-! ## storages -/

/-- an eternal storage files everything under `ETERNITY` -/
def keyOf (eternal : Bool) (p : Period) : Period := if eternal then Period.eternity else p

def StoreObj.find (s : StoreObj) (p : Period) : Option Vec := alGet s.arrays (keyOf s.eternal p)
def StoreObj.insert (s : StoreObj) (v : Vec) (p : Period) : StoreObj :=
  { s with arrays := alPut s.arrays (keyOf s.eternal p) v }

/-- items kept by `delete(period)`: those `period` does not contain (`contains` may raise) -/
def keepOutside {β : Type} (p : Period) (key : β → Period) : List β → Except String (List β)
  | [] => .ok []
  | x :: r =>
    match p.contains (key x) with
    | .error e => .error e
    | .ok c =>
      match keepOutside p key r with
      | .error e => .error e
      | .ok r' => .ok (if c then r' else x :: r')

/-- `InMemoryStorage.delete` -/
def StoreObj.remove (s : StoreObj) : Option Period → Except String StoreObj
  | none => .ok { s with arrays := [] }
  | some p =>
    match keepOutside (keyOf s.eternal p) (fun x => x.1) s.arrays with
    | .error e => .error e
    | .ok l => .ok { s with arrays := l }

/-- `OnDiskStorage.get` -/
def diskFind (d : DiskObj) (p : Period) : HM (Option Vec) :=
  let k := keyOf d.eternal p
  if k ∈ d.files then do
    let dir ← rdDir d.dir
    match alGet dir.files (d.var, k) with
    | some v => pure (some v)
    | none => fail .bad
  else pure none

/-- `OnDiskStorage.put`: write the file, then register it in `_files` -/
def diskInsert (did : Id) (v : Vec) (p : Period) : HM Unit := do
  let d ← rdDisk did
  let k := keyOf d.eternal p
  let dir ← rdDir d.dir
  wrLeaf d.dir (.dir ⟨alPut dir.files (d.var, k) v⟩)
  wrLeaf did (.disk { d with files := insertNew d.files k })

/-- `OnDiskStorage.delete` (forgets the files, does not remove them) -/
def diskRemove (did : Id) (p : Option Period) : HM Unit := do
  let d ← rdDisk did
  match p with
  | none => wrLeaf did (.disk { d with files := [] })
  | some p =>
    let l ← ofPeriod (keepOutside (keyOf d.eternal p) (fun x => x) d.files)
    wrLeaf did (.disk { d with files := l })

/-! ## holders -/

def isEternal (decl : VarDecl) : Bool := decide (decl.defPeriod = .eternity)

def varDecl (sys : Sys) (v : Var) : HM VarDecl := ofOption .value sys[v]?

/-- `simulation.data_storage_dir`: the temporary directory is made on first use -/
def dataStorageDir (r : Nat) (sid : Id) : HM Id := do
  let so ← rdSim sid
  match so.dir with
  | some d => pure d
  | none => do
    let d ← new r (.dir ⟨[]⟩)
    updSim sid (fun so => { so with dir := some d })
    pure d

/-- the `_disk_storage` of a new holder: none without a memory configuration or for a priority variable,
else `create_disk_storage()` -/
def createDisk (r : Nat) (sid : Id) (v : Var) (eternal : Bool) : HM (Option Id) := do
  let so ← rdSim sid
  match so.memConfig with
  | none => pure none
  | some mc =>
    if v ∈ mc.priority then pure none else do
      let dirId ← dataStorageDir r sid
      let did ← new r (.disk ⟨eternal, v, dirId, []⟩)
      pure (some did)

/-- `Holder.__init__(variable, population)`, called by `population.get_holder` on first use;
everything it allocates goes to region `r` -/
def createHolder (sys : Sys) (r : Nat) (pid : Id) (v : Var) : HM (Id × HolderObj) := do
  let decl ← varDecl sys v
  let po ← rdPop pid
  let mem ← new r (.store ⟨isEternal decl, []⟩)
  -- `self.simulation = population.simulation`; `self.simulation.memory_config`
  let disk ← createDisk r po.sim v (isEternal decl)
  let so ← rdSim po.sim
  let noStore := match so.memConfig with
    | none => false
    | some mc => decide (v ∈ mc.drop)
  let ho : HolderObj := ⟨v, pid, po.sim, mem, disk, noStore⟩
  let hid ← new r (.holder ho)
  updPop pid (fun po => { po with holders := po.holders ++ [(v, hid)] })
  pure (hid, ho)

/-- `simulation.get_holder(variable)`: `get_variable_population(variable).get_holder(variable)` -/
def getHolder (sys : Sys) (x : Id) (v : Var) : HM (Id × HolderObj) := do
  let decl ← varDecl sys v
  let so ← rdSim x
  let pid ← ofOption .value (alGet so.pops decl.entity)
  let po ← rdPop pid
  match alGet po.holders v with
  | some hid => do
    let ho ← rdHolder hid
    pure (hid, ho)
  | none => createHolder sys x.reg pid v

/-- the on-disk half of `Holder.get_array` -/
def diskLookup (disk : Option Id) (p : Period) : HM (Option Vec) :=
  match disk with
  | some did => do
    let d ← rdDisk did
    diskFind d p
  | none => pure none

/-- `Holder.get_array` -/
def holderFind (ho : HolderObj) (p : Period) : HM (Option Vec) := do
  let st ← rdStore ho.mem
  match st.find p with
  | some v => pure (some v)
  | none => diskLookup ho.disk p

/-- the on-disk half of `Holder.get_known_periods` -/
def diskPeriods (disk : Option Id) : HM (List Period) :=
  match disk with
  | some did => do
    let d ← rdDisk did
    pure d.files
  | none => pure []

/-- `Holder.get_known_periods` -/
def knownPeriods (ho : HolderObj) : HM (List Period) := do
  let st ← rdStore ho.mem
  let ds ← diskPeriods ho.disk
  pure (st.arrays.map (fun x => x.1) ++ ds)

/-- the known periods with the value `get_array` returns for each -/
def holderKnown (ho : HolderObj) : HM (List (Period × Option Vec)) := do
  let ps ← knownPeriods ho
  mapMH (fun p => do
    let a ← holderFind ho p
    pure (p, a)) ps

/-- `Holder._set` (after `_to_array`: the length is checked against `self.population.count`) -/
def holderSet (sys : Sys) (ho : HolderObj) (p : Period) (v : Vec) : HM Unit := do
  let decl ← varDecl sys ho.var
  let po ← rdPop ho.pop
  if v.length ≠ po.count then fail .value else
  if !isEternal decl ∧ (decl.defPeriod ≠ p.unit ∨ p.size > 1) then fail .value else do
  let st ← rdStore ho.mem
  match ho.disk with
  | none => wrLeaf ho.mem (.store (st.insert v p))
  | some did =>
    match st.find p with
    | some _ => wrLeaf ho.mem (.store (st.insert v p))
    | none => do
      -- `psutil.virtual_memory().percent >= self.simulation.memory_config.max_memory_occupation_pc`
      let so ← rdSim ho.sim
      match so.memConfig with
      | none => fail .bad
      | some _ => diskInsert did v p

/-- `Holder.put_in_cache`: nothing is stored for a dropped variable, nor — when the simulation opts out —
for a variable of the system's cache blacklist -/
def putInCache (sys : Sys) (ho : HolderObj) (p : Period) (v : Vec) : HM Unit :=
  if ho.noStore then pure () else do
  let so ← rdSim ho.sim
  let decl ← varDecl sys ho.var
  if so.optOut ∧ decl.blacklisted then pure () else
  holderSet sys ho p v

/-- `Holder.delete_arrays` -/
def holderDelete (ho : HolderObj) (p : Option Period) : HM Unit := do
  let st ← rdStore ho.mem
  let st' ← ofPeriod (st.remove p)
  wrLeaf ho.mem (.store st')
  match ho.disk with
  | some did => diskRemove did p
  | none => pure ()

/-- `Holder.default_array`: `variable.default_array(self.population.count)` -/
def holderDefault (sys : Sys) (ho : HolderObj) : HM Vec := do
  let decl ← varDecl sys ho.var
  let po ← rdPop ho.pop
  pure (List.replicate po.count decl.dflt)

/-! ## simulation operations -/

/-- one turn of the loop of `set_input_dispatch_by_period`: a sub-period that has no value yet
(`holder.get_array(sub_period) is None`, so neither in memory nor on disk) takes the array -/
def dispatchOne (sys : Sys) (ho : HolderObj) (a : Vec) (sub : Period) : HM Unit := do
  let found ← holderFind ho sub
  match found with
  | some _ => pure ()
  | none => holderSet sys ho sub a

/-- the loop: from the start of the period, one definition period after the other while it starts before `after` -/
def dispatchLoop (sys : Sys) (ho : HolderObj) (a : Vec) (after : Date) : Nat → Period → HM Unit
  | 0, _ => fail .fuel
  | n + 1, sub =>
    if sub.start.lt after then do
      dispatchOne sys ho a sub
      let nxt ← ofPeriod (sub.offset (.n 1) none)
      dispatchLoop sys ho a after n nxt
    else pure ()

/-- `set_input_dispatch_by_period(holder, period, array)`: `_to_array` (the length is checked against the
population) — refused for an eternal variable — `after_instant = period.start.offset(size, unit)` — the loop -/
def dispatchInput (sys : Sys) (ho : HolderObj) (decl : VarDecl) (p : Period) (a : Vec) : HM Unit := do
  let po ← rdPop ho.pop
  if a.length ≠ po.count then fail .value else
  if isEternal decl then fail .value else do
  let after ← ofPeriod (instOffset p.start (.n p.size) p.unit)
  match after with
  | none => fail .value
  | some af => dispatchLoop sys ho a af 800 ⟨decl.defPeriod, p.start, 1⟩

/-- `Simulation.set_input` → `Holder.set_input`: a variable with a `set_input` rule hands the period and the
array to it, the others store under the period itself -/
def setInput (sys : Sys) (x : Id) (v : Var) (p : Period) (a : Vec) : HM Unit := do
  let decl ← varDecl sys v
  let (_, ho) ← getHolder sys x v
  if p.unit = .eternity ∧ !isEternal decl then fail .value else
  if decl.dispatch then dispatchInput sys ho decl p a else
  holderSet sys ho p a

/-- `set_input` with values that `astype(variable.dtype)` refuses: the holder is made, the period is
checked, `_to_array` raises -/
def setInputBad (sys : Sys) (x : Id) (v : Var) (p : Period) : HM Unit := do
  let decl ← varDecl sys v
  let _ ← getHolder sys x v
  if p.unit = .eternity ∧ !isEternal decl then fail .value else
  fail .value

/-- `Simulation.delete_arrays` -/
def deleteArrays (sys : Sys) (x : Id) (v : Var) (p : Option Period) : HM Unit := do
  let (_, ho) ← getHolder sys x v
  holderDelete ho p

/-- `simulation.invalidate_cache_entry(variable, period)`: `self.invalidated_caches.add(Cache(variable, period))` —
nothing is checked (the entry is met by the next purge) -/
def invalidateEntry (x : Id) (v : Var) (p : Period) : HM Unit := do
  let so ← rdSim x
  let inv ← rdInval so.inval
  wrLeaf so.inval (.inval (insertNew inv (v, p)))

/-- `simulation.trace = b`: the setter installs a *new* tracer -/
def setTrace (x : Id) (b : Bool) : HM Unit := do
  let t ← new x.reg (.tracer ⟨b, [], []⟩)
  updSim x (fun so => { so with trace := b, tracer := t })

/-- `_check_period_consistency` -/
def periodConsistent (decl : VarDecl) (p : Period) : Bool :=
  if decl.defPeriod = .eternity then true
  else if decl.defPeriod = .year ∧ p.unit ≠ .year then false
  else if decl.defPeriod = .month ∧ p.unit ≠ .month then false
  else if decl.defPeriod = .week ∧ p.unit ≠ .week then false
  else if decl.defPeriod = .day ∧ p.unit ≠ .day then false
  else if decl.defPeriod = .weekday ∧ p.unit ≠ .weekday then false
  else decide (p.size = 1)

/-- frames marked by `invalidate_spiral_variables`, walking the stack from the most recent -/
def spiralFrames (msl : Nat) (v : Var) : List Key → Nat → List Key
  | [], _ => []
  | f :: rest, count =>
    if f.1 = v then
      if count + 1 > msl then [f] else f :: spiralFrames msl v rest (count + 1)
    else f :: spiralFrames msl v rest count

def addAll (inv : List Key) (ks : List Key) : List Key := ks.foldl insertNew inv

/-- `_check_for_cycle` -/
def checkForCycle (x : Id) (v : Var) (p : Period) : HM Unit := do
  let so ← rdSim x
  let tr ← rdTracer so.tracer
  let previous := (tr.stack.dropLast.filter (fun f => f.1 = v)).map (fun f => f.2)
  if p ∈ previous then fail .cycle else
  if previous.length ≥ so.msl then do
    let inv ← rdInval so.inval
    wrLeaf so.inval (.inval (addAll inv (spiralFrames so.msl v tr.stack.reverse 0)))
    fail .spiral
  else pure ()

/-- `tracer.record_calculation_start` -/
def tracerStart (x : Id) (v : Var) (p : Period) : HM Unit := do
  let so ← rdSim x
  let tr ← rdTracer so.tracer
  wrLeaf so.tracer (.tracer { tr with
    stack := tr.stack ++ [(v, p)],
    roots := if tr.full ∧ tr.stack.isEmpty then tr.roots ++ [(v, p)] else tr.roots })

/-- `tracer.record_calculation_end` -/
def tracerEnd (x : Id) : HM Unit := do
  let so ← rdSim x
  let tr ← rdTracer so.tracer
  wrLeaf so.tracer (.tracer { tr with stack := tr.stack.dropLast })

def purgeEach (sys : Sys) (x : Id) : List Key → HM Unit
  | [] => pure ()
  | (v, p) :: rest => do
    let (_, ho) ← getHolder sys x v
    holderDelete ho (some p)
    purgeEach sys x rest

/-- `purge_cache_of_invalid_values`; `self.invalidated_caches = set()` binds a *new* set -/
def purge (sys : Sys) (x : Id) : HM Unit := do
  let so ← rdSim x
  let tr ← rdTracer so.tracer
  if tr.stack.isEmpty then do
    let inv ← rdInval so.inval
    purgeEach sys x inv
    let i ← new x.reg (.inval [])
    updSim x (fun so => { so with inval := i })
  else pure ()

def vadd (a b : Vec) : Vec := List.zipWith (· + ·) a b
def vscale (c : Int) (a : Vec) : Vec := a.map (c * ·)

/-- `numpy.bincount(members_entity_id, weights=a, minlength=count)` -/
def groupSum (membersEntityId : List Nat) (a : Vec) (count : Nat) : Vec :=
  let n := max count ((membersEntityId.foldl max 0) + (if membersEntityId.isEmpty then 0 else 1))
  (List.range n).map (fun g => ((membersEntityId.zip a).filter (fun x => x.1 = g)).foldl (fun s x => s + x.2) 0)

/-- `GroupPopulation.members_role`: the assigned roles, else everybody holds the first flattened role
(the getter also caches that default in `_members_role`; the cached value is the value it would compute
again, so the assignment is not observable and is not modelled as a write) -/
def PopObj.roles (po : PopObj) : List Nat :=
  po.membersRole.getD (List.replicate po.membersEntityId.length 0)

/-- position of each person among the members of its group, in order of appearance -/
def appearancePositions (mei : List Nat) : List Nat :=
  (List.range mei.length).map (fun k => ((mei.take k).filter (fun g => some g = mei[k]?)).length)

/-- `GroupPopulation.members_position`: the assigned positions, else the order of appearance (cached like
the default roles) -/
def PopObj.positions (po : PopObj) : List Nat :=
  po.membersPosition.getD (appearancePositions po.membersEntityId)

/-- `GroupPopulation.value_nth_person(k, a, default=0)`: for every group with more than `k` members, the value
of its member at position `k`.  (`ordered_members_map`, an `argsort` of `members_entity_id` whose order
inside a group is numpy's, only serves to enumerate the members group by group: it has no influence on the
result and is not modelled.)  `none`: the positions are not a numbering of each group's members — numpy
raises on the shape mismatch. -/
def nthPerson (mei positions : List Nat) (a : Vec) (count k : Nat) : Option Vec :=
  let rows := (mei.zip positions).zip a
  let sel := rows.filter (fun x => x.1.2 = k)
  let nb := fun g => (mei.filter (fun x => x = g)).length
  let targets := (List.range count).filter (fun g => nb g > k)
  if sel.length ≠ targets.length then none else
  some ((List.range count).map (fun g =>
    if nb g > k then
      match sel.find? (fun x => x.1.1 = g) with
      | some x => x.2
      | none => 0
    else 0))

/-- `members_role == role`, or the disjunction over the sub-roles -/
def roleBits (roles : List Nat) (role : List Nat) : List Bool := roles.map (fun r => role.contains r)

/-- `numpy.bincount(members_entity_id[filter], weights=a[filter], minlength=count)` -/
def groupSumRole (membersEntityId : List Nat) (bits : List Bool) (a : Vec) (count : Nat) : Vec :=
  let kept := ((membersEntityId.zip a).zip bits).filter (fun x => x.2)
  groupSum (kept.map (fun x => x.1.1)) (kept.map (fun x => x.1.2)) count

def transformPeriod (pt : PT) (p : Period) : HM Period :=
  match pt with
  | .same => pure p
  | .lastMonth => ofPeriod p.lastMonth

/-- one term of a formula, evaluated for the population `pid` the formula is called with;
`rec` is `Simulation.calculate` (one unit of fuel less) -/
def evalTerm (sys : Sys) (rec : Id → Var → Period → HM Vec) (pid : Id) (ent : Nat) (p : Period) (t : Term) :
    HM Vec := do
  let p' ← transformPeriod t.pt p
  let ddecl ← varDecl sys t.dep
  let po ← rdPop pid
  match t.via with
  | .same =>
    -- `population(dep, p')`: `check_variable_defined_for_entity`, then `self.simulation.calculate`
    if ddecl.entity ≠ ent then fail .value else
    rec po.sim t.dep p'
  | .enumIs k =>
    -- `population(dep, p') == ENUM.<member k>`: what `calculate` returns for an Enum variable — computed, cached,
    -- or copied into a clone with the store — is an `EnumArray`, which compares with a member by index
    if ddecl.entity ≠ ent then fail .value else do
    let a ← rec po.sim t.dep p'
    pure (a.map (fun x => if x = (k : Int) then 1 else 0))
  | .members => do
    -- `population.sum(population.members(dep, p'))`
    let mid ← ofOption .value po.members
    let mo ← rdPop mid
    if ddecl.entity ≠ mo.entity then fail .value else do
    let a ← rec mo.sim t.dep p'
    if a.length ≠ mo.count then fail .value else
    pure (groupSum po.membersEntityId a po.count)
  | .project => do
    -- `person.<group>(dep, p')`: the projector takes `population.simulation.populations[group]`
    let so ← rdSim po.sim
    let gid ← ofOption .value (alGet so.pops ddecl.entity)
    if ddecl.entity = 0 then fail .value else do
    let go ← rdPop gid
    let a ← rec go.sim t.dep p'
    if a.length ≠ go.count then fail .value else
    ofOption .value (go.membersEntityId.mapM (fun g => a[g]?))
  | .membersRole role => do
    -- `population.sum(population.members(dep, p'), role=ROLE)`; the filter is
    -- `self.members.has_role(ROLE)`: `members.simulation.get_population(ROLE.entity.plural).members_role`
    let mid ← ofOption .value po.members
    let mo ← rdPop mid
    if ddecl.entity ≠ mo.entity then fail .value else do
    let a ← rec mo.sim t.dep p'
    if a.length ≠ mo.count then fail .value else do
    let so ← rdSim mo.sim
    let gid ← ofOption .value (alGet so.pops ent)
    let go ← rdPop gid
    if go.roles.length ≠ a.length then fail .value else
    pure (groupSumRole po.membersEntityId (roleBits go.roles role) a po.count)
  | .nbPersons role =>
    -- `population.nb_persons(role=ROLE)`: `self.sum(self.members_role == ROLE)`
    if po.roles.length ≠ po.membersEntityId.length then fail .value else
    pure (groupSum po.membersEntityId ((roleBits po.roles role).map (fun b => if b then 1 else 0)) po.count)
  | .hasRole g role => do
    -- `person.has_role(ROLE)`: `self.simulation.get_population(ROLE.entity.plural).members_role == ROLE`
    let so ← rdSim po.sim
    let gid ← ofOption .value (alGet so.pops g)
    let go ← rdPop gid
    pure ((roleBits go.roles role).map (fun b => if b then 1 else 0))
  | .param => pure (List.replicate po.count paramValue)
  | .nth k => do
    -- `population.value_nth_person(k, population.members(dep, p'), default=0)`
    let mid ← ofOption .value po.members
    let mo ← rdPop mid
    if ddecl.entity ≠ mo.entity then fail .value else do
    let a ← rec mo.sim t.dep p'
    if a.length ≠ mo.count then fail .value else
    if po.positions.length ≠ a.length ∨ po.membersEntityId.length ≠ a.length then fail .value else
    ofOption .value (nthPerson po.membersEntityId po.positions a po.count k)

def evalTerms (sys : Sys) (rec : Id → Var → Period → HM Vec) (pid : Id) (ent : Nat) (p : Period) :
    List Term → Vec → HM Vec
  | [], acc => pure acc
  | t :: rest, acc => do
    let a ← evalTerm sys rec pid ent p t
    if a.length ≠ acc.length then fail .value else
    evalTerms sys rec pid ent p rest (vadd acc (vscale t.coef a))

/-- `_run_formula`, or the default array when the variable has no formula -/
def formulaValue (sys : Sys) (rec : Id → Var → Period → HM Vec) (p : Period) (decl : VarDecl) (pid : Id)
    (ho : HolderObj) : HM Vec :=
  match decl.formula with
  | none => holderDefault sys ho
  | some ct =>
    -- `variable.get_formula(period)` prints the start instant: `ETERNITY` has no printable start
    if p.unit = .eternity then fail .value else do
    let po ← rdPop pid
    evalTerms sys rec pid decl.entity p ct.2 (List.replicate po.count ct.1)

/-- the `try:` body of `_calculate`: cycle check, formula (or default), store -/
def computeAndStore (sys : Sys) (rec : Id → Var → Period → HM Vec) (x : Id) (v : Var) (p : Period)
    (decl : VarDecl) (pid : Id) (ho : HolderObj) : HM Vec := do
  checkForCycle x v p
  let a ← formulaValue sys rec p decl pid ho
  putInCache sys ho p a
  pure a

/-- repair C02a / C02c: a hit on an entry awaiting deletion taints the calculations in progress; an eternal
variable has one stored value, whatever the period it was marked or is read under -/
def taintOnHit (x : Id) (v : Var) (p : Period) (eternal : Bool) : HM Unit := do
  let so ← rdSim x
  let inv ← rdInval so.inval
  if inv.any (fun k => decide (k.1 = v) && (decide (k.2 = p) || eternal)) then do
    let tr ← rdTracer so.tracer
    wrLeaf so.inval (.inval (addAll inv tr.stack))
  else pure ()

/-- `_calculate` -/
def calcInner (sys : Sys) (rec : Id → Var → Period → HM Vec) (x : Id) (v : Var) (p : Period) : HM Vec := do
  let decl ← varDecl sys v
  let so ← rdSim x
  let pid ← ofOption .value (alGet so.pops decl.entity)
  let (_, ho) ← getHolder sys x v
  if !periodConsistent decl p then fail .value else do
  match ← holderFind ho p with
  | some a => do
    taintOnHit x v p (isEternal decl)
    pure a
  | none =>
    catchSpiral (computeAndStore sys rec x v p decl pid ho) (holderDefault sys ho)

/-- `Simulation.calculate` -/
def calcF (sys : Sys) : Nat → Id → Var → Period → HM Vec
  | 0, _, _, _ => fail .fuel
  | n + 1, x, v, p => do
    tracerStart x v p
    tryFinally (calcInner sys (calcF sys n) x v p) (do tracerEnd x; purge sys x)

def sumCalc (sys : Sys) (fuel : Nat) (x : Id) (v : Var) : List Period → Option Vec → HM (Option Vec)
  | [], acc => pure acc
  | sp :: rest, acc => do
    let a ← calcF sys fuel x v sp
    sumCalc sys fuel x v rest (some (match acc with | none => a | some b => vadd b a))

/-- the ways a caller gets at a population of a simulation -/
inductive Route where
  | getPopulation     -- `simulation.get_population(entity.plural)`
  | populations       -- `simulation.populations[entity.key]`
  | shortcut          -- `simulation.<entity key>` (set by `create_shortcuts` / `clone`)
  | persons           -- `simulation.persons`
deriving DecidableEq, Repr

/-- Every route is a look-up in the simulation object itself, derived each time and stored nowhere else: the
population it returns is the one listed by *this* simulation. -/
def routePop (x : Id) (r : Route) (ent : Nat) : HM Id := do
  let so ← rdSim x
  match r with
  | .persons => pure so.persons
  | .getPopulation => ofOption .value (alGet so.pops ent)
  | .populations => ofOption .value (alGet so.pops ent)
  | .shortcut => ofOption .value (alGet so.pops ent)

/-- `population(v, period)` on the population a route returned: `check_variable_defined_for_entity`, then
`population.simulation.calculate(v, period)` -/
def calcThrough (sys : Sys) (fuel : Nat) (x : Id) (r : Route) (ent : Nat) (v : Var) (p : Period) : HM Vec := do
  let pid ← routePop x r ent
  let po ← rdPop pid
  let decl ← varDecl sys v
  if decl.entity ≠ po.entity then fail .value else
  calcF sys fuel po.sim v p

/-- `population.get_holder(v)` on the population `pid` -/
def popGetHolder (sys : Sys) (r : Nat) (pid : Id) (v : Var) : HM (Id × HolderObj) := do
  let decl ← varDecl sys v
  let po ← rdPop pid
  if decl.entity ≠ po.entity then fail .value else
  match alGet po.holders v with
  | some hid => do
    let ho ← rdHolder hid
    pure (hid, ho)
  | none => createHolder sys r pid v

/-- `population.get_holder(v).get_array(period)` on the population a route returned -/
def readThrough (sys : Sys) (x : Id) (r : Route) (ent : Nat) (v : Var) (p : Period) : HM (Option Vec) := do
  let pid ← routePop x r ent
  let (_, ho) ← popGetHolder sys x.reg pid v
  holderFind ho p

/-- `Simulation.calculate_add`: `sum(calculate(v, sub) for sub in subperiods)`; `none` is the integer
`0` Python's `sum` returns when there is no sub-period -/
def calcAdd (sys : Sys) (fuel : Nat) (x : Id) (v : Var) (p : Period) : HM (Option Vec) := do
  let decl ← varDecl sys v
  if unitWeight decl.defPeriod > unitWeight p.unit then fail .value else
  if decl.defPeriod = .eternity then fail .value else
  -- repair C03: an eternal period cannot be summed over
  if p.unit = .eternity then fail .value else do
  let subs ← ofPeriod (p.subperiods decl.defPeriod)
  sumCalc sys fuel x v subs none

inductive Op where
  | setInput (v : Var) (p : Period) (a : Vec)
  | deleteArrays (v : Var) (p : Option Period)
  | calculate (v : Var) (p : Period)
  | calculateAdd (v : Var) (p : Period)
  | setTrace (b : Bool)
  | touch (v : Var)          -- `simulation.get_holder(v)`
  | setBad (v : Var) (p : Period)   -- `set_input` with an array of the right length whose dtype cannot be cast
  | calcVia (r : Route) (ent : Nat) (v : Var) (p : Period)   -- `<route>(v, period)`
  | readVia (r : Route) (ent : Nat) (v : Var) (p : Period)   -- `<route>.get_holder(v).get_array(period)`
  | invalidate (v : Var) (p : Period)   -- `simulation.invalidate_cache_entry(v, period)`
deriving Repr

/-- what a call returns -/
inductive Out where
  | done                     -- `None`
  | vec (a : Vec)
  | zero                     -- the integer `0` of an empty `calculate_add`
  | nothing                  -- `get_array` found no value
deriving DecidableEq, Repr

/-- one public-API call on the simulation `x` -/
def step (sys : Sys) (fuel : Nat) (x : Id) : Op → HM Out
  | .setInput v p a => do setInput sys x v p a; pure .done
  | .deleteArrays v p => do deleteArrays sys x v p; pure .done
  | .calculate v p => do pure (.vec (← calcF sys fuel x v p))
  | .calculateAdd v p => do
    match ← calcAdd sys fuel x v p with
    | some a => pure (.vec a)
    | none => pure .zero
  | .setTrace b => do setTrace x b; pure .done
  | .touch v => do let _ ← getHolder sys x v; pure .done
  | .setBad v p => do setInputBad sys x v p; pure .done
  | .calcVia r ent v p => do pure (.vec (← calcThrough sys fuel x r ent v p))
  | .readVia r ent v p => do
    match ← readThrough sys x r ent v p with
    | some a => pure (.vec a)
    | none => pure .nothing
  | .invalidate v p => do invalidateEntry x v p; pure .done

/-! ## observations of one simulation -/

structure HolderObs where
  var : Var
  ownPop : Bool              -- `holder.population is` the population that lists it
  ownSim : Bool              -- `holder.simulation is` this simulation
  known : List (Period × Option Vec)
deriving DecidableEq, Repr

structure PopObs where
  entity : Nat
  ownSim : Bool              -- `population.simulation is` this simulation
  ownMembers : Bool          -- `group.members is simulation.persons` (true for the persons)
  count : Nat
  ids : List Nat
  membersEntityId : List Nat
  roles : List Nat                     -- `members_role` (flattened role of each person)
  positions : List Nat                 -- `members_position`
  roleCounts : List (List Int)         -- `nb_persons(role)` for every role of `stdRoles`
  holders : List HolderObs
deriving DecidableEq, Repr

structure Obs where
  debug : Bool
  optOut : Bool
  msl : Nat
  trace : Bool
  full : Bool
  roots : List Key
  stack : List Key
  inval : List Key
  personsListed : Bool       -- `simulation.persons is simulation.populations[person]`
  pops : List PopObs
  routes : List (Nat × List Bool)   -- per entity: is the population returned by `get_population(plural)`,
                                    -- `populations[key]`, `simulation.<key>` bound to this simulation?
  personsRoute : Bool               -- `simulation.persons.simulation is simulation`
deriving DecidableEq, Repr

def observeHolder (x pid : Id) (e : Var × Id) : HM HolderObs := do
  let ho ← rdHolder e.2
  let known ← holderKnown ho
  pure ⟨e.1, decide (ho.pop = pid), decide (ho.sim = x), known⟩

def observePop (x persons : Id) (e : Nat × Id) : HM PopObs := do
  let po ← rdPop e.2
  let hs ← mapMH (observeHolder x e.2) po.holders
  pure ⟨po.entity, decide (po.sim = x),
    (match po.members with | none => true | some m => decide (m = persons)),
    po.count, po.ids, po.membersEntityId, po.roles, po.positions,
    stdRoles.map (fun role =>
      groupSum po.membersEntityId ((roleBits po.roles role).map (fun b => if b then 1 else 0)) po.count),
    hs⟩

/-- is the population a route returns bound to the simulation that was asked? -/
def routeOwn (x : Id) (r : Route) (ent : Nat) : HM Bool := do
  let pid ← routePop x r ent
  let po ← rdPop pid
  pure (decide (po.sim = x))

def observeRoutes (x : Id) (e : Nat × Id) : HM (Nat × List Bool) := do
  let a ← routeOwn x .getPopulation e.1
  let b ← routeOwn x .populations e.1
  let c ← routeOwn x .shortcut e.1
  pure (e.1, [a, b, c])

def observe (x : Id) : HM Obs := do
  let so ← rdSim x
  let tr ← rdTracer so.tracer
  let inv ← rdInval so.inval
  let pops ← mapMH (observePop x so.persons) so.pops
  let routes ← mapMH (observeRoutes x) so.pops
  let pr ← routeOwn x .persons 0
  pure ⟨so.debug, so.optOut, so.msl, so.trace, tr.full, tr.roots, tr.stack, inv,
    decide (alGet so.pops 0 = some so.persons), pops, routes, pr⟩

/-- `simulation.get_array(v, p)` without creating the holder (`none` = no value) -/
def readValue (sys : Sys) (x : Id) (v : Var) (p : Period) : HM (Option Vec) := do
  let decl ← varDecl sys v
  let so ← rdSim x
  let pid ← ofOption .value (alGet so.pops decl.entity)
  let po ← rdPop pid
  match alGet po.holders v with
  | some hid => do
    let ho ← rdHolder hid
    holderFind ho p
  | none => pure none

/-- `simulation.get_known_periods(v)` without creating the holder -/
def readKnown (sys : Sys) (x : Id) (v : Var) : HM (List Period) := do
  let decl ← varDecl sys v
  let so ← rdSim x
  let pid ← ofOption .value (alGet so.pops decl.entity)
  let po ← rdPop pid
  match alGet po.holders v with
  | some hid => do
    let ho ← rdHolder hid
    knownPeriods ho
  | none => pure []

/-- entity structure of one population: count, ids, memberships, which variables have a holder -/
def readStructure (x : Id) (ent : Nat) :
    HM (Nat × List Nat × List Nat × List Nat × List Nat × List Var) := do
  let so ← rdSim x
  let pid ← ofOption .value (alGet so.pops ent)
  let po ← rdPop pid
  pure (po.count, po.ids, po.membersEntityId, po.roles, po.positions, po.holders.map (fun e => e.1))

/-- the configuration a simulation calculates with: `opt_out_cache`, `max_spiral_loops`, `memory_config` -/
def readConfig (x : Id) : HM (Bool × Nat × Option MemConfig) := do
  let so ← rdSim x
  pure (so.optOut, so.msl, so.memConfig)

/-- `simulation.populations[ent].nb_persons(role=ROLE)` -/
def roleCount (x : Id) (ent : Nat) (role : List Nat) : HM Vec := do
  let so ← rdSim x
  let pid ← ofOption .value (alGet so.pops ent)
  let po ← rdPop pid
  pure (groupSum po.membersEntityId ((roleBits po.roles role).map (fun b => if b then 1 else 0)) po.count)

/-- `simulation.persons.has_role(ROLE)` for a role of the group entity `ent`: the person population goes
back to *its* simulation to find the group population -/
def personsHaveRole (x : Id) (ent : Nat) (role : List Nat) : HM (List Bool) := do
  let so ← rdSim x
  let po ← rdPop so.persons
  let so2 ← rdSim po.sim
  let gid ← ofOption .value (alGet so2.pops ent)
  let go ← rdPop gid
  pure (roleBits go.roles role)

/-! ## clone (repaired code) -/

/-- `Holder.clone(population)`: every attribute by reference except `population`, `simulation`
(read from the new population) and — repair C13 — a new `InMemoryStorage` holding a copy of the
dict.  This is the code path of a holder WITHOUT on-disk storage (`_disk_storage is None` is copied like any
attribute); `cloneHolderR` below adds the branch of repair C13-disk -/
def cloneHolder (rc : Nat) (newPop : Id) (hid : Id) : HM Id := do
  let ho ← rdHolder hid
  let np ← rdPop newPop
  let st ← rdStore ho.mem
  let mem ← new rc (.store ⟨st.eternal, st.arrays⟩)
  new rc (.holder { ho with pop := newPop, sim := np.sim, mem := mem })

def cloneHolders (rc : Nat) (newPop : Id) : List (Var × Id) → HM (List (Var × Id))
  | [] => pure []
  | (v, hid) :: rest => do
    let hid' ← cloneHolder rc newPop hid
    let rest' ← cloneHolders rc newPop rest
    pure ((v, hid') :: rest')

/-- `members` of a cloned group population: `simulation.persons` -/
def cloneMembers (newSim : Id) : Option Id → HM (Option Id)
  | none => pure none
  | some _ => do
    let ns ← rdSim newSim
    pure (some ns.persons)

/-- `Population.clone(simulation)` / `GroupPopulation.clone(simulation)`: a new population bound
to `simulation`, holders cloned for the *new* population, `members = simulation.persons`;
`count`, `ids`, `_members_entity_id`, `_members_role` (and the derived `_members_position`,
`_ordered_members_map`, functions of `_members_entity_id` alone, not modelled) by reference — values here -/
def clonePop (rc : Nat) (newSim : Id) (pid : Id) : HM Id := do
  let po ← rdPop pid
  let members ← cloneMembers newSim po.members
  let pid' ← new rc (.pop { po with sim := newSim, holders := [], members := members })
  let hs ← cloneHolders rc pid' po.holders
  let np ← rdPop pid'
  wr pid' (.pop { np with holders := hs })
  pure pid'

def cloneGroups (rc : Nat) (newSim : Id) : List (Nat × Id) → HM (List (Nat × Id))
  | [] => pure []
  | (k, pid) :: rest => do
    let pid' ← clonePop rc newSim pid
    let rest' ← cloneGroups rc newSim rest
    pure ((k, pid') :: rest')

/-- `Simulation.clone(trace=…)`: `empty_clone` + every attribute by reference except
`debug/trace/tracer` (so `opt_out_cache`, `max_spiral_loops`, `memory_config`, `_data_storage_dir` are
the original's); then `persons`, `populations` and the group populations are replaced by clones;
`new.debug = debug`, `new.trace = trace` installs a new tracer; repair C13c: a new `invalidated_caches` -/
def cloneSim (s : Id) (trace : Bool) (debug : Bool) : HM Id := do
  let so ← rdSim s
  let rc ← newRegion
  let c ← new rc (.sim so)
  let inv ← new rc (.inval [])
  let persons' ← clonePop rc c so.persons
  let ns ← rdSim c
  wr c (.sim { ns with persons := persons', inval := inv })
  let groups' ← cloneGroups rc c (so.pops.filter (fun e => e.1 ≠ 0))
  let tr ← new rc (.tracer ⟨trace, [], []⟩)
  let ns ← rdSim c
  wr c (.sim { ns with pops := (0, persons') :: groups', tracer := tr, trace := trace, debug := debug })
  pure c

/-! ## clone of any simulation (repair C13-disk): on-disk values are copied to a directory of the clone's own

`cloneSim` above is what the repaired code does for a simulation whose holders have no on-disk storage (and
that has made no temporary directory): the property theorems are proved about it.  `cloneSimR` is the
transcription for EVERY simulation; the two coincide on memory-backed simulations (`Holder.clone` takes the
`_disk_storage is None` branch for every holder and `new._data_storage_dir = None` changes nothing).  The
driver runs `cloneSimR` for every case, and cross-checks `cloneSim` against it on memory-backed ones. -/

/-- `shutil.copyfile` for every registered period file: the content is read in the source directory and
written under the same file name in the new one -/
def copyFiles (oldDir newDir : Id) (v : Var) : List Period → HM Unit
  | [] => pure ()
  | k :: rest => do
    let od ← rdDir oldDir
    let content ← ofOption .bad (alGet od.files (v, k))
    let nd ← rdDir newDir
    wrLeaf newDir (.dir ⟨alPut nd.files (v, k) content⟩)
    copyFiles oldDir newDir v rest

/-- the `_disk_storage` of a cloned holder: `new.create_disk_storage()` in the NEW simulation's temporary
directory (made on first use), the period files copied there and registered in the same order -/
def cloneDisk (rc : Nat) (newSim : Id) : Option Id → HM (Option Id)
  | none => pure none
  | some did => do
    let d ← rdDisk did
    let dirId ← dataStorageDir rc newSim
    let did' ← new rc (.disk ⟨d.eternal, d.var, dirId, []⟩)
    copyFiles d.dir dirId d.var d.files
    wrLeaf did' (.disk ⟨d.eternal, d.var, dirId, d.files⟩)
    pure (some did')

/-- `Holder.clone(population)` (repaired): a new `InMemoryStorage` with a copy of the dict, and a new
`OnDiskStorage` with copies of the files when the holder has one -/
def cloneHolderR (rc : Nat) (newPop : Id) (hid : Id) : HM Id := do
  let ho ← rdHolder hid
  let np ← rdPop newPop
  let st ← rdStore ho.mem
  let mem ← new rc (.store ⟨st.eternal, st.arrays⟩)
  let disk ← cloneDisk rc np.sim ho.disk
  new rc (.holder { ho with pop := newPop, sim := np.sim, mem := mem, disk := disk })

def cloneHoldersR (rc : Nat) (newPop : Id) : List (Var × Id) → HM (List (Var × Id))
  | [] => pure []
  | (v, hid) :: rest => do
    let hid' ← cloneHolderR rc newPop hid
    let rest' ← cloneHoldersR rc newPop rest
    pure ((v, hid') :: rest')

def clonePopR (rc : Nat) (newSim : Id) (pid : Id) : HM Id := do
  let po ← rdPop pid
  let members ← cloneMembers newSim po.members
  let pid' ← new rc (.pop { po with sim := newSim, holders := [], members := members })
  let hs ← cloneHoldersR rc pid' po.holders
  let np ← rdPop pid'
  wr pid' (.pop { np with holders := hs })
  pure pid'

def cloneGroupsR (rc : Nat) (newSim : Id) : List (Nat × Id) → HM (List (Nat × Id))
  | [] => pure []
  | (k, pid) :: rest => do
    let pid' ← clonePopR rc newSim pid
    let rest' ← cloneGroupsR rc newSim rest
    pure ((k, pid') :: rest')

/-- `Simulation.clone` (repaired): as `cloneSim`, with `new._data_storage_dir = None` before the populations
are cloned -/
def cloneSimR (s : Id) (trace : Bool) (debug : Bool) : HM Id := do
  let so ← rdSim s
  let rc ← newRegion
  let c ← new rc (.sim { so with dir := none })
  let inv ← new rc (.inval [])
  let persons' ← clonePopR rc c so.persons
  let ns ← rdSim c
  wr c (.sim { ns with persons := persons', inval := inv })
  let groups' ← cloneGroupsR rc c (so.pops.filter (fun e => e.1 ≠ 0))
  let tr ← new rc (.tracer ⟨trace, [], []⟩)
  let ns ← rdSim c
  wr c (.sim { ns with pops := (0, persons') :: groups', tracer := tr, trace := trace, debug := debug })
  pure c

/-! ## construction of a simulation from a description (driver and examples) -/

structure GroupSpec where
  entity : Nat
  count : Nat
  membersEntityId : List Nat
  roles : Option (List Nat)      -- `members_role` assigned at construction, or never
  positions : Option (List Nat) := none   -- `members_position` assigned at construction, or never
deriving Repr

structure SimSpec where
  persons : Nat
  groups : List GroupSpec
  memConfig : Option MemConfig
  optOut : Bool := false
  msl : Nat := Generated.maxSpiralLoops
deriving Repr

def buildGroups (r : Nat) (s persons : Id) : List GroupSpec → HM (List (Nat × Id))
  | [] => pure []
  | g :: rest => do
    let pid ← new r (.pop ⟨g.entity, s, [], g.count, List.range g.count, some persons, g.membersEntityId, g.roles, g.positions⟩)
    let rest' ← buildGroups r s persons rest
    pure ((g.entity, pid) :: rest')

/-- `Simulation(tax_benefit_system, populations)` followed by `simulation.memory_config = …` -/
def build (spec : SimSpec) : HM Id := do
  let r ← newRegion
  let self : Id := ⟨r, 0⟩
  let s ← new r (.sim ⟨self, [], self, self, false, spec.memConfig, none, false, spec.optOut, spec.msl⟩)
  let persons ← new r (.pop ⟨0, s, [], spec.persons, List.range spec.persons, none, [], none, none⟩)
  let groups ← buildGroups r s persons spec.groups
  let tr ← new r (.tracer ⟨false, [], []⟩)
  let inv ← new r (.inval [])
  wr s (.sim ⟨persons, (0, persons) :: groups, tr, inv, false, spec.memConfig, none, false, spec.optOut, spec.msl⟩)
  pure s

/-! ## interleaved histories -/

inductive Side where
  | orig | clone
deriving DecidableEq, Repr

/-- the heap after the operations of one simulation, in order (exceptions are caught by the caller
and leave their partial effects, as in Python) -/
def runSide (sys : Sys) (fuel : Nat) (x : Id) : List Op → Heap → Heap
  | [], h => h
  | op :: rest, h => runSide sys fuel x rest (step sys fuel x op h).2

def sideId (s c : Id) : Side → Id
  | .orig => s
  | .clone => c

/-- the heap after an interleaved history on the original `s` and the clone `c` -/
def runOps (sys : Sys) (fuel : Nat) (s c : Id) : List (Side × Op) → Heap → Heap
  | [], h => h
  | (sd, op) :: rest, h => runOps sys fuel s c rest (step sys fuel (sideId s c sd) op h).2

def onSide (sd : Side) (e : Side × Op) : Option Op := if e.1 = sd then some e.2 else none

/-- what the calls of one simulation, run alone, return -/
def resultsSide (sys : Sys) (fuel : Nat) (x : Id) : List Op → Heap → List (Except Err Out)
  | [], _ => []
  | op :: rest, h => (step sys fuel x op h).1 :: resultsSide sys fuel x rest (step sys fuel x op h).2

/-- what the calls made on side `sd` return in an interleaved history -/
def resultsOps (sys : Sys) (fuel : Nat) (s c : Id) (sd : Side) : List (Side × Op) → Heap → List (Except Err Out)
  | [], _ => []
  | (sd', op) :: rest, h =>
    if sd' = sd then
      (step sys fuel (sideId s c sd') op h).1 :: resultsOps sys fuel s c sd rest (step sys fuel (sideId s c sd') op h).2
    else resultsOps sys fuel s c sd rest (step sys fuel (sideId s c sd') op h).2

/-! ## families of simulations and histories with clones

The live simulations are kept in a list, in order of creation (the original first); an event designates a
simulation by its rank. -/

/-- the heap after calls on any of the simulations `sims` -/
def runCalls (sys : Sys) (fuel : Nat) (sims : List Id) : List (Nat × Op) → Heap → Heap
  | [], h => h
  | (i, op) :: rest, h =>
    match sims[i]? with
    | some x => runCalls sys fuel sims rest (step sys fuel x op h).2
    | none => runCalls sys fuel sims rest h

/-- what the calls made on the `j`-th simulation return -/
def resultsCalls (sys : Sys) (fuel : Nat) (sims : List Id) (j : Nat) : List (Nat × Op) → Heap → List (Except Err Out)
  | [], _ => []
  | (i, op) :: rest, h =>
    match sims[i]? with
    | some x =>
      if i = j then (step sys fuel x op h).1 :: resultsCalls sys fuel sims j rest (step sys fuel x op h).2
      else resultsCalls sys fuel sims j rest (step sys fuel x op h).2
    | none => resultsCalls sys fuel sims j rest h

def callsOf (j : Nat) (e : Nat × Op) : Option Op := if e.1 = j then some e.2 else none

/-- a step of a history: a call on a live simulation, or the cloning of one (the clone joins the list) -/
inductive Ev where
  | call (i : Nat) (op : Op)
  | clone (i : Nat) (trace debug : Bool)

/-- heap and live simulations after a history (a `clone()` that raises makes no simulation; what it had
allocated is unreachable and dropped) -/
def runEvs (sys : Sys) (fuel : Nat) : List Ev → Heap × List Id → Heap × List Id
  | [], st => st
  | .call i op :: rest, (h, sims) =>
    match sims[i]? with
    | some x => runEvs sys fuel rest ((step sys fuel x op h).2, sims)
    | none => runEvs sys fuel rest (h, sims)
  | .clone i t d :: rest, (h, sims) =>
    match sims[i]? with
    | some x =>
      match cloneSim x t d h with
      | (.ok c, h') => runEvs sys fuel rest (h', sims ++ [c])
      | (.error _, _) => runEvs sys fuel rest (h, sims)
    | none => runEvs sys fuel rest (h, sims)

/-! ## footprints -/

/-- the references an object holds -/
def Obj.refs : Obj → List Id
  | .sim o => o.persons :: o.tracer :: o.inval :: (o.pops.map (fun e => e.2) ++ o.dir.toList)
  | .pop o => o.sim :: (o.holders.map (fun e => e.2) ++ o.members.toList)
  | .holder o => o.pop :: o.sim :: o.mem :: o.disk.toList
  | .store _ => []
  | .disk o => [o.dir]
  | .dir _ => []
  | .tracer _ => []
  | .inval _ => []

def refsOf (h : Heap) (p : Id) : List Id :=
  match h.get? p with
  | some o => o.refs
  | none => []

/-- the ids reachable from `roots` by following at most `n` references -/
def reach (h : Heap) : Nat → List Id → List Id
  | 0, roots => roots
  | n + 1, roots => roots ++ reach h n (roots.flatMap (refsOf h))

end OFCore.Heap
