/-!
# The two-tier value store of a holder (import-free)

`Holder` keeps the arrays of one variable in an in-memory store and, under a memory configuration,
in an on-disk store.  Transcription of `Holder.get_array`, `_set`, `delete_arrays`,
`get_known_periods` and of the key canonicalisation of `InMemoryStorage` / `OnDiskStorage`
(`is_eternal` ⇒ every period is the ETERNITY key):

* `get`: the memory store first, then (when the holder has a disk store) the disk store;
* `set p x pressure`: to disk iff the holder is disk-storable, the memory store has NO value for the
  key, and memory occupation is at or above the configured threshold (`pressure`, decided by the
  environment at each write); otherwise to memory — so a value already in memory is replaced there;
* `delete none` empties both stores, `delete (some p)` removes the key from both;
* `known`: the keys of both stores.

`K` is the type of storage keys, `key : P → K` the canonicalisation (identity, or constant for an
eternal variable).  The specification is a plain finite map.
-/
namespace OFCore.HolderStore

abbrev Tbl (K V : Type) := List (K × V)

def tget {K V : Type} [DecidableEq K] : Tbl K V → K → Option V
  | [], _ => none
  | (k', x) :: r, k => if k' = k then some x else tget r k

/-- `del dict[k]` (absent key: nothing) -/
def tdel {K V : Type} [DecidableEq K] : Tbl K V → K → Tbl K V
  | [], _ => []
  | (a, x) :: r, k => if a = k then tdel r k else (a, x) :: tdel r k

/-- `dict[k] = x` -/
def tput {K V : Type} [DecidableEq K] (t : Tbl K V) (k : K) (x : V) : Tbl K V :=
  (k, x) :: tdel t k

structure Holder (K V : Type) where
  diskable : Bool            -- `_on_disk_storable` (memory configuration present, not a priority variable)
  mem : Tbl K V
  disk : Tbl K V

variable {P K V : Type} [DecidableEq K]

def Holder.get (key : P → K) (h : Holder K V) (p : P) : Option V :=
  match tget h.mem (key p) with
  | some x => some x
  | none => if h.diskable then tget h.disk (key p) else none

def Holder.set (key : P → K) (h : Holder K V) (p : P) (x : V) (pressure : Bool) : Holder K V :=
  if h.diskable ∧ tget h.mem (key p) = none ∧ pressure = true
  then { h with disk := tput h.disk (key p) x }
  else { h with mem := tput h.mem (key p) x }

def Holder.delete (key : P → K) (h : Holder K V) : Option P → Holder K V
  | none => { h with mem := [], disk := [] }
  | some p => { h with mem := tdel h.mem (key p), disk := tdel h.disk (key p) }

/-- `get_known_periods`: keys of the memory store, then keys of the disk store -/
def Holder.known (h : Holder K V) : List K :=
  h.mem.map (·.1) ++ (if h.diskable then h.disk.map (·.1) else [])

/-- operations of a history; every write carries the pressure the environment shows at that moment -/
inductive Op (P V : Type) where
  | set (p : P) (x : V) (pressure : Bool)
  | del (p : Option P)

def Holder.step (key : P → K) (h : Holder K V) : Op P V → Holder K V
  | .set p x b => h.set key p x b
  | .del p => h.delete key p

def Holder.run (key : P → K) (h : Holder K V) (ops : List (Op P V)) : Holder K V :=
  ops.foldl (Holder.step key) h

/-! ## specification: one finite map, no tiers, no pressure -/

def specStep (key : P → K) (m : K → Option V) : Op P V → (K → Option V)
  | .set p x _ => fun k => if k = key p then some x else m k
  | .del none => fun _ => none
  | .del (some p) => fun k => if k = key p then none else m k

def specRun (key : P → K) (m : K → Option V) (ops : List (Op P V)) : K → Option V :=
  ops.foldl (specStep key) m

/-- what a holder shows: the value read for a key -/
def Holder.view (h : Holder K V) (k : K) : Option V :=
  match tget h.mem k with
  | some x => some x
  | none => if h.diskable then tget h.disk k else none

end OFCore.HolderStore
